pub fn  one( ) { }
