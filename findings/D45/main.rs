#[path = "a.rs"]
mod a;
#[path = "a.inc"]
mod a2;
fn main() {}
