#[cfg_attr(rustfmt, rustfmt::skip, allow(dead_code))]
fn  a( ) { }
#[cfg_attr(rustfmt, allow(dead_code), rustfmt::skip)]
fn  b( ) { }
#[cfg_attr(rustfmt, rustfmt_skip)]
fn  c( ) { }
#[cfg_attr(rustfmt, allow(dead_code))]
fn  d( ) { }
#[cfg_attr(rustfmt::skip)]
fn  e( ) { }
