fn f() {
    /*
　* foo
    */
    let x = 1;
}
