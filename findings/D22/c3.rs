fn f() {
    let s = "abc
    abcé   
    ";
}
