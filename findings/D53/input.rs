const X: Option<Box<dyn Iterator<Item = u8>>> = /* c */ None;
