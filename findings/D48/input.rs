impl Bar {
    pub type I = impl A;
}
