enum E<const N: usize = { 3 }> { // c4
    A,
}
