fn x(){}
