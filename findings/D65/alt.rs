fn  a( ){}
