#[cfg_attr(unix, path = "alt.rs")]
mod m;
fn   main( ) { }
