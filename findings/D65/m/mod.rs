fn y(){}
