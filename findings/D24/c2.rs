fn f() {
    let x = 1;
}
