#![rustfmt::skip]
fn  a( ) { }
