fn  main( ) { }
