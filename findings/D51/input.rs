type F = fn(#[a] u8, #[b] x: u16, /* c */ u32, #[a] /* d */ u64);
trait T {
    fn g(#[a] u8);
}
