#[cfg(a)]
mod foo;
#[cfg(not(a))]
#[cfg_attr(b, path = "alt.rs")]
mod foo;
fn main() {}
