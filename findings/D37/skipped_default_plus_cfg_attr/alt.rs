fn alt() {}
