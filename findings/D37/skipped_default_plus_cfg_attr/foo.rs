#![rustfmt::skip]
fn  x(){}
