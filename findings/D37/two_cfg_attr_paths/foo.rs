#![rustfmt::skip]
fn  x(){}
