#[cfg_attr(feature = "a", path = "foo.rs")]
mod a;
#[cfg_attr(feature = "b", path = "foo.rs")]
mod b;
