fn b() {}
