fn a() {}
