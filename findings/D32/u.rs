use a::{b, c::{}};
