impl S {
    reuse a::b;
      reuse   a::{c, d};
    fn f() {}
}
trait T {
  reuse a::b;
}
