fn main() {
    let s = "aaaaaaaaaaaaaaaaaaaaaaaaaaaaaaaaaaaaaaaaaaaaaaaaaaaaaaaaaaaaaaaaaaaaaaaaaaaaaaaa\nbbbbbbbbbbbbbbbbbbbbbbbbbbbbbbbbbbbbbbbb";
    let t = "aaaaaaaaaaaaaaaaaaaaaaaaaaaaaaaaaaaaaaaaaaaaaaaaaaaaaaaaaaaaaaaaaaaaaaaaaaaaaaa\\\\bbbbbbbbbbbbbbbbbbbbbbbbbbbbbbbbbbbbbbbb";
}
