fn main() {
let x = 1;
}
