use   b;
use a;
