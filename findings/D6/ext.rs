extern "C" {
    #[rustfmt::skip]
    fn   foo( a:i32,
       b :i32 );
    fn   bar( a:i32 );
}
