extern "C" {
    #[cfg_attr(rustfmt, rustfmt::skip)]
    static   FOO : [i32;
      2];
    // c
    #[rustfmt::skip]
    type   T ;
}
