fn main() {}
