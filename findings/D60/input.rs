fn f() {
    let x = 0b1f32;
}
