fn f() {
    let a = async use { x };
    let b = async move { x };
    let c = async { x };
}
