fn main() {
    let (a, .., _, _) = t;
    let S(.., _, _) = s;
    let (a, _, _) = t;
}
