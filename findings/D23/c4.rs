struct S {
    a: u8  ,   // cééé

    bbbbbb: u16, // x
}
