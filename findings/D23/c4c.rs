struct S {
    a: u8   ,   // cabcdef

    bbbbbb: u16, // x
}
