fn  o( ) { }
