fn  k( ) { }
