use foo as bar;
use foo as baz;
use foo as bar;
use self as s;
use crate as c;
use crate;
