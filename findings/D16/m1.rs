use foo as bar;
use foo;
use foo::x;
