use foo::x;
use foo as bar;
