use a::{f as f2, f};
use b as b2;
use b;
