mod m0 {
    mod m1 {
        mod m2 {
            mod m3 {
                mod m4 {
                    mod m5 {
                        mod m6 {
                            fn f() {} // a trailing comment here
                            // a comment on its own line that is long
                            fn g<T>() where T: Clone {}
                        }
                    }
                }
            }
        }
    }
}
