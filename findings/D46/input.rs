fn h() {
    let z = try!(a + b);
    let w = try!(-x);
    let v = try!(x as T);
    let u = try!(foo(1));
    let t = try!(a.b).c();
    let s = try!(a + b).c();
    let r = try!(|| 1);
}
