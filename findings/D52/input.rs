struct S {
    a: u32, /* first
       second */ // third

    bbbbbb: u32,
}
