fn main() {}
