#!/bin/sh
kill -9 $$
