fn f() {
    let a = try!(b,   c);
    let d = try!(e( 1 ));
    let g = try!(h,);
}
