#[cfg(any())]
enum E { pub A, pub(crate) B(u8), pub(in   crate::x) C { a: u8 }, D = 1, pub F = 2 }
