::cfg_if::cfg_if! {
    if #[cfg(unix)] {
        mod x;
    }
}
fn main() {}
