fn  x( ) { }
