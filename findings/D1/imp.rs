#[cfg(unix)]
use c::d;
#[cfg(windows)]
use c::d;
pub use a::b;
use a::b;
use x::y;
use x::y;
use x::{y, z};
