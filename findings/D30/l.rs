lazy_static! {
    pub FOO: u32 = 1;
}
