fn f() {
    let a = vec![1;   n m];
    let b = vec![1;   n];
    let c = vec![1;  n,];
}
