fn main() {
    loop {
        #![allow(unused)]
        let x = 1;
        break;
    }
    while true {
        #![allow(unused)]
        let y = 2;
    }
    for i in 0..1 {
        #![allow(unused)]
        let z = 3;
    }
    let c = || {
        #![allow(unused)]
        let w = 4;
    };
    unsafe {
        #![allow(unused)]
        let v = 5;
    }
}
