unsafe mod a;
pub unsafe mod b;
unsafe mod c {}
