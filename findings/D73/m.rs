fn  m( ) { }
