fn  n( ) { }
