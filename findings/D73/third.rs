fn  third( ) { }
