#[cfg(path = "other.rs")]
mod m;
#[doc(path = "third.rs")]
mod n;
fn main() {}
