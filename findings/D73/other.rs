fn  other( ) { }
