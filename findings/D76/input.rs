fn a() {}


fn b() {}
