enum E {
    A = 1 /* f */ , /* g */
}
enum F {
    B /* c17 */, /* c18 */
}
struct S {
    a: u8 /* x */ , /* y */
    b: u8, // z
}
fn f(a: u8 /* p */ , /* q */ b: u8) {}
