fn f() -> Result<(), ()> {
    let x = try!(foo(1,   2)).bar();
    try!(foo(1,   2));
    Ok(())
}
