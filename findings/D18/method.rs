struct S;

impl S {
    #[rustfmt::skip::macros(foo)]
    fn m() {
        foo!(1,   2,
             3);
    }

    #[rustfmt::skip::attributes(custom)]
    #[custom(  a,b  )]
    fn q() {}
}

trait T {
    #[rustfmt::skip::macros(foo)]
    fn d() {
        foo!(1,   2,
             3);
    }
}
