fn main() {}
