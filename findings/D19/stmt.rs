fn g() {
    #[rustfmt::skip::macros(foo)]
    let x = foo!(1,   2,
             3);
    #[rustfmt::skip::macros(foo)]
    foo!(1,   2,
         3);
}
