//　　* item one is here
fn main() {}
