cfg_if! {
    if #[cfg(unix)] {
        ;
        mod a;
    }
}
fn main() {}
