fn  a( ) { }
