fn h() {
    let a = (#[a] (x));
    let b = ((  (y)  ));
    let c = (#[a] ((x)));
}
