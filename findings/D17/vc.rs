fn f() {
    vec![0u8 /* zero */; 3];
    let v = vec![0u8 /* zero */; 3];
    foo!(a /* c1 */, b);
    foo!(a, /* c2 */ b);
}
