fn  y( ) { }
