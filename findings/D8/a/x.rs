fn  x( ) { }
