fn bad( { 
