fn   foo( ) { }
