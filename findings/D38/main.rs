#[cfg(a)]
mod foo;
#[cfg(not(a))]
#[cfg_attr(b, path = "bad.rs")]
mod foo;
fn   main( ) { }
