// > >
fn f() {}
// > ‖>x
fn g() {}
// > quoted text that is fine
fn h() {}
