macro_rules! m {
    ($r#fn:expr) => { $r#fn };
}
fn main() { let v = m!(1 + 2); println!("{}", v); }
