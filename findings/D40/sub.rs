#![rustfmt::skip::macros(foo)]
fn f() {
    foo!(1,   2,
         3);
}
