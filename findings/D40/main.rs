mod sub;
fn main() {}
