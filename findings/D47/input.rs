impl Foo {
    pub default type X = u8;
    pub default fn g();
}
trait T {
    default type X;
    default fn f();
}
extern "C" {
    default fn ef();
}
default fn ff();
