"""C18 — cargo fmt (partial).

R18-a ExitStatus discipline: a missing exit code never maps to success; statuses obtained in a loop are accumulated
R18-b target errors precede any spawn; hit list must be exhausted · R18-c identity of a target = canonical path; ordered sets
"""
from absint import explore, vkey, variant_name, TooManyPaths
from common import short, op_local, result_edges, edge_dominates, loops_of, rvalue_operands, operand_origin

CODE = "std::process::ExitStatus::code"


def tainted_in_loop(fn, blocks, seeds):
    """forward taint of locals inside loop blocks"""
    t = set(seeds)
    changed = True
    while changed:
        changed = False
        for bb in blocks:
            for s in fn.blocks[bb]["s"]:
                if s[0] != "=":
                    continue
                srcs = set()
                for op in rvalue_operands(s[2]):
                    if op[0] in ("c", "m"):
                        srcs.add(op[1][0])
                from common import rvalue_places
                for pl in rvalue_places(s[2]):
                    srcs.add(pl[0])
                if srcs & t and s[1][0] not in t:
                    t.add(s[1][0])
                    changed = True
            tr = fn.blocks[bb]["t"]
            if tr[0] == "call":
                srcs = {a[1][0] for a in tr[2] if a[0] in ("c", "m")}
                if srcs & t and tr[3][0] not in t:
                    t.add(tr[3][0])
                    changed = True
    return t


def run(ctx):
    p, r = ctx.p, ctx.r
    A = r.rule("R18-a", "every ExitStatus::code() result is consumed by Option::unwrap_or(<non-zero>) (a child killed by a signal "
                        "is a failure); an ExitStatus obtained inside a loop is pushed into a collection or updates an "
                        "accumulator under a failure test — it never simply overwrites the previous status")
    sites = [c for c in p.all_calls("cargo_fmt") if c.name == CODE]
    for c in sites:
        f = c.fn
        key = "%s: ExitStatus::code #%d" % (short(f.id), c.ordinal)
        if c.dest[1] or c.dest[0] == 0:
            r.instance(A, key, "violation", c.loc(), "Option<i32> escapes (returned)")
            r.violation(A, "%s: exit code None not mapped to failure" % short(f.id),
                        "the Option<i32> of ExitStatus::code() is returned/dropped as is: a child killed by a signal (None) "
                        "does not make the tool fail", [c.loc()])
            continue
        users = [cc for cc in f.calls() if any(a[0] in ("c", "m") and a[1][0] == c.dest[0] for a in cc.args)]
        ok = False
        detail = "no consumer"
        for u in users:
            if u.name.endswith("Option::<T>::unwrap_or") and len(u.args) > 1:
                o = operand_origin(f, u.args[1])
                val = u.args[1][2] if u.args[1][0] == "k" else (o[1] if o[0] == "const" else None)
                ok = isinstance(val, int) and val != 0
                detail = "unwrap_or(%s)" % val
        r.instance(A, key, "ok" if ok else "violation", c.loc(), detail)
        if not ok:
            r.violation(A, "%s: exit code None not mapped to failure" % short(f.id),
                        "ExitStatus::code() is consumed by %s: a child without exit code (killed by a signal) is treated as "
                        "success" % detail, [c.loc()])
    r.floor(A, len(sites), 2, "ExitStatus::code() call sites in cargo-fmt")
    # statuses in loops
    rr = p.fns.get("cargo_fmt::run_rustfmt")
    if rr is None:
        r.undecidable(A, "cargo_fmt::run_rustfmt not found")
    else:
        nw = 0
        for lp in loops_of(rr):
            blocks = lp["blocks"]
            waits = [c for c in rr.calls() if c.bb in blocks and c.name in ("std::process::Child::wait", "std::process::Command::status",
                                                                            "std::process::Command::output")]
            for w in waits:
                nw += 1
                taint = tainted_in_loop(rr, blocks, {w.dest[0]})
                accumulated = False
                carried = []
                overwritten = []
                for c in rr.calls():
                    if c.bb in blocks and any(a[0] in ("c", "m") and a[1][0] in taint for a in c.args):
                        last = c.name.rsplit("::", 1)[-1]
                        if last in ("push", "extend", "insert", "push_back") and len(c.args) >= 2:
                            accumulated = True
                # tainted locals read after the loop
                outside = set(rr.reachable(0)) - set(blocks)
                after = set()
                for (u, v) in lp["exits"]:
                    after |= rr.reachable(v)
                after -= set(blocks)
                for loc in taint:
                    if loc == w.dest[0]:
                        continue
                    if rr.locals[loc].startswith("std::ops::ControlFlow") or rr.locals[loc].startswith("std::result::Result<std::convert::Infallible"):
                        continue        # the temporaries of `?`: they carry the *error* out of the loop, not a status
                    read_after = False
                    for bb in after:
                        b = rr.blocks[bb]
                        for s in b["s"]:
                            if s[0] == "=" and any(op[0] in ("c", "m") and op[1][0] == loc for op in rvalue_operands(s[2])):
                                read_after = True
                        t = b["t"]
                        if t[0] == "call" and any(a[0] in ("c", "m") and a[1][0] == loc for a in t[2]):
                            read_after = True
                    if not read_after:
                        continue
                    # assignments of loc inside the loop: guarded by a success() test of the same status?
                    defs_in = [(bb, kind, pl) for (bb, kind, pl) in rr.defs().get(loc, []) if bb in blocks]
                    for (bb, kind, pl) in defs_in:
                        succ_tests = [c for c in rr.calls() if c.bb in blocks and c.name == "std::process::ExitStatus::success"]
                        guarded = False
                        for s_ in succ_tests:
                            from common import bool_branches
                            for (sw, t_true, t_false) in bool_branches(rr, s_.dest[0]):
                                if bb in rr.reachable(t_false, avoid_blocks=[]) and bb not in rr.reachable(t_true, stop_blocks=[sw]):
                                    guarded = True
                        self_dep = loc in rr.derived_from(loc)["locals"] - {loc} if False else False
                        if not guarded:
                            overwritten.append((loc, bb))
                    if defs_in and not any(l == loc for (l, _) in overwritten):
                        carried.append(loc)     # written only on the failure edge of success(), read after the loop
                ok = accumulated or (bool(carried) and not overwritten)
                if accumulated:
                    why = "pushed into a collection"
                elif overwritten:
                    why = "overwrites local _%d each iteration" % overwritten[0][0]
                elif carried:
                    why = "kept in local _%d, assigned only where success() answered false" % carried[0]
                else:
                    why = "status neither accumulated nor carried out of the loop"
                r.instance(A, "run_rustfmt: status of %s in loop" % short(w.name), "ok" if ok else "violation", w.loc(), why)
                if not ok:
                    r.violation(A, "run_rustfmt: exit status of an earlier rustfmt invocation is not kept",
                                "the ExitStatus obtained in the per-edition loop %s: a failing invocation followed by a "
                                "successful one makes cargo fmt exit 0" % why, [w.loc()])
        r.floor(A, nw + len(sites), 3, "status-producing calls")

    B = r.rule("R18-b", "format_crate: get_targets(..)? dominates run_rustfmt on its Ok edge; get_targets_with_hitlist returns "
                        "Ok only when the hit list is exhausted")
    fc = p.fns.get("cargo_fmt::format_crate")
    if fc is None:
        r.undecidable(B, "format_crate not found")
    else:
        gt = [c for c in fc.calls() if c.name == "cargo_fmt::get_targets"]
        rn = [c for c in fc.calls() if c.name == "cargo_fmt::run_rustfmt"]
        ok = False
        if len(gt) == 1 and not rn:
            # `get_targets(..).and_then(|targets| run_rustfmt(&targets, ..))`: the closure runs on the Ok value only
            for c2 in fc.calls():
                if c2.name.rsplit("::", 1)[-1] in ("and_then", "map") and "Result" in c2.name and c2.args and c2.args[0][0] != "k" \
                        and gt[0] in fc.derived_from(c2.args[0][1][0])["calls"]:
                    for x in c2.refs:
                        h = p.fns.get(x)
                        if h is not None and any(d.name == "cargo_fmt::run_rustfmt" for d in h.calls()):
                            ok = True
        if len(gt) == 1 and rn:
            for e in result_edges(fc, gt[0]):
                ok = e["ok"] is not None and all(edge_dominates(fc, (e["sw"], e["ok"]), c.bb) for c in rn) and \
                    all(c.bb not in fc.reachable(e["err"]) for c in rn if e["err"] is not None)
        r.instance(B, "format_crate: get_targets? before run_rustfmt", "ok" if ok else "violation", "%s:%d" % (fc.file, fc.line))
        if not ok:
            r.violation(B, "format_crate: rustfmt can be spawned although target discovery failed",
                        "run_rustfmt is not dominated by the success edge of get_targets", ["%s:%d" % (fc.file, fc.line)])
    hl = p.fns.get("cargo_fmt::get_targets_with_hitlist")
    if hl is None:
        r.undecidable(B, "get_targets_with_hitlist not found")
    else:
        try:
            paths = explore(hl, pure=lambda c: c.name.endswith("::is_empty"), max_paths=20000)
        except TooManyPaths as e:
            paths = []
            r.undecidable(B, str(e))
        r.paths(B, len(paths))
        n = 0
        for path in paths:
            if path.end != "ret" or path.ret is None:
                continue
            emp = [v for k, v in path.decisions if "BTreeSet" in k and "::is_empty(" in k and isinstance(v, bool)]
            if not emp:
                # the same question asked another way: `first()` / `iter().next()` / `last()` of the set is None
                for k, v in path.decisions:
                    if ("BTreeSet" in k or "btree" in k) and any(x in k for x in ("::first", "::last", "::next", "pop_first")) \
                            and isinstance(v, tuple) and v[0] == "variant" and v[1] in ("None", "Some"):
                        emp = [v[1] == "None"]
            ret = vkey(path.ret)
            if ret.startswith("residual("):
                continue
            n += 1
            ok = (ret.startswith("Ok(") and emp == [True]) or (ret.startswith("Err(") and emp == [False])
            r.instance(B, "get_targets_with_hitlist[hitlist empty=%s]" % emp, "ok" if ok else "violation",
                       "%s:%d" % (hl.file, hl.line), ret[:40])
            if not ok:
                r.violation(B, "get_targets_with_hitlist returns %s with hit list empty=%s" % (ret[:12], emp),
                            "an unknown package named with -p is not an error before formatting", ["%s:%d" % (hl.file, hl.line)])
        r.floor(B, n, 2, "returning paths of get_targets_with_hitlist")

    C = r.rule("R18-c", "Target's PartialEq / Ord / PartialOrd / Hash read only `path`; `path` comes from fs::canonicalize; targets "
                        "live in BTreeSet<Target>; edition groups in a BTreeMap whose key is passed to --edition")
    T = "cargo_fmt::Target"
    n = 0
    for f in p.by_crate["cargo_fmt"]:
        if f.impl and f.impl.get("self") == T and f.impl.get("trait") in (
                "std::cmp::PartialEq", "std::cmp::Ord", "std::cmp::PartialOrd", "std::hash::Hash"):
            n += 1
            fields = {fld for (adt, var, fld, mode, bb, line) in f.field_accesses() if adt == T}
            # transitively through workspace callees (e.g. partial_cmp delegating to cmp)
            for g_id in p.reach_from([f.id]):
                g = p.fns[g_id]
                if g.crate == "cargo_fmt" and g is not f:
                    fields |= {fld for (adt, var, fld, mode, bb, line) in g.field_accesses() if adt == T}
            ok = fields == {"path"}
            r.instance(C, "%s reads %s" % (short(f.id), sorted(fields)), "ok" if ok else "violation", "%s:%d" % (f.file, f.line))
            if not ok:
                r.violation(C, "%s reads %s" % (short(f.id), sorted(fields)),
                            "the identity of a target is no longer its path alone: the same file could be formatted twice or "
                            "two files collapse into one", ["%s:%d" % (f.file, f.line)])
    r.floor(C, n, 4, "identity impls of Target")
    ft = p.fns.get("cargo_fmt::Target::from_target")
    if ft is not None:
        ok = False
        for bb, i, s in ft.stmts():
            if s[0] == "=" and s[2][0] == "agg" and isinstance(s[2][1], list) and s[2][1][0] == "adt" and s[2][1][1] == T:
                op = s[2][2][0]
                if op[0] != "k":
                    d = ft.derived_from(op[1][0])
                    ok = any(c.name == "std::fs::canonicalize" for c in d["calls"])
                    if not ok:
                        # through a private helper (`Target::canonical_or_given(path)`)
                        from common import calls_transitively
                        for c in d["calls"]:
                            h = p.fns.get(c.resolved or "")
                            if h is not None and h.crate == ft.crate and calls_transitively(p, h, "std::fs::canonicalize", depth=1):
                                ok = True
        r.instance(C, "Target.path from fs::canonicalize", "ok" if ok else "violation", "%s:%d" % (ft.file, ft.line))
        if not ok:
            r.violation(C, "Target.path is not canonicalised", "two spellings of one file would be two targets", ["%s:%d" % (ft.file, ft.line)])
    bad_sets = []
    for f in p.by_crate["cargo_fmt"]:
        for ty in f.locals:
            if "HashSet<cargo_fmt::Target" in ty or "Vec<cargo_fmt::Target" in ty or "HashMap<&cargo_metadata::Edition" in ty:
                bad_sets.append((f, ty))
    r.instance(C, "targets kept in ordered sets", "ok" if not bad_sets else "violation", "src/cargo-fmt/main.rs",
               "no HashSet/Vec of Target, no HashMap keyed by edition")
    for (f, ty) in bad_sets[:2]:
        r.violation(C, "%s keeps targets in %s" % (short(f.id), ty.split("<")[0]),
                    "targets / edition groups are kept in an unordered or duplicate-admitting collection (%s)" % ty,
                    ["%s:%d" % (f.file, f.line)])
    if rr is not None:
        ok = any("BTreeMap" in c.name and c.name.endswith("::new") for f2 in p.body_family(rr) for c in f2.calls()) or \
            any("BTreeMap" in ty for ty in rr.locals)
        asstr = [c for c in rr.calls() if c.name.endswith("Edition::as_str")]
        ok2 = False
        for c in asstr:
            d = rr.derived_from(c.args[0][1][0]) if c.args[0][0] != "k" else {"calls": []}
            ok2 = ok2 or any("btree_map" in cc.name and cc.name.endswith("::next") for cc in d["calls"])
        r.instance(C, "run_rustfmt: BTreeMap edition groups, key → --edition", "ok" if ok and ok2 else "violation",
                   "%s:%d" % (rr.file, rr.line))
        if not (ok and ok2):
            r.violation(C, "run_rustfmt: --edition does not receive the group's key",
                        "the edition passed to rustfmt is not the key of the edition group being formatted", ["%s:%d" % (rr.file, rr.line)])
    target_edition_is_the_targets_own(ctx, "R18-d")


def target_edition_is_the_targets_own(ctx, rid):
    """R18-d: the edition a file is formatted under is the edition cargo reports for its target"""
    p, r = ctx.p, ctx.r
    r.rule(rid, "every construction of cargo_fmt::Target takes its `edition` field from the `edition` field of the "
                "cargo_metadata::Target it was built from (and `path` from that target's `src_path`): a `[[bin]]` or `[lib]` may "
                "declare an edition of its own, and rustfmt is started once per edition with `--edition` — the edition of the "
                "package, of the workspace or of anything else parses `async`/`dyn`/`gen` differently")
    T = "cargo_fmt::Target"
    n = 0
    for f in p.by_crate["cargo_fmt"]:
        for bb, i, s in f.stmts():
            if not (s[0] == "=" and s[2][0] == "agg" and isinstance(s[2][1], list) and s[2][1][0] == "adt" and s[2][1][1] == T):
                continue
            if "tests" in f.id or f.id.startswith("cargo_fmt::cargo_fmt_tests") or "::targets::" in f.id:
                continue
            n += 1
            ops = s[2][2]
            if len(ops) < 3 or ops[2][0] == "k":
                src = set()
            else:
                d = f.derived_from(ops[2][1][0])
                src = {(x[0], str(x[2])) for x in d["fields"]} | {(e[2], str(e[4])) for e in ops[2][1][1] if isinstance(e, list) and e[0] == "f"}
            own = ("cargo_metadata::Target", "edition") in src
            foreign = sorted(x for x in src if x[1] == "edition" and x[0] != "cargo_metadata::Target")
            ok = own and not foreign
            r.instance(rid, "%s builds a Target" % short(f.id), "ok" if ok else "violation", "%s:%d" % (f.file, s[3]),
                       "edition from %s" % sorted(x for x in src if x[1] == "edition"))
            if not ok:
                r.violation(rid, "%s: Target.edition is not the target's own edition" % short(f.id),
                            "the field derives from %s" % (foreign or sorted(src)[:4] or "a constant"), ["%s:%d" % (f.file, s[3])])
    r.floor(rid, n, 1, "constructions of cargo_fmt::Target outside the tests")
    edition_is_always_passed(ctx, "R18-e")


def edition_is_always_passed(ctx, rid):
    """R18-e: every rustfmt process cargo-fmt starts is told the edition of the targets it formats"""
    from common import expr_key
    p, r = ctx.p, ctx.r
    r.rule(rid, "cargo_fmt::run_rustfmt: no `Command::spawn` (or status / output) is reachable from the entry of the function "
                "without passing an `args([\"--edition\", ..])` call — whatever the user put after `--`.  rustfmt's own default is "
                "2015; a process started without the flag parses a 2021 crate as 2015 (`async fn` is an error) or formats it "
                "under other rules")
    f = p.fns.get("cargo_fmt::run_rustfmt")
    if f is None:
        r.undecidable(rid, "cargo_fmt::run_rustfmt not found")
        return
    ed = {c.bb for c in f.calls() if "Command" in c.name and c.name.rsplit("::", 1)[-1] in ("args", "arg")
          and any("--edition" in expr_key(f, a) for a in c.args[1:2])}
    spawns = [c for c in f.calls() if "Command" in c.name and c.name.rsplit("::", 1)[-1] in ("spawn", "status", "output")]
    reach = f.reachable(0, avoid_blocks=ed)
    bad = [c for c in spawns if c.bb in reach]
    r.instance(rid, "run_rustfmt: --edition precedes every spawn", "violation" if bad or not ed else "ok", "%s:%d" % (f.file, f.line),
               "%d edition-passing calls, %d spawns" % (len(ed), len(spawns)))
    if bad or not ed:
        r.violation(rid, "run_rustfmt can start rustfmt without --edition",
                    "a spawn is reachable on a path that never adds `--edition <edition of the targets>`",
                    [bad[0].loc() if bad else "%s:%d" % (f.file, f.line)])
    r.floor(rid, len(spawns), 1, "process starts in run_rustfmt")

