"""A8 — frozen effect classes of std / dependency APIs (matched against resolved callee paths)."""
import re

FS_MUTATING = [
    r"^std::fs::write$", r"^std::fs::rename$", r"^std::fs::File::create(_new)?$", r"^std::fs::OpenOptions::open$",
    r"^std::fs::remove_file$", r"^std::fs::remove_dir(_all)?$", r"^std::fs::copy$", r"^std::fs::create_dir(_all)?$",
    r"^std::fs::set_permissions$", r"^std::fs::hard_link$", r"^std::os::unix::fs::symlink$",
    r"^std::fs::File::set_len$", r"^std::fs::File::options$", r"^std::fs::File::set_permissions$",
    r"^std::fs::DirBuilder::create$", r"^std::fs::soft_link$", r"^std::fs::File::set_times$", r"^std::fs::File::set_modified$",
]
AMBIENT = [
    r"^std::env::var(_os)?$", r"^std::env::vars(_os)?$", r"^std::env::current_dir$", r"^std::env::args(_os)?$",
    r"^std::env::current_exe$", r"^std::env::home_dir$", r"^std::env::temp_dir$",
    r"^std::time::SystemTime::now$", r"^std::time::Instant::now$", r"^dirs::", r"^dirs_sys::",
    r"^std::thread::", r"^std::process::id$", r"^rand::", r"^std::collections::hash_map::RandomState::new$",
    r"^tracing_subscriber::.*from_env", r"^tracing_subscriber::.*from_default_env", r"^std::fs::canonicalize$",
    r"^std::io::stdin$", r"^std::env::set_current_dir$", r"^std::env::set_var$", r"^std::env::remove_var$",
]
PROCESS_EXIT = [r"^std::process::exit$", r"^std::process::abort$"]
CATCH_UNWIND = [r"^std::panic::catch_unwind$"]
SPAWN = [r"^std::process::Command::(spawn|status|output)$"]


def rx(lst):
    return re.compile("|".join("(?:%s)" % x for x in lst))


FS_MUTATING_RX = rx(FS_MUTATING)
AMBIENT_RX = rx(AMBIENT)
PROCESS_EXIT_RX = rx(PROCESS_EXIT)
CATCH_UNWIND_RX = rx(CATCH_UNWIND)
SPAWN_RX = rx(SPAWN)


def strip_generics(name):
    """std::fs::write::<&PathBuf, &str> → std::fs::write ; also `<impl ..>` segments are kept"""
    out = []
    depth = 0
    i = 0
    while i < len(name):
        ch = name[i]
        if name.startswith("::<", i) and depth == 0:
            # turbofish: skip to matching '>'
            j = i + 3
            d = 1
            while j < len(name) and d > 0:
                if name[j] == "<":
                    d += 1
                elif name[j] == ">":
                    d -= 1
                j += 1
            i = j
            continue
        out.append(ch)
        i += 1
    return "".join(out)


def is_fs_mutating(call):
    n = call.resolved or call.declared or ""
    return bool(FS_MUTATING_RX.search(strip_generics(n)))


def is_rustc_parser_entry(call):
    n = call.resolved or call.declared or ""
    return n.startswith("rustc_parse::") or n.startswith("<rustc_parse::") or \
        n.startswith("rustc_builtin_macros::asm::parse_asm_args")
