"""C12 — diff-based reports (partial: well-formedness discipline, sibling agreement, argument order).

R12-a XML escape table and its use · R12-b JSON only through the serializer · R12-c roles of the DiffLine kinds agree
R12-d no swapped line-number arguments at the constructors of the diff records
"""
from absint import explore, vkey, variant_name, TooManyPaths
from common import short, op_local, rvalue_operands, Call

ESC = {"<": "&lt;", ">": "&gt;", '"': "&quot;", "'": "&apos;", "&": "&amp;"}
# the message is written into an attribute value: an XML parser normalises a literal tab, line feed or carriage return there to
# a space (XML 1.0 §3.3.3), so the text read back from the report is not the formatted line unless they are character references
WS = {"\t": ("&#9;", "&#x9;"), "\n": ("&#10;", "&#xA;", "&#xa;"), "\r": ("&#13;", "&#xD;", "&#xd;")}


def run(ctx):
    p, r = ctx.p, ctx.r
    A = r.rule("R12-a", "XmlEscaped::fmt maps < > \" ' & to their five entities — each in one arm without a guard, whatever surrounds "
                        "the character —, tab / line feed / carriage return to character references (an attribute value is "
                        "whitespace-normalised by the reader) and every other character to itself; in "
                        "output_checkstyle_file every value derived from a DiffLine payload is wrapped in XmlEscaped")
    def _xml_family():
        fam = {f.id for f in p.fns.values() if "XmlEscaped" in (f.root or f.id) and (f.root or f.id).endswith("::fmt")}
        # the table may live in a helper of the same module that the formatter calls (`xml_entity(char)`)
        for fid in list(fam):
            for c in p.fns[fid].calls():
                if c.name in p.fns and "emitter::checkstyle" in c.name:
                    fam.add(c.name)
        return fam
    xfam = _xml_family()
    lm = [x for x in p.hir["hir_litmatch"] if x.get("scrut_ty") == "char" and (
        x["owner"] in xfam or any(x["owner"].startswith(o + "::{closure") for o in xfam))]
    if len(lm) != 1:
        r.undecidable(A, "literal match of XmlEscaped::fmt not found (%d)" % len(lm))
    else:
        got = {}
        wild_ok = False
        conditional = {}
        for a in lm[0]["arms"]:
            chars = [x["char"] for x in a["pats"] if isinstance(x, dict) and "char" in x]
            for ch in chars:
                if a.get("guard") or ch in got:
                    conditional[ch] = a["strs"] if a.get("guard") else got[ch]
                got[ch] = a["strs"]
            if a["wild"] and not chars:
                wild_ok = (a["strs"] == [] or all("&" not in s for s in a["strs"])) and not a.get("guard")
        for ch, strs in sorted(conditional.items()):
            # the entity must be written whatever surrounds the character: an arm with an `if` guard (or a second arm for the
            # same character) makes the translation depend on context
            r.instance(A, "escape %r is unconditional" % ch, "violation", "src/emitter/checkstyle/xml.rs")
            r.violation(A, "XmlEscaped: %r is translated conditionally" % ch,
                        "an arm for %r carries a guard (it writes %s when the guard holds): whether the character is escaped "
                        "depends on its neighbours, so some source text (`&lt;` written literally in a string) reaches the "
                        "report unescaped and reads back as different text" % (ch, strs), ["src/emitter/checkstyle/xml.rs"])
        for ch, ent in ESC.items():
            ok = got.get(ch) == [ent]
            r.cells(A, 1)
            r.instance(A, "escape %r ↦ %s" % (ch, got.get(ch)), "ok" if ok else "violation", "src/emitter/checkstyle/xml.rs")
            if not ok:
                r.violation(A, "XmlEscaped: %r ↦ %s" % (ch, got.get(ch)),
                            "the character %r is written as %s instead of %s: the checkstyle document is not well-formed for "
                            "sources containing it" % (ch, got.get(ch), ent), ["src/emitter/checkstyle/xml.rs"])
        for ch, refs in WS.items():
            ok = got.get(ch) is not None and len(got[ch]) == 1 and got[ch][0] in refs
            r.cells(A, 1)
            r.instance(A, "attribute-value whitespace %r ↦ %s" % (ch, got.get(ch)), "ok" if ok else "violation",
                       "src/emitter/checkstyle/xml.rs")
            if not ok:
                r.violation(A, "XmlEscaped: %r is written literally into an attribute value" % ch,
                            "the `message` attribute receives %r as itself; a conforming XML parser normalises it to a space, so "
                            "the text read from the checkstyle report differs from the formatted line and from the json report "
                            "(hard_tabs = true: every indented line)" % ch, ["src/emitter/checkstyle/xml.rs"])
        extra = set(got) - set(ESC) - set(WS)
        if extra:
            r.violation(A, "XmlEscaped: additional characters %s rewritten" % sorted(extra), str({k: got[k] for k in extra}),
                        ["src/emitter/checkstyle/xml.rs"])
        r.instance(A, "escape default arm is the identity", "ok" if wild_ok else "violation", "src/emitter/checkstyle/xml.rs")
        if not wild_ok:
            r.violation(A, "XmlEscaped: default arm", "characters other than the five specials are not written as themselves",
                        ["src/emitter/checkstyle/xml.rs"])
    oc = p.named("output_checkstyle_file", within="emitter::checkstyle")
    if oc is None:
        r.undecidable(A, "output_checkstyle_file not found")
    else:
        # every fmt::Argument built from a String taken out of a DiffLine must go through XmlEscaped
        n = 0
        # (function, predicate "this local carries a DiffLine payload"): output_checkstyle_file itself, and a helper of the
        # module that is handed the payload (`write_checkstyle_error(writer, line, &message)`)
        work = [(oc, None)]
        for hc in oc.calls():
            h = p.fns.get(hc.name)
            if h is None or "emitter::checkstyle" not in h.id:
                continue
            carried = set()
            for i, a in enumerate(hc.args):
                if a[0] != "k" and any(x[0] and x[0].endswith("rustfmt_diff::DiffLine") for x in oc.derived_from(a[1][0])["fields"]):
                    carried.add(i + 1)
            if carried:
                work.append((h, carried))
        for (g, carried) in work:
            for c in g.calls():
                if not ("fmt::rt::Argument" in c.name and c.name.rsplit("::", 1)[-1].startswith("new_")):
                    continue
                if c.args[0][0] == "k":
                    continue
                d = g.derived_from(c.args[0][1][0])
                if carried is None:
                    from_diffline = any(x[0] and x[0].endswith("rustfmt_diff::DiffLine") for x in d["fields"])
                else:
                    from_diffline = bool(d["args"] & carried)
                if not from_diffline:
                    continue
                n += 1
                ty = c.ga[0] if c.ga else ""
                ok = "XmlEscaped" in ty
                r.instance(A, "checkstyle interpolation of a DiffLine payload as %s" % short(ty), "ok" if ok else "violation", c.loc())
                if not ok:
                    r.violation(A, "%s interpolates a diff line as %s" % (short(g.id), short(ty)),
                                "text taken from the source is written into the XML report without XmlEscaped", [c.loc()])
        r.floor(A, n, 1, "interpolations of DiffLine payloads in output_checkstyle_file")
        r.note("R12-a: the file *name* is interpolated unescaped (`<file name=\"{filename}\">`); the statement quantifies over the "
               "characters of the source, so this is noted, not reported")

    B = r.rule("R12-b", "JsonEmitter writes to its output only through serde_json::to_writer / to_string plus a newline: no "
                        "hand-built JSON")
    n = 0
    for f in p.by_crate["rustfmt_nightly"]:
        if "emitter::json::JsonEmitter" not in f.id or f.kind == "Closure":
            continue
        if not (f.impl and (f.impl.get("trait") or "").endswith("::Emitter")):
            continue
        for c in f.calls():
            if c.declared in ("std::io::Write::write_fmt", "std::io::Write::write_all", "std::io::Write::write"):
                n += 1
                # allowed: writeln!(output, "{}", json) where json comes from serde_json
                ok = False
                if c.args and len(c.args) > 1 and c.args[1][0] != "k":
                    d = f.derived_from(c.args[1][1][0])
                    ok = any(x.name.startswith("serde_json::") for x in d["calls"])
                    strs = [k[2]["str"] for k in d["consts"] if isinstance(k[2], dict) and "str" in k[2]]
                    if any(ch in s for s in strs for ch in '{}[]":,'):
                        ok = False
                    if not ok and not [x for x in d["calls"] if not x.name.startswith("core::fmt::") and not x.name.startswith("std::fmt::")] \
                            and all(s.strip() == "" for s in strs):
                        ok = True   # writeln!(output): a bare line terminator after the serialized document
                r.instance(B, c.key(), "ok" if ok else "violation", c.loc())
                if not ok:
                    r.violation(B, "%s writes JSON by hand" % short(f.id),
                                "output written with %s does not come from the serde_json serializer (or carries JSON punctuation "
                                "of its own)" % short(c.name), [c.loc()])
    r.floor(B, n, 1, "writes in JsonEmitter")

    C = r.rule("R12-c", "the three consumers of Vec<Mismatch> agree on the role of each DiffLine kind: ModifiedLines counts "
                        "Resulting as removed and keeps Expected as new text; JsonEmitter sends Resulting to `original`, Expected "
                        "to `expected`; checkstyle reports Expected only; all ignore Context")
    roles = {}
    # ModifiedLines::from: closure filter counts Resulting; filter_map keeps Expected
    for f in p.fns.values():
        if f.kind != "Closure" or not f.root:
            continue
        root = f.root
        if root.endswith("ModifiedLines>::from") or "add_misformatted_file" in root or root.endswith("output_checkstyle_file"):
            pass
        else:
            continue
        try:
            paths = explore(f, pure=lambda c: True, is_effect=lambda c: c.name.endswith("::push_str") or c.name.endswith("::push"))
        except TooManyPaths:
            continue
        for path in paths:
            if path.end not in ("ret", "loop", "stop"):
                continue
            kinds = [variant_name(v) for k, v in path.decisions if k.startswith("discr(") and isinstance(variant_name(v), str)
                     and variant_name(v) in ("Context", "Expected", "Resulting")]
            if not kinds:
                continue
            ret = vkey(path.ret) if path.ret else ""
            roles.setdefault(short(root), {}).setdefault(kinds[0], set()).add(ret[:40])
    ml = [k for k in roles if "ModifiedLines" in k]
    ok = True
    detail = {}
    for k in ml:
        t = roles[k]
        detail[k] = {kk: sorted(v) for kk, v in t.items()}
    # explicit checks by exploring the functions with loops unrolled once
    def kinds_to_effects(fn, eff_pred, max_visits=2):
        out = {}
        try:
            paths = explore(fn, pure=lambda c: False, is_effect=eff_pred, max_visits=max_visits, max_paths=200000)
        except TooManyPaths:
            return None
        for path in paths:
            idx = [(i, variant_name(v)) for i, (k, v) in enumerate(path.decisions) if k.startswith("discr(")
                   and variant_name(v) in ("Context", "Expected", "Resulting")]
            # an iteration ends at the next decision on an iterator's `next()`
            nexts = [i for i, (k, v) in enumerate(path.decisions) if "::next" in k and k.startswith("discr(")]
            for j, (i, kind) in enumerate(idx):
                later = [n for n in nexts if n > i]
                hi = later[0] if later else (idx[j + 1][0] if j + 1 < len(idx) else 10 ** 6)
                if not later and j + 1 >= len(idx):
                    # no further iteration decided on this path: only effects in the same straight-line segment count
                    hi = i + 1 if path.end == "ret" and nexts else hi
                effs = [e for e in path.effects if e.kind in ("call", "store") and i + 1 <= e.ndec <= hi]
                out.setdefault(kind, set()).update(
                    (e.kind, short(e.name).rsplit("::", 1)[-1] if e.kind == "call" else e.name.rsplit(".", 1)[-1],
                     vkey(e.args[0])[:30] if e.args else "") for e in effs)
        return out
    cands = [f for f in p.by_crate["rustfmt_nightly"] if "emitter::json" in f.id
             and any(c.name.endswith("String::push_str") for c in f.calls())
             and any(s_[0] == "=" and s_[2][0] == "discr" and s_[2][2].endswith("rustfmt_diff::DiffLine") for _b, _i, s_ in f.stmts())]
    ja = cands[0] if len(cands) == 1 else None
    if ja is None:
        r.undecidable(C, "the JSON emitter function that distributes DiffLine kinds was not found uniquely (%d)" % len(cands))
    else:
        # which local buffer receives the text of each kind, and into which MismatchedBlock field that buffer goes
        def borrowed_local(fn, op):
            l = op_local(op)
            seen = 0
            while l is not None and seen < 4:
                d = fn.single_def(l)
                if d is None or d[1] != "assign":
                    return l
                rv = d[2][2]
                if rv[0] == "ref" and not rv[2][1]:
                    return rv[2][0]
                fl = [e for e in rv[2][1] if isinstance(e, list) and e[0] == "f"] if rv[0] == "ref" else []
                if fl and fl[-1][2] and fl[-1][2].endswith("MismatchedBlock"):
                    return "field:" + str(fl[-1][4])      # `block.expected.push_str(..)`: the text goes straight into the field
                if rv[0] == "ref" and rv[2][1] == ["*"]:
                    l = rv[2][0]
                elif rv[0] == "use":
                    l = op_local(rv[1])
                else:
                    return l
                seen += 1
            return l
        try:
            paths = explore(ja, is_effect=lambda c: c.name.endswith("String::push_str"), max_visits=2, max_paths=200000)
        except TooManyPaths:
            paths = None
            r.undecidable(C, "JsonEmitter::add_misformatted_file: too many paths")
        if paths is not None:
            r.paths(C, len(paths))
            buf = {}
            for path in paths:
                idx = [(i2, variant_name(v)) for i2, (k, v) in enumerate(path.decisions) if k.startswith("discr(")
                       and variant_name(v) in ("Context", "Expected", "Resulting")]
                for j2, (i2, kind) in enumerate(idx):
                    hi = idx[j2 + 1][0] if j2 + 1 < len(idx) else 10 ** 6
                    for e in path.effects:
                        if e.kind == "call" and i2 + 1 <= e.ndec <= hi:
                            buf.setdefault(kind, set()).add(borrowed_local(ja, e.call.args[0]))
            field_of = {}
            for bb, i2, st in ja.stmts():
                if st[0] == "=" and st[2][0] == "agg" and isinstance(st[2][1], list) and st[2][1][0] == "adt" and st[2][1][1].endswith("MismatchedBlock"):
                    adt = p.adts.get(st[2][1][1])
                    if adt:
                        for (nm, ty), op in zip(adt["variants"][0]["fields"], st[2][2]):
                            if op[0] != "k":
                                l = op[1][0]
                                hops = 0
                                while hops < 4:
                                    field_of[l] = nm
                                    d = ja.single_def(l)
                                    if d is None or d[1] != "assign" or d[2][2][0] != "use" or op_local(d[2][2][1]) is None:
                                        break
                                    l = op_local(d[2][2][1])
                                    hops += 1
            def fld(l):
                return l[6:] if isinstance(l, str) and l.startswith("field:") else field_of.get(l)
            exp_f = {fld(l) for l in buf.get("Expected", ())}
            res_f = {fld(l) for l in buf.get("Resulting", ())}
            okj = exp_f == {"expected"} and res_f == {"original"} and not buf.get("Context")
            r.instance(C, "json: Expected text → field %s, Resulting text → field %s, Context → %s" % (
                sorted(map(str, exp_f)), sorted(map(str, res_f)), sorted(buf.get("Context", ()))), "ok" if okj else "violation",
                "%s:%d" % (ja.file, ja.line))
            if not okj:
                r.violation(C, "JsonEmitter: Expected→%s Resulting→%s Context→%s" % (sorted(map(str, exp_f)), sorted(map(str, res_f)),
                                                                                       sorted(buf.get("Context", ()))),
                            "Expected lines must end up in MismatchedBlock.expected, Resulting lines in .original and Context "
                            "lines nowhere", ["%s:%d" % (ja.file, ja.line)])
    oc2 = oc
    if oc2 is not None:
        writers = {h.id for h in p.by_crate["rustfmt_nightly"] if "emitter::checkstyle" in h.id and h.id != oc2.id
                   and any(c.declared == "std::io::Write::write_fmt" for c in h.calls())}
        t = kinds_to_effects(oc2, lambda c: c.declared == "std::io::Write::write_fmt" or c.name in writers)
        if t is not None:
            w = {k: len([x for x in v if x[0] == "call"]) for k, v in t.items()}
            okc = w.get("Expected", 0) >= 1 and not w.get("Resulting") and not w.get("Context")
            r.instance(C, "checkstyle: writes per kind %s" % w, "ok" if okc else "violation", "%s:%d" % (oc2.file, oc2.line))
            if not okc:
                r.violation(C, "checkstyle: DiffLine roles %s" % w, "checkstyle must report Expected lines only",
                            ["%s:%d" % (oc2.file, oc2.line)])
    # ModifiedLines::from closures
    cnt_cl = [f for f in p.fns.values() if f.kind == "Closure" and f.root and "ModifiedLines as std::convert::From<" in f.root]
    found_count = found_keep = False
    for f in cnt_cl:
        try:
            paths = explore(f, pure=lambda c: False)
        except TooManyPaths:
            continue
        table = {}
        for path in paths:
            if path.end != "ret" or path.ret is None:
                continue
            rv = path.ret
            if rv[0] == "bin" and rv[1] in ("Eq", "Ne") and rv[2][0] == "discr" and rv[3][0] == "k" and not path.decisions:
                # `matches!(line, DiffLine::X(_))` compiled to a comparison of the discriminant (optimised MIR)
                for iv, nm in rv[2][2]:
                    table.setdefault(nm, set()).add("true" if (int(iv) == int(rv[3][1])) == (rv[1] == "Eq") else "false")
                continue
            kinds = [variant_name(v) for k, v in path.decisions if k.startswith("discr(")]
            for kd in kinds:
                names = list(kd[1]) if isinstance(kd, tuple) and kd[0] == "other" else [kd]
                for nm in names:
                    if nm in ("Context", "Expected", "Resulting"):
                        table.setdefault(nm, set()).add(vkey(path.ret).split("(")[0])
        if table and all(v <= {"true", "false"} for v in table.values()):
            found_count = found_count or (table.get("Resulting") == {"true"} and table.get("Expected") == {"false"}
                                          and table.get("Context") == {"false"})
            if found_count:
                r.instance(C, "ModifiedLines: removed-count filter %s" % {k: sorted(v) for k, v in table.items()}, "ok", "%s:%d" % (f.file, f.line))
        if table and any("Some" in v or "None" in v for v in table.values()):
            keep = table.get("Expected") == {"Some"} and table.get("Resulting") == {"None"} and table.get("Context") == {"None"}
            found_keep = found_keep or keep
            if keep:
                r.instance(C, "ModifiedLines: new-lines filter %s" % {k: sorted(v) for k, v in table.items()}, "ok", "%s:%d" % (f.file, f.line))
    if not (found_count and found_keep):
        r.violation(C, "ModifiedLines::from: DiffLine roles",
                    "the modified-lines report must count exactly the Resulting lines as removed (%s) and keep exactly the Expected "
                    "lines as new text (%s)" % (found_count, found_keep), ["src/rustfmt_diff.rs"])

    swapped_arguments(ctx, "R12-d")
    modified_lines_one_write_per_line(ctx, "R12-e")
    diff_sees_whole_texts(ctx, "R12-f")
    reader_reads_the_text_as_written(ctx, "R12-g")
    running_totals_advance_every_round(ctx, "R12-h")
    every_report_comes_from_the_line_diff(ctx, "R12-i")


def name_root(fn, op, depth=0):
    """debug name of the single named local an operand is computed from (through arithmetic with unnamed/other values)"""
    if op[0] == "k" or depth > 8:
        return None
    loc = op_local(op)
    if loc is None:
        # `(tmp.0)` of a checked arithmetic result
        pl = op[1]
        if len(pl[1]) == 1 and isinstance(pl[1][0], (list, tuple)) and pl[1][0][0] == "f" and pl[1][0][1] == 0 and pl[1][0][2] is None:
            loc = pl[0]
        else:
            return None
    if loc in fn.local_names:
        return fn.local_names[loc]
    d = fn.single_def(loc)
    if d is None:
        return None
    bb, kind, payload = d
    if kind == "call":
        return None
    rv = payload[2]
    ops = rvalue_operands(rv)
    if rv[0] == "bin" and len(ops) == 2:
        # for a - b / a + b the root is the left operand's name
        return name_root(fn, ops[0], depth + 1)
    if rv[0] in ("use", "cast") and ops:
        return name_root(fn, ops[0], depth + 1)
    if rv[0] == "agg" and isinstance(rv[1], str) and rv[1] == "tuple":
        return None
    return None


def swapped_arguments(ctx, rid):
    p, r = ctx.p, ctx.r
    r.rule(rid, "swapped-argument check in the diff / report modules: at a call of a workspace function, an argument computed "
                "from the local named like parameter j is not passed in position i ≠ j while position j receives the one named "
                "like parameter i (line_number vs line_number_orig at Mismatch::new and friends)")
    n = 0
    for f in p.by_crate["rustfmt_nightly"]:
        if not any(m in f.id for m in ("rustfmt_diff", "emitter::")):
            continue
        for c in f.calls():
            callee = p.fns.get(c.resolved or "")
            if callee is None or callee.argc < 2 or callee.argc != len(c.args):
                continue
            pnames = [callee.local_names.get(i + 1) for i in range(callee.argc)]
            if len([x for x in pnames if x]) < 2:
                continue
            roots = [name_root(f, a) for a in c.args]
            n += 1
            bad = None
            for i in range(len(roots)):
                for j in range(len(roots)):
                    if i < j and roots[i] and roots[j] and roots[i] == pnames[j] and roots[j] == pnames[i] and pnames[i] != pnames[j]:
                        bad = (i, j)
            r.instance(rid, c.key(), "ok" if not bad else "violation", c.loc(), "params %s ← %s" % (pnames, roots))
            if bad:
                i, j = bad
                r.violation(rid, "%s: arguments `%s` and `%s` of %s are swapped" % (short(f.id), roots[i], roots[j], short(callee.id)),
                            "%s(%s) receives the value computed from `%s` as `%s` and vice versa: line numbers of the original "
                            "and of the formatted text are exchanged in every report built on it" % (
                                short(callee.id), ", ".join(map(str, pnames)), roots[i], pnames[i]), [c.loc()])
    r.floor(rid, n, 3, "calls with ≥2 named parameters in the diff / emitter modules")


def modified_lines_one_write_per_line(ctx, rid):
    """R12-e: the textual ModifiedLines report writes one line per element of chunk.lines, so that the header's count is the
    number of text lines that follow (what FromStr and any consumer of the format rely on)"""
    from common import natural_loops
    p, r = ctx.p, ctx.r
    r.rule(rid, "<ModifiedLines as Display>::fmt: every formatter write whose data derives from ModifiedChunk.lines otherwise than "
                "through len() sits inside a loop (or for_each / try_for_each closure) that iterates those lines — one write per "
                "element; the header write derives from line_number_orig, lines_removed and lines.len() only")
    f = next((x for x in p.fns.values() if x.id.endswith("ModifiedLines as std::fmt::Display>::fmt")), None)
    if f is None:
        r.undecidable(rid, "<ModifiedLines as Display>::fmt not found")
        return
    SINK = ("Formatter::<'a>::write_fmt", "Formatter::<'a>::write_str", "Write::write_fmt", "Write::write_str", "Write::write_char",
            "Formatter::<'a>::pad")

    def is_len(c):
        return c.name.endswith("::len") or c.name.endswith("::is_empty")

    def per_line_loop_depth(fn, bb):
        """number of loops around bb whose iterator derives from field `lines`"""
        n = 0
        for h, body in natural_loops(fn):
            if bb not in body:
                continue
            for c in fn.calls():
                if c.bb in body and (c.declared == "std::iter::Iterator::next" or c.name.endswith("Iterator>::next")) and c.args and c.args[0][0] != "k":
                    d = fn.derived_from(c.args[0][1][0], stop_calls=is_len)
                    if any(x[2] == "lines" for x in d["fields"]):
                        n += 1
                        break
        return n

    n_sinks = n_line = 0
    # the body family: fmt, its closures, and the helpers of the same module it delegates to (with their closures)
    bodies, work, depth = [], [(f, 0)], {}
    while work:
        g, dpt = work.pop()
        if g in bodies:
            continue
        bodies.append(g)
        for cl in p.closures_of(g):
            if cl is not g:
                work.append((cl, dpt))
        if dpt < 3:
            for c in g.calls():
                h = p.fns.get(c.resolved or "")
                if h is not None and h.crate == "rustfmt_nightly" and "rustfmt_diff" in h.id and h.kind != "Closure":
                    work.append((h, dpt + 1))
    cs = p.callers()

    def closure_driven_by_lines(g):
        """g is a closure handed to for_each / try_for_each (…) of an iterator over the `lines` field in the body that builds it"""
        for (src, kind, c) in cs.get(g.id, []):
            parent = p.fns.get(src)
            if parent is None:
                continue
            for pc in parent.calls():
                if g.id in pc.refs and pc.name.rsplit("::", 1)[-1] in ("for_each", "try_for_each") and pc.args and pc.args[0][0] != "k":
                    d = parent.derived_from(pc.args[0][1][0], stop_calls=is_len)
                    if any(x[2] == "lines" for x in d["fields"]):
                        return True
                    for e in pc.args[0][1][1]:
                        if isinstance(e, (list, tuple)) and e[0] == "f" and e[4] == "lines":
                            return True
        return False

    for g in bodies:
        for c in g.calls():
            if not any(c.name.endswith(s_) or (c.declared or "").endswith(s_) for s_ in SINK):
                continue
            n_sinks += 1
            data = [a_ for a_ in c.args[1:] if a_[0] != "k"]
            fields, calls = set(), []
            for a_ in data:
                d = g.derived_from(a_[1][0], stop_calls=is_len)
                fields |= {x[2] for x in d["fields"]}
                calls += d["calls"]
            from_lines = "lines" in fields and any(not is_len(cc) for cc in calls if cc.args and cc.args[0][0] != "k"
                                                   and "lines" in {x[2] for x in g.derived_from(cc.args[0][1][0], stop_calls=is_len)["fields"]}
                                                   ) or ("lines" in fields and not any(is_len(cc) for cc in calls))
            if g.kind == "Closure":
                driven = closure_driven_by_lines(g)
                depth_ = 1 if driven else per_line_loop_depth(g, c.bb)
                from_lines = True if driven else from_lines
            else:
                depth_ = per_line_loop_depth(g, c.bb)
            if from_lines:
                n_line += 1
                ok = depth_ >= 1
                r.instance(rid, "line text written %s" % ("once per element" if ok else "outside a per-line loop"),
                           "ok" if ok else "violation", c.loc())
                if not ok:
                    r.violation(rid, "ModifiedLines::fmt writes the text of chunk.lines outside a per-line loop",
                                "a write of data derived from ModifiedChunk.lines (through %s) is not inside a loop over those lines: "
                                "the number of text lines after a header no longer equals the count the header announces (an empty "
                                "chunk prints a stray empty line; FromStr rejects the report)"
                                % sorted({short(cc.name).rsplit("::", 1)[-1] for cc in calls if not is_len(cc)})[:4], [c.loc()])
    r.floor(rid, n_sinks, 2, "formatter writes in ModifiedLines::fmt")
    r.floor(rid, n_line, 1, "writes of line text in ModifiedLines::fmt")


def diff_sees_whole_texts(ctx, rid):
    """R12-f: the line numbers of a report are positions in the texts that were compared"""
    from common import expr_key
    p, r = ctx.p, ctx.r
    r.rule(rid, "rustfmt_diff::make_diff hands its own two parameters to diff::lines — not a slice, a suffix or a transformed copy: "
                "the Mismatch line numbers are counted from the first item diff::lines yields and are reported as absolute line "
                "numbers, and diff::lines decides the final-newline item from the last byte of exactly the texts it is given")
    f = p.named("make_diff", within="rustfmt_diff")
    if f is None:
        r.undecidable(rid, "rustfmt_diff::make_diff not found")
        return
    n = 0
    for c in f.calls():
        if c.name != "diff::lines" and not c.name.endswith("diff::lines"):
            continue
        n += 1
        keys = [expr_key(f, a) for a in c.args]
        ok = keys == ["arg1", "arg2"]
        r.instance(rid, "make_diff: diff::lines(%s)" % ", ".join(short(k)[:30] for k in keys), "ok" if ok else "violation", c.loc())
        if not ok:
            r.violation(rid, "make_diff does not diff the texts it was given",
                        "diff::lines receives %s instead of make_diff's own (expected, actual): line numbers and the end-of-file "
                        "newline item no longer describe the two files" % [short(k)[:60] for k in keys], [c.loc()])
    r.floor(rid, n, 1, "diff::lines calls in make_diff")


def reader_reads_the_text_as_written(ctx, rid):
    """R12-g: the reader of the modified-lines format splits exactly the text the writer produced"""
    from common import expr_key
    p, r = ctx.p, ctx.r
    r.rule(rid, "<ModifiedLines as FromStr>::from_str iterates `str::lines` of its own parameter — not a trimmed, stripped or "
                "otherwise transformed copy: the writer emits every added line followed by a newline, added lines may be empty or "
                "blank, and the header announces how many follow; a reader that drops blank text at either end no longer finds the "
                "announced number of lines (`2 0 1\\n\\n` for a missing final newline)")
    f = None
    for g in p.by_crate["rustfmt_nightly"]:
        if "ModifiedLines" in g.id and g.id.endswith("::from_str") and "FromStr" in g.id:
            f = g
    if f is None:
        r.undecidable(rid, "<ModifiedLines as FromStr>::from_str not found")
        return
    n = 0
    for c in f.calls():
        if "str" not in c.name or c.name.rsplit("::", 1)[-1] not in ("lines", "split", "split_terminator", "split_inclusive"):
            continue
        key = expr_key(f, c.args[0])
        d = f.derived_from(c.args[0][1][0]) if c.args[0][0] != "k" else {"args": set(), "calls": []}
        if 1 not in d["args"] or any(x.name.rsplit("::", 1)[-1] in ("lines", "next") for x in d["calls"]):
            continue            # splitting something else (one line of the text, a header)
        n += 1
        ok = key == "arg1"
        r.instance(rid, "from_str splits %s into lines" % short(key)[:40], "ok" if ok else "violation", c.loc())
        if not ok:
            r.violation(rid, "ModifiedLines::from_str does not read the text as written",
                        "the lines are taken from %s, not from the parameter itself: blank added lines at the ends of the report are "
                        "lost and the chunk headers no longer match" % short(key)[:80], [c.loc()])
    r.floor(rid, n, 1, "line splits of the parameter in ModifiedLines::from_str")


def running_totals_advance_every_round(ctx, rid):
    """R12-h: the original text the reports compare against is rebuilt with a running total that never goes stale"""
    from common import natural_loops
    p, r = ctx.p, ctx.r
    r.rule(rid, "ParseSess::get_original_snippet rebuilds the text as it was read (every `\\r` rustc dropped is put back) by "
                "walking SourceFile::normalized_pos, whose `diff` field is *cumulative*; the function keeps the previous value in a "
                "local and looks at the increase.  That local is assigned from the element's `diff` on every path round the loop — "
                "also on the path that skips an entry (the byte order mark): otherwise every later increase is measured from a stale "
                "total, no `\\r` is restored, and `--check` reports a BOM + CRLF file that is already formatted (or the line "
                "numbers of a report shift)")
    f = p.named("get_original_snippet", within="parse::session::ParseSess")
    if f is None:
        r.undecidable(rid, "ParseSess::get_original_snippet not found")
        return
    n = 0
    for h, body in natural_loops(f):
        defs = f.defs()
        for l, ds in defs.items():
            inside = [d for d in ds if d[0] in body and d[1] == "assign"]
            outside = [d for d in ds if d[0] not in body]
            if not inside or not outside or l == 0:
                continue
            tracks = False
            for d in inside:
                rv = d[2][2]
                srcs = [op for op in ([rv[1]] if rv[0] == "use" else []) if op[0] != "k"]
                for op in srcs:
                    fl = [e for e in op[1][1] if isinstance(e, list) and e[0] == "f"]
                    dd = f.derived_from(op[1][0]) if not fl else {"fields": []}
                    if any(str(e[4]) == "diff" for e in fl) or any(str(x[2]) == "diff" for x in dd["fields"]):
                        tracks = True
            if not tracks:
                continue
            n += 1
            def_blocks = {d[0] for d in inside}
            back = [b for b in body if h in f.succ(b)]
            reach = set()
            for s0 in f.succ(h):
                if s0 in body:
                    reach |= f.reachable(s0, avoid_blocks=def_blocks, stop_blocks=[h])
            stale = [b for b in back if b in reach and b not in def_blocks]
            name = f.local_names.get(l, "a local")
            r.instance(rid, "get_original_snippet: `%s` follows normalized_pos.diff" % name, "violation" if stale else "ok",
                       "%s:%d" % (f.file, f.line), "%d assignments in the loop" % len(inside))
            if stale:
                r.violation(rid, "get_original_snippet: the running total `%s` is not advanced on every path round the loop" % name,
                            "there is a way back to the loop head that does not assign it from the element's cumulative `diff`: "
                            "after a skipped entry every later increase is computed against a stale total", ["%s:%d" % (f.file, f.line)])
    r.floor(rid, n, 1, "running totals over normalized_pos.diff in get_original_snippet")


def every_report_comes_from_the_line_diff(ctx, rid):
    """R12-i: make_diff has one source of Mismatches — the items diff::lines yields"""
    p, r = ctx.p, ctx.r
    r.rule(rid, "rustfmt_diff::make_diff: a path that reaches a return without calling diff::lines returns no report built on that "
                "path — on such a path the returned vector derives from no call that yields a Mismatch (a Vec / Option / tuple of "
                "them) other than an empty constructor. diff::lines is the only place that compares the *ends* of the two texts "
                "(its last item says whether each ends in a newline); a short cut that builds the report some other way — a "
                "block replace for large inputs — describes a text without that record, and the json / checkstyle / "
                "modified-lines reports then imply a file that differs from the formatted text in its last byte")
    f = p.named("make_diff", within="rustfmt_diff")
    if f is None:
        r.undecidable(rid, "rustfmt_diff::make_diff not found")
        return
    dl = [c for c in f.calls() if c.name.endswith("diff::lines")]
    if not dl:
        r.undecidable(rid, "make_diff does not call diff::lines")
        return
    stop = [c.bb for c in dl]
    fwd = set(f.reachable(0, stop_blocks=stop)) - set(stop)
    rets = [b for b in f.returns() if b in fwd]
    back = set()
    for b in fwd:
        if any(x in f.reachable(b, stop_blocks=stop) for x in rets):
            back.add(b)
    n = len(dl)
    EMPTY = ("Vec::<T>::new", "Vec::<T>::with_capacity", "Default>::default", "VecDeque::<T>::new", "VecDeque::<T>::with_capacity")
    bad = []
    if rets:
        d = f.derived_from(0)
        for c in d["calls"]:
            if c.bb in back and c.dest and "Mismatch" in f.locals[c.dest[0]] and not any(c.name.endswith(e) for e in EMPTY):
                bad.append(c)
    r.instance(rid, "make_diff: returns that bypass diff::lines", "violation" if bad else "ok", "%s:%d" % (f.file, f.line),
               "%d return(s) reachable without the call; reports built on those paths: %s" % (len(rets), [short(c.name) for c in bad]))
    if bad:
        r.violation(rid, "make_diff returns a report that does not come from diff::lines",
                    "a return is reachable without calling diff::lines and its value derives from %s: the end-of-text newline "
                    "record only diff::lines produces is missing from that report" % sorted({short(c.name) for c in bad}),
                    [c.loc() for c in bad])
    r.floor(rid, n, 1, "diff::lines calls in make_diff")
