"""C08 — whitespace and newline discipline (partial: pipeline order and newline-style table).

R08-a format_file pipeline order on one buffer · R08-b newline-style mapping table; Auto detection operand
"""
from absint import explore, vkey, variant_name, TooManyPaths
from common import short, bool_branches, Call

import re


def referent_place(k):
    """the place behind a value that was renamed by the havoc of a `&mut` argument: `mut:_8.buffer@callee#0` and
    `mut:_8@callee#0.buffer` both denote the place `_8.buffer` (the MIR optimisation level decides which form appears)"""
    m = re.match(r"^mut:([^@]+)@.*?#\d+((?:\.[A-Za-z_0-9]+)*)$", k)
    return (m.group(1) + m.group(2)) if m else k


PIPE = ["format_separate_mod", "append_newline", "format_lines", "apply_newline_style", "handle_formatted_file"]


def run(ctx):
    p, r = ctx.p, ctx.r
    A = r.rule("R08-a", "typestate over FormatContext::format_file: format_separate_mod → append_newline → format_lines → "
                        "apply_newline_style → handle_formatted_file, each exactly once on every path, the three middle stages "
                        "on the visitor's buffer and the emitted text a copy of that buffer")
    f = p.named("format_file", within="FormatContext")
    if f is None:
        r.undecidable(A, "FormatContext::format_file not found")
    else:
        def stage(c):
            last = c.name.rsplit("::", 1)[-1]
            if last in PIPE:
                return True
            return c.declared is not None and c.declared.endswith("FormatHandler::handle_formatted_file")
        try:
            paths = explore(f, is_effect=stage, pure=lambda c: c.name.endswith("to_owned") or c.name.endswith("newline_style")
                            or c.name.endswith("entire_snippet") or c.name.endswith("Clone>::clone") or c.name.endswith("::to_string"),
                            max_paths=20000)
        except TooManyPaths as e:
            r.undecidable(A, str(e))
            paths = []
        r.paths(A, len(paths))
        n = 0
        seqs = set()
        for path in paths:
            if path.end != "ret":
                continue
            seq = [e.name.rsplit("::", 1)[-1] for e in path.effects if e.kind == "call"]
            seqs.add(tuple(seq))
            n += 1
            ok = seq == PIPE
            if not ok:
                r.violation(A, "format_file: pipeline is %s" % ">".join(seq),
                            "the post-processing stages run as %s instead of %s (the suite compares fixtures modulo line "
                            "terminators, so a missing or misplaced stage passes every test)" % (seq, PIPE),
                            ["%s:%d" % (f.file, f.line)])
                continue
            # buffer identity
            effs = [e for e in path.effects if e.kind == "call"]
            bufs = []
            for e in effs[1:4]:
                arg = e.args[0] if e.name.rsplit("::", 1)[-1] != "apply_newline_style" else e.args[1]
                bufs.append(referent_place(vkey(arg)))
            same = len(set(bufs)) == 1 and bufs[0].endswith(".buffer")
            last = vkey(effs[4].args[3]) if len(effs[4].args) > 3 else ""
            m = re.search(r"(?:to_owned|clone|to_string)\((.*)\)$", last)
            emitted_ok = bool(m) and referent_place(m.group(1)) == bufs[0]
            if not same or not emitted_ok:
                r.violation(A, "format_file: stages do not share the visitor's buffer",
                            "append_newline / format_lines / apply_newline_style operate on %s and the emitted text is %s" % (
                                bufs, last[-60:]), ["%s:%d" % (f.file, f.line)])
        r.instance(A, "format_file pipeline", "ok" if seqs == {tuple(PIPE)} else "violation", "%s:%d" % (f.file, f.line),
                   "%d paths, sequences %s" % (n, [">".join(s) for s in seqs]))
        r.floor(A, n, 1, "returning paths of format_file")

    B = r.rule("R08-b", "effective_newline_style: Auto ↦ auto-detect on the input operand, Native ↦ native, Windows ↦ Windows, "
                        "Unix ↦ Unix; apply_newline_style assigns the result of exactly the matching converter; the operand of "
                        "the Auto detection must be the input as it was read, not newline-normalised text")
    en = p.named("effective_newline_style", within="newline_style")
    if en is None:
        r.undecidable(B, "effective_newline_style not found")
    else:
        paths = explore(en, pure=lambda c: True)
        r.paths(B, len(paths))
        seen = set()
        for path in paths:
            if path.end != "ret":
                continue
            st = [variant_name(v) for k, v in path.decisions if k == "discr(arg1)"]
            ret = vkey(path.ret)
            spec = {"Auto": "formatting::newline_style::auto_detect_newline_style(arg2)",
                    "Native": "formatting::newline_style::native_newline_style()", "Windows": "Windows", "Unix": "Unix"}
            key = st[0] if st else None
            ok = key in spec and ret == spec[key]
            seen.add(key)
            r.cells(B, 1)
            r.instance(B, "effective_newline_style[%s]" % key, "ok" if ok else "violation", "%s:%d" % (en.file, en.line), short(ret))
            if not ok:
                r.violation(B, "effective_newline_style[%s] = %s" % (key, short(ret)),
                            "newline_style=%s resolves to %s" % (key, short(ret)), ["%s:%d" % (en.file, en.line)])
        if seen != {"Auto", "Native", "Windows", "Unix"}:
            r.undecidable(B, "effective_newline_style: arms seen %s" % sorted(map(str, seen)))
    ap = p.named("apply_newline_style", within="newline_style")
    if ap is not None:
        paths = explore(ap, pure=lambda c: True)
        r.paths(B, len(paths))
        for path in paths:
            if path.end != "ret":
                continue
            st = [variant_name(v) for k, v in path.decisions if k.startswith("discr(") and "effective_newline_style(" in k]
            if not st:
                # `style == EffectiveNewlineStyle::X` (the derived, field-less PartialEq): true selects X, false the other
                # variant of the two-variant enum
                adt = next((a for k_, a in p.adts.items() if k_.endswith("newline_style::EffectiveNewlineStyle")), None)
                names = [v_["name"] for v_ in adt["variants"]] if adt else []
                for k, v in path.decisions:
                    m = re.match(r"^<[^>]*EffectiveNewlineStyle as std::cmp::PartialEq>::(eq|ne)\((.*)\)$", k)
                    if not m or not isinstance(v, bool) or len(names) != 2:
                        continue
                    a, b = m.group(2).rsplit(",", 1) if m.group(2).rsplit(",", 1)[-1] in names else m.group(2).split(",", 1)[::-1]
                    if b in names and "effective_newline_style(" in a:
                        same = v == (m.group(1) == "eq")
                        st = [b if same else [x for x in names if x != b][0]]
            stores = [e for e in path.effects if e.kind == "store" and e.name == "arg2"]
            val = vkey(stores[-1].args[0]) if stores else ""
            want = {"Windows": "convert_to_windows_newlines(arg2)", "Unix": "convert_to_unix_newlines(arg2)"}
            key = st[0] if st else None
            ok = key in want and val.endswith(want[key]) and "effective_newline_style(arg1,arg3)" in "".join(
                k for k, v in path.decisions)
            r.cells(B, 1)
            r.instance(B, "apply_newline_style[%s]" % key, "ok" if ok else "violation", "%s:%d" % (ap.file, ap.line), short(val)[-60:])
            if not ok:
                r.violation(B, "apply_newline_style[%s] assigns %s" % (key, short(val)[-50:]),
                            "the text is not replaced by the converter matching the effective style", ["%s:%d" % (ap.file, ap.line)])
    original_text_source(ctx, "R08-c")
    blank_line_clamp(ctx, "R08-d")
    normalisation_table_searched_whole(ctx, "R08-e")
    newline_runs_have_one_producer(ctx, "R08-f")
    nested_snippets_are_formatted_in_unix_style(ctx, "R08-g")
    buffer_has_only_pipeline_writers(ctx, "R08-h")
    # operand of the Auto detection at the only call site
    if f is not None:
        for c in f.calls():
            if c.name.endswith("newline_style::apply_newline_style") and len(c.args) > 2 and c.args[2][0] != "k":
                d = f.derived_from(c.args[2][1][0])
                from_map = [cc for cc in d["calls"] if cc.name.endswith("SnippetProvider::entire_snippet")
                            or cc.name.endswith("snippet_provider")]
                # the normalised text may stand in when the choice is governed by what the source map recorded about the
                # raw input (SourceFile.normalized_pos: where a `\r` was dropped): the operand is then switched on a query
                # of that record
                from common import reads_field_transitively
                raw_query = []
                for cc in f.calls():
                    h = p.fns.get(cc.resolved or "")
                    if h is not None and h.crate == f.crate and reads_field_transitively(p, h, "SourceFile", "normalized_pos", depth=1):
                        raw_query.append(cc)
                governed = False
                for q in raw_query:
                    if not q.dest[1]:
                        for (sw, t_true, t_false) in bool_branches(f, q.dest[0]):
                            if c.bb in f.reachable(t_true) and c.bb in f.reachable(t_false):
                                governed = True
                if from_map and not governed:
                    # the choice may be made in a helper that returns the operand: it consults the record itself
                    for hc in d["calls"]:
                        h = p.fns.get(hc.resolved or hc.name)
                        if h is not None and h.crate == f.crate and h.id != f.id and \
                                reads_field_transitively(p, h, "SourceFile", "normalized_pos", depth=2):
                            for q in h.calls():
                                hq = p.fns.get(q.resolved or "")
                                if hq is not None and not q.dest[1] and reads_field_transitively(p, hq, "SourceFile", "normalized_pos", depth=1):
                                    for (sw, t_true, t_false) in bool_branches(h, q.dest[0]):
                                        if set(h.returns()) & set(h.reachable(t_true)) and set(h.returns()) & set(h.reachable(t_false)):
                                            governed = True
                ok = not from_map or governed
                key = "apply_newline_style: Auto detection reads source-map text"
                r.instance(B, key, "ok" if ok else "violation", c.loc(), "operand derives from %s" % [short(x.name) for x in d["calls"]][:4])
                if not ok:
                    r.violation(B, key,
                                "the text handed to the Auto detection comes from rustc's SourceMap (SnippetProvider::entire_snippet), "
                                "which normalises CRLF to LF when a file is loaded: a CRLF file is detected as Unix, `--emit stdout` "
                                "and stdin print LF text while files mode keeps the CRLF file", [c.loc()])


def original_text_source(ctx, rid):
    """R08-c / R06-g: the text the emitters compare with comes from the file system whenever newline_style ≠ Auto"""
    from common import short as _short
    p, r = ctx.p, ctx.r
    r.rule(rid, "source_file::write_file: whenever newline_style ≠ Auto and the input is a file, original_text is read from "
                "the file system before the emitter runs (the SourceMap copy has CRLF normalised, so a terminator-only "
                "difference would otherwise be invisible to --check / files mode)")
    f = p.fn("rustfmt_nightly::source_file::write_file")
    if f is None:
        r.undecidable(rid, "write_file not found")
        return
    try:
        paths = explore(f, pure=lambda c: c.declared in ("std::cmp::PartialEq::ne", "std::cmp::PartialEq::eq")
                        or c.name.endswith("ensure_real_path"),
                        is_effect=lambda c: c.name.endswith("fs::read_to_string") or c.name.endswith("and_then")
                        or c.name.endswith("emit_formatted_file"), program=p, inline="auto")
    except TooManyPaths as e:
        r.undecidable(rid, str(e))
        return
    r.paths(rid, len(paths))
    n = 0
    for path in paths:
        if path.end != "ret":
            continue
        effs = [e.name.rsplit("::", 1)[-1] for e in path.effects if e.kind == "call"]
        if "emit_formatted_file" not in effs:
            continue
        n += 1
        not_auto = not_stdin = None
        other = []
        for k, v in path.decisions:
            if k.endswith("::ne(arg6,Auto)") and isinstance(v, bool):
                not_auto = v
            elif k.endswith("::eq(arg6,Auto)") and isinstance(v, bool):
                not_auto = not v
            elif k.endswith("::ne(arg2,Stdin)") and isinstance(v, bool):
                not_stdin = v
            elif k.endswith("::eq(arg2,Stdin)") and isinstance(v, bool):
                not_stdin = not v
            elif k.startswith("discr(arg6") or "arg6" in k:
                other.append((k, variant_name(v)))
        first = effs[0]
        if other:
            r.instance(rid, "write_file path with %s" % other, "violation", "%s:%d" % (f.file, f.line))
            r.violation(rid, "write_file: original text chosen by %s" % [o[0] for o in other][0][-40:],
                        "the source of original_text depends on %s instead of `newline_style != Auto`: for some explicit "
                        "newline style the normalised SourceMap text is compared, hiding terminator-only differences" % other,
                        ["%s:%d" % (f.file, f.line)])
            continue
        must_read = (not_auto is True and not_stdin is True)
        ok = (first == "read_to_string") if must_read else True
        r.cells(rid, 1)
        r.instance(rid, "write_file[newline_style≠Auto=%s, file=%s]" % (not_auto, not_stdin), "ok" if ok else "violation",
                   "%s:%d" % (f.file, f.line), ">".join(effs))
        if not ok:
            r.violation(rid, "write_file[≠Auto, file]: original text not read from disk",
                        "with an explicit newline_style the emitters compare against %s" % effs[0], ["%s:%d" % (f.file, f.line)])
        if not_auto is None:
            r.violation(rid, "write_file: newline_style is not consulted for the choice of original text", str(effs),
                        ["%s:%d" % (f.file, f.line)])
    r.floor(rid, n, 3, "emitting paths of write_file")


def blank_line_clamp(ctx, rid):
    """R08-d: push_vertical_spaces never lets a run of newlines exceed blank_lines_upper_bound + 1 (relational numeric domain)"""
    import linarith as la
    p, r = ctx.p, ctx.r
    r.rule(rid, "FmtVisitor::push_vertical_spaces: with o = newlines already at the end of the buffer, U = blank_lines_upper_bound, "
                "L = blank_lines_lower_bound (L ≤ U assumed, all ≥ 0), on every path the count n' handed to \"\\n\".repeat satisfies "
                "n' + o ≤ U + 1 or n' = 0 — decided per path by linear arithmetic over the branch conditions (Fourier–Motzkin "
                "refutation of the negation); and the only text pushed is that repetition")
    f = p.named("push_vertical_spaces", within="FmtVisitor")
    if f is None:
        r.undecidable(rid, "FmtVisitor::push_vertical_spaces not found")
        return
    PURE = ("blank_lines", "saturating_sub", "saturating_add", "::min", "::max", "::clamp", "::chars", "::rev", "take_while", "::count", "trailing", "newline")
    try:
        paths = explore(f, is_effect=lambda c: c.name.endswith("push_str") or c.name.endswith("::repeat") or c.name.endswith("::push"),
                        pure=lambda c: any(x in c.name for x in PURE) and not (
                            c.name in p.fns and p.fns[c.name].crate == "rustfmt_nightly" and p.fns[c.name].argc >= 2
                            and "::config::" not in c.name),     # a helper that computes the count from several numbers is looked into
                        max_paths=20000, program=p, inline="auto")
    except TooManyPaths as e:
        r.undecidable(rid, str(e))
        return
    r.paths(rid, len(paths))
    n_paths = 0
    for path in paths:
        if path.end != "ret":
            continue
        n_paths += 1
        reps = [e for e in path.effects if e.kind == "call" and e.name.endswith("::repeat")]
        pushes = [e for e in path.effects if e.kind == "call" and not e.name.endswith("::repeat")]
        if len(reps) != 1 or len(pushes) != 1 or "repeat" not in vkey(pushes[0].args[-1]) or vkey(reps[0].args[0]) not in ('*"\n"', '"\n"'):
            r.violation(rid, "push_vertical_spaces: pushes something other than one \"\\n\".repeat(n)",
                        "effects on a path: %s" % [(short(e.name), [vkey(a)[:30] for a in e.args]) for e in path.effects][:4],
                        ["%s:%d" % (f.file, f.line)])
            continue
        try:
            res_alts = la.lin(reps[0].args[1])
            cons = []
            for k, v in path.decisions:
                alts = la.decision_constraints(k, v)
                if alts is not None:
                    cons.append(alts)
            forms = [fm for c, fm in res_alts] + [x for a in cons for alt in a for x in alt] + [x for c, fm in res_alts for x in c]
            atoms = la.atoms_of(forms)
            # `bound.saturating_add(1)` is an atom of its own, tied to the getter's atom by linarith's constraints (s ≤ bound + 1)
            sat = [a for a in atoms if "saturating_add(" in a and ("blank_lines_upper_bound" in a or "blank_lines_lower_bound" in a)]
            up = [a for a in atoms if "blank_lines_upper_bound" in a and a not in sat]
            lo = [a for a in atoms if "blank_lines_lower_bound" in a and a not in sat]
            off = [a for a in atoms if ".buffer" in a]
            # the count of newlines already in the buffer, computed by a private helper of the visitor (`self.trailing_newline_count()`)
            for a in sorted(atoms):
                if a in off or not a.endswith("(arg1)"):
                    continue
                hs = [h for h in p.by_crate["rustfmt_nightly"] if h.kind != "Closure" and h.argc == 1 and a[:-len("(arg1)")].endswith(short(h.id))]
                if len(hs) == 1 and "usize" in hs[0].locals[0] and any(str(fld) == "buffer" for (adt, var, fld, mode, bb, line) in hs[0].field_accesses()):
                    off.append(a)
            opaque = sorted(a for a in atoms if a not in up + lo + off + sat and a != "arg2")
            if opaque:
                # an operation the numeric domain does not model took part in the count: no verdict either way
                r.undecidable(rid, "push_vertical_spaces: the count depends on %s, which the numeric domain does not model" % opaque[:3])
                return
            if len(up) > 1 or len(lo) > 1 or len(off) > 1:
                r.undecidable(rid, "push_vertical_spaces: ambiguous atoms upper=%s lower=%s offset=%s" % (up, lo, off))
                return
            U = la.var(up[0]) if up else la.var("config.blank_lines_upper_bound")
            o = la.var(off[0]) if off else la.const(0)
            assume = []
            if lo:
                assume.append([[la._add(la.var(lo[0]), U, -1)]])            # L - U ≤ 0
            bad = None
            for c_res, R in res_alts:
                # ¬goal:  U + 2 - R - o ≤ 0  ∧  1 - R ≤ 0
                neg = [la._add(la._add(la._add(U, la.const(2)), R, -1), o, -1), la._add(la.const(1), R, -1)]
                ok, wit = la.entails(cons + assume + [[c_res]], [neg], nonneg=sorted(atoms | la.atoms_of([U, o])))
                if not ok:
                    bad = (R, wit)
                    break
        except la.NonLinear as e:
            r.undecidable(rid, "push_vertical_spaces: %s" % e)
            return
        key = "push_vertical_spaces[%s]" % ",".join("%s" % ("T" if v is True else "F" if v is False else variant_name(v)) for k, v in path.decisions)
        r.instance(rid, key, "ok" if bad is None else "violation", "%s:%d" % (f.file, f.line), short(vkey(reps[0].args[1]))[:80])
        if bad is not None:
            r.violation(rid, "push_vertical_spaces: newline run can exceed blank_lines_upper_bound",
                        "on the path with branch outcomes %s the count handed to \"\\n\".repeat is %s; together with the newlines already "
                        "at the end of the buffer it is not bounded by blank_lines_upper_bound + 1 (satisfiable: %s)"
                        % ([(short(k)[-50:], v) for k, v in path.decisions], short(vkey(reps[0].args[1]))[:90],
                           "; ".join(la.show(x) for x in bad[1][-6:])),
                        ["%s:%d" % (f.file, f.line)])
    r.floor(rid, n_paths, 1, "returning paths of push_vertical_spaces")


def normalisation_table_searched_whole(ctx, rid):
    """R08-e: what the source map recorded about dropped bytes is looked up in the whole table"""
    p, r = ctx.p, ctx.r
    r.rule(rid, "`SourceFile::normalized_pos` records every place where rustc dropped bytes when loading the file — a byte order "
                "mark as well as the `\\r` of each CRLF — in position order.  Every function that consults it (the CRLF detection "
                "behind newline_style = Auto, the reconstruction of the original text) walks or searches the table; none reduces "
                "it to one element (`first`, `last`, `get`, indexing): the entry of the first line ending is not the first entry "
                "when the file starts with a BOM")
    SINGLE = ("first", "last", "get", "index", "split_first", "split_last", "first_mut", "last_mut", "get_unchecked", "nth")
    n = 0
    units = {}
    for f in p.by_crate["rustfmt_nightly"]:
        units.setdefault(f.id.split("::{closure")[0], []).append(f)
    for root, fs in sorted(units.items()):
        for f in fs:
            hits = []
            for c in f.calls():
                for a in c.args[:1]:
                    if a[0] == "k":
                        continue
                    d = f.derived_from(a[1][0])
                    direct = [e for e in a[1][1] if isinstance(e, list) and e[0] == "f"]
                    if any(str(x[2]) == "normalized_pos" for x in d["fields"]) or any(str(e[4]) == "normalized_pos" for e in direct):
                        hits.append(c)
            if not hits:
                continue
            n += 1
            bad = [c for c in hits if c.name.rsplit("::", 1)[-1] in SINGLE and ("slice" in c.name or "Vec" in c.name or "[T]" in c.name
                                                                              or "Iterator" in c.name)]
            r.instance(rid, "%s consults normalized_pos" % short(root), "violation" if bad else "ok", "%s:%d" % (f.file, f.line),
                       ", ".join(sorted({short(c.name).rsplit("::", 1)[-1] for c in hits}))[:100])
            for c in bad:
                r.violation(rid, "%s looks at a single entry of normalized_pos" % short(root),
                            "`%s` picks one element of the table; a byte order mark (or any earlier normalisation) shifts the entry "
                            "that is meant: a BOM + CRLF file is taken for an LF file" % short(c.name).rsplit("::", 1)[-1], [c.loc()])
    r.floor(rid, n, 2, "functions consulting SourceFile::normalized_pos")


def newline_runs_have_one_producer(ctx, rid):
    """R08-f: the only place that emits a computed number of line breaks is the one whose count R08-d bounds"""
    from common import expr_key
    p, r = ctx.p, ctx.r
    r.rule(rid, "who-may-produce: `str::repeat` on a line-break literal (\"\\n\", \"\\r\\n\") occurs only in "
                "FmtVisitor::push_vertical_spaces, whose count is proven bounded by blank_lines_upper_bound (R08-d) and which the "
                "statement's blank-line clause is about.  Everywhere else line breaks are written one at a time as part of a fixed "
                "separator: inside lists and between comment groups at most one blank line is put back, whatever the bound")
    n = 0
    sites = []
    for f in p.by_crate["rustfmt_nightly"]:
        for c in f.calls():
            if not (c.name.endswith("::repeat") and "str" in c.name) or not c.args:
                continue
            n += 1
            k = expr_key(f, c.args[0])
            if "'\\n'" in k or "\\r\\n" in k or k in ("k:{'str': '\\n'}",):
                sites.append((f, c))
    owners = sorted({short(f.id).split("::{closure")[0] for f, c in sites})
    for f, c in sites:
        ok = short(f.id).split("::{closure")[0].endswith("FmtVisitor<'a>>::push_vertical_spaces")
        r.instance(rid, "%s repeats a line break" % short(f.id).split("::{closure")[0], "ok" if ok else "violation", c.loc())
        if not ok:
            r.violation(rid, "%s emits a computed number of line breaks" % short(f.id).split("::{closure")[0],
                        "`\"\\n\".repeat(n)` outside push_vertical_spaces: nothing bounds n by what the statement allows at that "
                        "position (one blank line inside lists and comment runs)", [c.loc()])
    r.floor(rid, n, 3, "str::repeat calls")
    r.floor(rid, len(sites), 1, "line-break repetitions (push_vertical_spaces)")


def nested_snippets_are_formatted_in_unix_style(ctx, rid):
    """R08-g: the wrapped snippet of format_code_block is formatted with newline_style = Unix, whatever it is for"""
    from common import blocks_dominate
    p, r = ctx.p, ctx.r
    r.rule(rid, "format_code_block wraps a snippet in `fn main() {\\n` … `\\n}`, formats it in a nested session and cuts the wrapper "
                "off again by the *byte length* of that prefix; the conversion to the configured line terminator happens once, "
                "for the whole file, afterwards (apply_newline_style in format_file). So every call of format_snippet in "
                "format_code_block receives a Config on which `newline_style(NewlineStyle::Unix)` was set on every path — "
                "the setter call dominates the format_snippet call and both act on the same local copy. With the caller's "
                "Windows style the nested text starts `fn main() {\\r\\n`, the cut lands between `\\r` and `\\n`, and the Windows "
                "output is no longer the Unix output with the terminators exchanged (a blank line appears after `=> {`)")
    f = p.fns.get("rustfmt_nightly::format_code_block")
    if f is None:
        r.undecidable(rid, "format_code_block not found")
        return
    fs = [c for c in f.calls() if c.name.endswith("::format_snippet")]
    def unix_setters(g):
        out = []
        for c in g.calls():
            if not (c.name.endswith("::newline_style") and "ConfigSetter" in c.name and len(c.args) == 2):
                continue
            a = c.args[1]
            v = None
            if a[0] != "k":
                for bb, kind, st in g.defs().get(a[1][0], []):
                    if kind == "assign" and not isinstance(st, Call) and st[2][0] == "agg" and st[2][1][0] == "adt":
                        v = st[2][1][2]
            if v == "Unix":
                out.append(c)
        return out
    unix = unix_setters(f)
    for c in fs:
        cfg = c.args[1] if len(c.args) > 1 else None
        roots = f.derived_from(cfg[1][0])["locals"] if cfg and cfg[0] != "k" else set()
        owned = {l for l in roots if f.locals[l].endswith("config::Config") and not f.locals[l].startswith("&")}
        ok = False
        for s_ in unix:
            sroots = f.derived_from(s_.args[0][1][0])["locals"]
            if owned & sroots and blocks_dominate(f, [s_.bb], c.bb):
                ok = True
        # the copy may be made by a helper that returns it: the helper sets Unix before every return
        for l in owned:
            for bb, kind, st in f.defs().get(l, []):
                h = p.fns.get(st.name) if isinstance(st, Call) else None
                if h is not None and h.crate == "rustfmt_nightly":
                    us = unix_setters(h)
                    if us and all(blocks_dominate(h, [u.bb for u in us], rb) for rb in h.returns()) and blocks_dominate(f, [bb], c.bb):
                        ok = True
        r.instance(rid, "format_code_block: Config handed to format_snippet", "ok" if ok else "violation", c.loc(),
                   "own copy with newline_style(Unix) set on every path: %s" % ok)
        if not ok:
            r.violation(rid, "format_code_block formats the wrapped snippet without forcing newline_style = Unix",
                        "the Config handed to format_snippet is %s: with newline_style = Windows the wrapper is cut off in the "
                        "middle of a CRLF" % ("a copy on which newline_style(Unix) is not set on every path" if owned else
                                              "not a local copy with newline_style(Unix) set (the caller's configuration)"),
                        [c.loc()])
    r.floor(rid, len(fs), 1, "format_snippet calls in format_code_block")


def buffer_has_only_pipeline_writers(ctx, rid):
    """R08-h / R20-f: between the visitor and the emitter the text is touched by the three pipeline stages only"""
    p, r = ctx.p, ctx.r
    r.rule(rid, "FormatContext::format_file: once the visitor has produced the text, `visitor.buffer` is modified only by the "
                "three stages of the pipeline — source_file::append_newline, formatting::format_lines, "
                "newline_style::apply_newline_style. No other call receives a `&mut` that derives from the buffer. What the "
                "emitters compare the buffer with (`original_text`) is recovered from the source map by its own route (no byte "
                "order mark, line endings restored); a late edit of the buffer alone — putting a BOM back — makes every such "
                "file differ from its original: `--backup` writes a `.bk` for a file it does not change, files mode rewrites it")
    f = p.named("format_file", within="FormatContext")
    if f is None:
        r.undecidable(rid, "FormatContext::format_file not found")
        return
    STAGES = ("source_file::append_newline", "formatting::format_lines", "newline_style::apply_newline_style")
    n = 0
    for c in f.calls():
        for a in c.args:
            if a[0] == "k" or not f.locals[a[1][0]].startswith("&mut"):
                continue
            d = f.derived_from(a[1][0])
            own = [e for e in a[1][1] if isinstance(e, list) and e[0] == "f" and e[4] == "buffer"]
            if not own and not any(x[2] == "buffer" and x[0] and x[0].endswith("FmtVisitor") for x in d["fields"]):
                continue
            n += 1
            ok = any(c.name.endswith(sg) for sg in STAGES)
            r.instance(rid, "format_file: %s(&mut visitor.buffer)" % short(c.name), "ok" if ok else "violation", c.loc())
            if not ok:
                r.violation(rid, "format_file: %s modifies the formatted text outside the pipeline" % short(c.name),
                            "`visitor.buffer` is handed mutably to %s: the emitted text is no longer what the three stages "
                            "produced, while the original it is compared with is recovered unchanged" % short(c.name), [c.loc()])
    r.floor(rid, n, 3, "mutable uses of visitor.buffer in format_file")
