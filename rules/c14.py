"""C14 — configuration precedence (partial).

R14-a sibling agreement of the option side-effect tables · R14-b dotted file name first · R14-c style-edition precedence table
R14-d CLI options applied after the file configuration · R14-e width clamp table
"""
import json

from absint import explore, vkey, variant_name, TooManyPaths
from common import short


def side_effect_table(rec):
    """normalised table of a literal match: ((sorted option names) -> sorted Config::set_* callees)"""
    rows = []
    for a in rec["arms"]:
        names = sorted(x["str"] for x in a["pats"] if isinstance(x, dict) and "str" in x)
        setters = sorted({c.rsplit("::", 1)[-1] for c in a["calls"] if c.rsplit("::", 1)[-1].startswith("set_")})
        if names:
            rows.append((tuple(names), tuple(setters)))
    return tuple(sorted(rows))


def run(ctx):
    p, r = ctx.p, ctx.r
    A = r.rule("R14-a", "the option-name → side-effect tables generated into every ConfigSetter::<opt>, CliConfigSetter::<opt> and "
                        "Config::override_value are identical (same value, same effect from a file, from --config and from the "
                        "API), and fill_from_parsed_config calls every side-effect setter of that table")
    groups = {}
    n = 0
    for rec in p.hir["hir_litmatch"]:
        o = rec["owner"]
        kind = None
        if "::ConfigSetter::<'a>::" in o:
            kind = "ConfigSetter"
        elif "::CliConfigSetter::<'a>::" in o:
            kind = "CliConfigSetter"
        elif o.endswith("config::Config::override_value"):
            kind = "override_value"
        if kind is None:
            continue
        t = side_effect_table(rec)
        if not any(row[1] for row in t):
            continue   # the key → parse dispatch of override_value has no set_* calls
        n += 1
        groups.setdefault(t, []).append((kind, o))
    if n == 0:
        # one shared copy instead of three generated ones: `Config::refresh_dependent_options(key)` called by every setter
        helpers = []
        for rec in p.hir["hir_litmatch"]:
            o = rec["owner"]
            if "::config::" in o and any(row[1] for row in side_effect_table(rec)):
                helpers.append((o, side_effect_table(rec)))
        if len(helpers) == 1:
            hid, t = helpers[0]
            need = [f for f in p.by_crate["rustfmt_nightly"] if f.kind != "Closure" and (
                "::ConfigSetter::<'a>::" in f.id or "::CliConfigSetter::<'a>::" in f.id or f.id.endswith("config::Config::override_value"))]
            miss = [f for f in need if not any((c.resolved or c.name) == hid for c in f.calls())]
            kinds_seen = {"ConfigSetter" if "::ConfigSetter::" in f.id else "CliConfigSetter" if "::CliConfigSetter::" in f.id else "override_value"
                          for f in need if f not in miss}
            for f in need:
                if f not in miss:
                    n += 1
                    groups.setdefault(t, []).append(("ConfigSetter" if "::ConfigSetter::" in f.id else "CliConfigSetter"
                                                     if "::CliConfigSetter::" in f.id else "override_value", f.id))
            for f in miss[:3]:
                r.violation(A, "%s does not apply the option side effects" % short(f.id),
                            "the shared side-effect helper %s is not called by this setter: the same option value has another effect "
                            "when it comes through it" % short(hid), ["%s:%d" % (f.file, f.line)])
    r.floor(A, n, 170, "generated side-effect matches (2 per option + override_value)")
    kinds = {k for v in groups.values() for (k, o) in v}
    if len(groups) == 1 and kinds == {"ConfigSetter", "CliConfigSetter", "override_value"}:
        t = next(iter(groups))
        r.instance(A, "side-effect tables", "ok", "src/config/config_type.rs", "%d matches share one table of %d rows" % (n, len(t)))
        r.cells(A, n * len(t))
    else:
        # report the minority tables
        big = max(groups.values(), key=len) if groups else []
        for t, members in groups.items():
            if members is big:
                continue
            r.violation(A, "side-effect table of %s differs" % short(members[0][1]),
                        "%d generated setter(s) map option names to side effects differently from the other %d: the same option "
                        "value would have a different effect depending on where it comes from. differing table: %s" % (
                            len(members), len(big), json.dumps(t)[:300]), ["src/config/config_type.rs"])
        if kinds != {"ConfigSetter", "CliConfigSetter", "override_value"}:
            r.undecidable(A, "side-effect tables found only for %s" % sorted(kinds))
        r.instance(A, "side-effect tables", "violation", "src/config/config_type.rs", "%d distinct tables" % len(groups))
    if groups:
        t = max(groups, key=lambda k: len(groups[k]))
        setters = {s for row in t for s in row[1]}
        ff = p.named("fill_from_parsed_config", within="config::Config")
        if ff is None:
            r.undecidable(A, "fill_from_parsed_config not found")
        else:
            called = {c.name.rsplit("::", 1)[-1] for c in ff.calls()}
            missing = setters - called
            r.instance(A, "fill_from_parsed_config calls %s" % sorted(setters), "ok" if not missing else "violation",
                       "%s:%d" % (ff.file, ff.line))
            if missing:
                r.violation(A, "fill_from_parsed_config omits %s" % sorted(missing),
                            "options read from rustfmt.toml do not get the side effect(s) %s that --config / the API apply"
                            % sorted(missing), ["%s:%d" % (ff.file, ff.line)])

    B = r.rule("R14-b", "get_toml_path tries [\".rustfmt.toml\", \"rustfmt.toml\"] in that order and returns at the first file found")
    names = [x for x in p.hir["hir_const"] if x["id"].endswith("get_toml_path::CONFIG_FILE_NAMES")]
    ok = len(names) == 1 and [v.get("str") for v in names[0]["values"]] == [".rustfmt.toml", "rustfmt.toml"]
    r.instance(B, "CONFIG_FILE_NAMES", "ok" if ok else "violation", "src/config/mod.rs",
               str(names[0]["values"]) if names else "missing")
    if not ok:
        r.violation(B, "CONFIG_FILE_NAMES order", "the dotted name no longer comes first: %s" % (names[0]["values"] if names else None),
                    ["src/config/mod.rs"])
    gt = p.named("get_toml_path", within="rustfmt_nightly::config")
    if gt is None:
        r.undecidable(B, "get_toml_path not found")
    else:
        paths = explore(gt, pure=lambda c: c.name.endswith("is_file"))
        r.paths(B, len(paths))
        first_hit = [pa for pa in paths if pa.end == "ret" and pa.ret is not None and vkey(pa.ret).startswith("Ok(Some(")]
        none_ret = [pa for pa in paths if pa.end == "ret" and pa.ret is not None and vkey(pa.ret) == "Ok(None)"]
        ok = bool(first_hit)
        r.instance(B, "get_toml_path returns inside the loop at the first hit", "ok" if ok else "violation",
                   "%s:%d" % (gt.file, gt.line), "%d early-return paths, %d fall-through" % (len(first_hit), len(none_ret)))
        if not ok:
            r.violation(B, "get_toml_path does not return at the first hit",
                        "the loop over the candidate names goes on after a file was found (the last name would win)",
                        ["%s:%d" % (gt.file, gt.line)])

    C = r.rule("R14-c", "decision table of Config::default_for_possible_style_edition: style_edition if given, else version "
                        "(Two ↦ 2024, One ↦ 2015), else edition, else the plain default")
    df = p.named("default_for_possible_style_edition", within="config::Config")
    if df is None:
        r.undecidable(C, "default_for_possible_style_edition not found")
    else:
        PURE = ("default_with_style_edition", "Into::into", "Default>::default", "From<")
        paths = explore(df, pure=lambda c: any(x in c.name for x in PURE) or c.declared in ("std::convert::Into::into",))
        r.paths(C, len(paths))
        rows = {}
        for path in paths:
            if path.end != "ret" or path.ret is None:
                continue
            dec = {k: variant_name(v) for k, v in path.decisions}
            se = dec.get("discr(arg1)")
            ver = dec.get("discr(arg3)")
            ed = dec.get("discr(arg2)")
            vv = None
            for k, v in dec.items():
                if k.startswith("discr(arg3 as Some"):
                    vv = v
            ret = short(vkey(path.ret))
            rows[(se, ver, vv, ed)] = ret
        def expect(se, ver, vv, ed):
            if se == "Some":
                return lambda s: "default_with_style_edition(arg1 as Some.0)" in s
            if ver == "Some" and vv == "Two":
                return lambda s: "default_with_style_edition(Edition2024)" in s
            if ver == "Some" and vv == "One":
                return lambda s: "default_with_style_edition(Edition2015)" in s
            if ed == "Some":
                return lambda s: "default_with_style_edition(" in s and "arg2 as Some.0" in s
            return lambda s: "Default>::default()" in s and "default_with_style_edition" not in s
        seen_classes = set()
        for (se, ver, vv, ed), ret in sorted(rows.items(), key=str):
            ok = expect(se, ver, vv, ed)(ret)
            cls = "se" if se == "Some" else ("ver" + str(vv) if ver == "Some" else ("ed" if ed == "Some" else "default"))
            seen_classes.add(cls)
            r.cells(C, 1)
            r.instance(C, "style_edition=%s version=%s/%s edition=%s" % (se, ver, vv, ed), "ok" if ok else "violation",
                       "%s:%d" % (df.file, df.line), ret[-70:])
            if not ok:
                r.violation(C, "default_for_possible_style_edition[style_edition=%s,version=%s/%s,edition=%s]" % (se, ver, vv, ed),
                            "resolves to %s; documented precedence: style_edition, else version (Two↦2024, One↦2015), else "
                            "edition, else default" % ret[-80:], ["%s:%d" % (df.file, df.line)])
        need = {"se", "verTwo", "verOne", "ed", "default"}
        if not need <= seen_classes:
            miss = need - seen_classes
            # a missing class is a real deviation when the function was explored completely
            for m in sorted(miss):
                r.violation(C, "default_for_possible_style_edition: no arm for %s" % m,
                            "the precedence table has no row for `%s` (style_edition, else version, else edition, else default)" % m,
                            ["%s:%d" % (df.file, df.line)])

    D = r.rule("R14-d", "load_config returns Result::map(|..| { options.apply_to(&mut config) .. }) over the file/default "
                        "configuration: command-line options are applied after, and on top of, whatever the file said")
    lc = [f for f in p.fns.values() if f.name == "load_config" and f.kind != "Closure" and f.crate == "rustfmt_nightly"]
    if len(lc) != 1:
        r.undecidable(D, "load_config not found uniquely")
    else:
        lc = lc[0]
        maps = [c for c in lc.calls() if c.name.endswith("Result::<T, E>::map") and c.dest[0] == 0 and not c.dest[1]]
        ok = False
        for m in maps:
            for x in m.refs:
                f2 = p.fns.get(x)
                if f2 and any((cc.declared or "").endswith("CliOptions::apply_to") for cc in f2.calls()):
                    ok = True
        if not ok:
            # explicit form: every Ok(..) return on a path where `options` is Some has called apply_to before
            try:
                paths = explore(lc, is_effect=lambda c: (c.declared or "").endswith("CliOptions::apply_to"), max_paths=20000)
                oks = [pa for pa in paths if pa.end == "ret" and pa.ret is not None and vkey(pa.ret).startswith("Ok(")]
                need = [pa for pa in oks if any(k == "discr(arg2)" and variant_name(v) == "Some" for k, v in pa.decisions)
                        or not any(k == "discr(arg2)" for k, v in pa.decisions)]
                some = [pa for pa in oks if any(k == "discr(arg2)" and variant_name(v) == "Some" for k, v in pa.decisions)]
                ok = bool(some) and all(any(e.kind == "call" for e in pa.effects) for pa in some)
            except TooManyPaths:
                ok = False
        r.instance(D, "load_config: apply_to in the final map", "ok" if ok else "violation", "%s:%d" % (lc.file, lc.line))
        if not ok:
            r.violation(D, "load_config does not apply the command-line options last",
                        "the value returned by load_config is not `result.map(|cfg| { options.apply_to(cfg) .. })`",
                        ["%s:%d" % (lc.file, lc.line)])

    # each input is resolved on its own: no configuration (or anything else) is carried from one input to the next
    import c15
    c15.loop_state(ctx, "R14-f")
    alias_setters(ctx, "R14-g")
    derived_widths_capped(ctx, "R14-h")
    dump_omits_unconditionally(ctx, "R14-i")
    overrides_always_mark_the_option_set(ctx, "R14-j")
    value_writers_agree_with_their_readers(ctx, "R14-k")

    E = r.rule("R14-e", "width clamp closure of set_width_heuristics: not set ↦ heuristic value; set ∧ value > max_width ↦ max_width; "
                        "otherwise the user's value")
    cl = [f for f in p.fns.values() if f.kind == "Closure" and f.root and f.root.endswith("Config::set_width_heuristics")]
    if not cl:
        # the clamp may be a named local fn of set_width_heuristics instead of a closure
        cl = [f for f in p.fns.values() if f.kind == "Fn" and "Config::set_width_heuristics::" in f.id and f.locals[0] == "usize"]
    if len(cl) != 1:
        r.undecidable(E, "clamp closure of set_width_heuristics not found uniquely (%d)" % len(cl))
    else:
        cl = cl[0]
        from absint import KEYVALS
        paths = explore(cl)
        r.paths(E, len(paths))
        # roles of the parameters, independent of their positions: the bool one says whether the user set the option; the
        # comparison `value > max_width` names those two; the remaining integer parameter is the heuristic's value
        bools = ["arg%d" % i for i in range(1, cl.argc + 1) if cl.locals[i] == "bool"]
        n = 0
        for path in paths:
            if path.end != "ret" or path.ret is None:
                continue
            dec = [(k, variant_name(v)) for k, v in path.decisions]
            was_set = None
            smaller = None       # the operand the comparison on this path has shown to be the smaller (or equal) one
            pair = None
            for k, v in dec:
                if k in bools or any(k.endswith(b_) for b_ in bools):
                    was_set = v
                kv = KEYVALS.get(k)
                if kv is not None and kv[0] == "bin" and kv[1] in ("Gt", "Lt", "Ge", "Le") and isinstance(v, bool):
                    x, y = vkey(kv[2]), vkey(kv[3])
                    pair = (x, y)
                    x_small = (kv[1] in ("Lt", "Le")) == v
                    smaller = x if x_small else y
            ret = vkey(path.ret)
            if was_set is False:
                ok = ret.startswith("arg") and ret not in bools and (pair is None or ret not in pair)
            elif was_set is True and smaller is not None:
                ok = ret == smaller or ("max_width" in ret and "max_width" in smaller)
            else:
                ok = False
            n += 1
            r.cells(E, 1)
            r.instance(E, "clamp[was_set=%s, smaller=%s]" % (was_set, smaller), "ok" if ok else "violation",
                       "%s:%d" % (cl.file, cl.line), ret)
            if not ok:
                r.violation(E, "width clamp[was_set=%s] does not return %s" % (was_set, "min(value, max_width)" if was_set else "the heuristic value"),
                            "a derived width can exceed max_width or ignore the user's value (returns %s; compared %s, smaller %s)"
                            % (ret, pair, smaller), ["%s:%d" % (cl.file, cl.line)])
        r.floor(E, n, 3, "paths of the clamp closure")


ALIASES = {
    # deprecated option → (successor, polarity): the polarity is what the two names say ("hide" is the negation of "show")
    "fn_args_layout": ("fn_params_layout", "same"),
    "hide_parse_errors": ("show_parse_errors", "negated"),
}


def alias_setters(ctx, rid):
    """R14-g: a deprecated alias gives its successor the value its name promises"""
    from absint import explore, vkey, variant_name, TooManyPaths
    p, r = ctx.p, ctx.r
    r.rule(rid, "Config::set_<alias> for every deprecated alias of the table {fn_args_layout → fn_params_layout (same value), "
                "hide_parse_errors → show_parse_errors (negated)}: the only store is to the successor's value slot, on the path where "
                "the alias was set and the successor was not, and the stored value is the alias' value with the table's polarity")
    n = 0
    for alias, (succ, pol) in sorted(ALIASES.items()):
        f = p.named("set_" + alias, within="rustfmt_nightly::config::Config")
        if f is None:
            r.undecidable(rid, "Config::set_%s not found" % alias)
            continue
        pure = lambda c: "was_set" in c.name or c.name.endswith("::" + alias) or c.name.endswith("::" + succ)
        try:
            paths = explore(f, pure=pure, is_effect=lambda c: False)
        except TooManyPaths as e:
            r.undecidable(rid, str(e))
            continue
        r.paths(rid, len(paths))
        for path in paths:
            if path.end != "ret":
                continue
            stores = [e for e in path.effects if e.kind == "store"]
            d = {}
            for k, v in path.decisions:
                if k.endswith("::%s(config::Config::was_set(arg1))" % alias) or ("::%s(" % alias in k and "was_set" in k):
                    d["alias_set"] = v
                if "::%s(" % succ in k and "was_set" in k:
                    d["succ_set"] = v
            should_store = d.get("alias_set") is True and d.get("succ_set") is False
            n += 1
            ok = True
            why = ""
            if not should_store:
                ok = not stores
                why = "stores %s although alias_set=%s succ_set=%s" % ([e.name for e in stores], d.get("alias_set"), d.get("succ_set"))
            else:
                want = ("!" if pol == "negated" else "") + "config::Config::%s(arg1)" % alias
                got = [(e.name, vkey(e.args[0])) for e in stores]
                ok = len(stores) == 1 and stores[0].name.endswith("arg1.%s.2" % succ) and vkey(stores[0].args[0]) == want
                why = "stores %s, expected arg1.%s.2 = %s" % (got, succ, want)
            r.instance(rid, "set_%s[alias set=%s, successor set=%s]" % (alias, d.get("alias_set"), d.get("succ_set")),
                       "ok" if ok else "violation", "%s:%d" % (f.file, f.line))
            if not ok:
                r.violation(rid, "set_%s: %s" % (alias, "successor gets the wrong value" if should_store else "unexpected store"),
                            "the deprecated `%s` must give `%s` the %s value: %s" % (alias, succ, "opposite" if pol == "negated" else "same", why),
                            ["%s:%d" % (f.file, f.line)])
    r.floor(rid, n, 6, "paths of the alias setters")


def derived_widths_capped(ctx, rid):
    """R14-h: the scaled default heuristics are capped at max_width"""
    p, r = ctx.p, ctx.r
    r.rule(rid, "WidthHeuristics::scaled(max_width): every field of the returned value passes through Ord::min(.., max_width) "
                "(directly or in the helper closure that computes it) — `width limits derived from use_small_heuristics never "
                "exceed max_width`")
    f = p.named("scaled", within="WidthHeuristics")
    if f is None:
        r.undecidable(rid, "WidthHeuristics::scaled not found")
        return
    adt = next((a for k, a in p.adts.items() if k.endswith("options::WidthHeuristics")), None)
    names = [nm for nm, t in adt["variants"][0]["fields"]] if adt else []
    n = 0
    for bb, i, s in f.stmts():
        if not (s[0] == "=" and s[2][0] == "agg" and isinstance(s[2][1], list) and s[2][1][0] == "adt" and s[2][1][1].endswith("options::WidthHeuristics")):
            continue
        for nm, op in zip(names, s[2][2]):
            n += 1
            capped = False
            if op[0] != "k":
                d = f.derived_from(op[1][0])
                for c in d["calls"]:
                    if c.name.endswith("::min") or (c.declared or "").endswith("cmp::Ord::min"):
                        capped = True
                    g = p.fns.get(c.resolved or "") or next((p.fns[x] for x in c.refs if x in p.fns), None)
                    if g is not None and g.crate == "rustfmt_nightly":
                        for cc in g.calls():
                            if (cc.name.endswith("::min") or (cc.declared or "").endswith("cmp::Ord::min")):
                                capped = True
            r.instance(rid, "scaled.%s capped" % nm, "ok" if capped else "violation", "%s:%d" % (f.file, s[3]))
            if not capped:
                r.violation(rid, "WidthHeuristics::scaled: %s is not capped at max_width" % nm,
                            "the default heuristic width is only scaled up with max_width, never bounded by it: with max_width "
                            "below the default the derived width exceeds max_width", ["%s:%d" % (f.file, s[3])])
    r.floor(rid, n, 8, "fields of the scaled heuristics")


def dump_omits_unconditionally(ctx, rid):
    """R14-i: what --print-config leaves out does not depend on the values being printed"""
    from common import blocks_dominate
    p, r = ctx.p, ctx.r
    r.rule(rid, "PartialConfig::to_toml (the serializer behind --print-config): every field it clears before serialising is cleared "
                "on *every* path to `toml::to_string` — the set of omitted keys is a constant (internal options and deprecated "
                "aliases whose value lives under another key), never a function of the configuration.  A key that is dropped "
                "when some other option has a particular value is an explicitly set option missing from the dump, which then "
                "re-parses to a different effective configuration")
    f = p.named("to_toml", within="PartialConfig")
    if f is None:
        r.undecidable(rid, "PartialConfig::to_toml not found")
        return
    ser = [c for c in f.calls() if c.name.endswith("toml::to_string") or c.name.endswith("to_string_pretty")]
    if not ser:
        r.undecidable(rid, "PartialConfig::to_toml: no toml serialisation call found")
        return
    n = 0
    for bb, i, st in f.stmts():
        if st[0] != "=" or not st[1][1]:
            continue
        fl = [e for e in st[1][1] if isinstance(e, list) and e[0] == "f" and e[2] and e[2].endswith("PartialConfig")]
        if not fl:
            continue
        reach = f.reachable(bb)
        live = [c for c in ser if c.bb in reach]
        if not live:
            continue
        n += 1
        ok = all(blocks_dominate(f, {bb}, c.bb) for c in live)
        r.instance(rid, "to_toml clears `%s`" % fl[-1][4], "ok" if ok else "violation", "%s:%d" % (f.file, st[3]),
                   "on every path" if ok else "only on some paths")
        if not ok:
            r.violation(rid, "to_toml omits `%s` from the dump only under a condition" % fl[-1][4],
                        "the write does not dominate the serialisation call: whether the key is printed depends on the values of "
                        "the configuration being dumped", ["%s:%d" % (f.file, st[3])])
    if n == 0:
        # struct-update form: `PartialConfig { file_lines: None, …, ..self.clone() }` — one construction, nothing conditional about it
        from common import operand_origin
        for bb, i, st in f.stmts():
            if st[0] == "=" and st[2][0] == "agg" and isinstance(st[2][1], list) and st[2][1][0] == "adt" \
                    and st[2][1][1].endswith("PartialConfig") and any(c.bb in f.reachable(bb) for c in ser):
                nones = 0
                for op in st[2][2]:
                    o = operand_origin(f, op)
                    if (o[0] == "const") or (op[0] != "k" and not op[1][1] and f.single_def(op[1][0]) and f.single_def(op[1][0])[1] == "assign"
                                             and f.single_def(op[1][0])[2][2][0] == "agg" and isinstance(f.single_def(op[1][0])[2][2][1], list)
                                             and f.single_def(op[1][0])[2][2][1][0] == "adt" and f.single_def(op[1][0])[2][2][1][2] == "None"):
                        nones += 1
                ok = all(blocks_dominate(f, {bb}, c.bb) for c in ser if c.bb in f.reachable(bb))
                n += nones
                r.instance(rid, "to_toml builds the dumped value in one construction (%d fields None)" % nones, "ok" if ok else "violation",
                           "%s:%d" % (f.file, st[3]))
                if not ok:
                    r.violation(rid, "to_toml builds the dumped configuration only under a condition",
                                "the construction does not dominate the serialisation call", ["%s:%d" % (f.file, st[3])])
    r.floor(rid, n, 3, "fields cleared by PartialConfig::to_toml")


def overrides_always_mark_the_option_set(ctx, rid):
    """R14-j: a `--config key=val` pair marks its option as explicitly set, whatever the value"""
    p, r = ctx.p, ctx.r
    r.rule(rid, "Config::override_value (the function every `--config key=val` pair and every CLI flag goes through): for each "
                "option, once the value text has been parsed, every path to the end of the function stores `true` into the "
                "option's was-set flag (`self.<opt>.1`).  The flag is what the later derivation steps ask — width heuristics, "
                "deprecated aliases mapping to their successors — so a pair that is skipped because it restates the value already "
                "in force is treated as unset and overwritten: the same two lines give one result in rustfmt.toml and another as "
                "`--config`")
    f = p.named("override_value", within="config::Config")
    if f is None:
        r.undecidable(rid, "Config::override_value not found")
        return
    marks = {}
    for bb, i, st in f.stmts():
        if st[0] == "=" and st[1][1] and st[2][0] == "use" and st[2][1][0] == "k" and st[2][1][2] is True:
            fl = [e for e in st[1][1] if isinstance(e, list) and e[0] == "f"]
            if len(fl) >= 2 and str(fl[-1][1]) == "1" and fl[-2][2] and fl[-2][2].endswith("config::Config"):
                marks.setdefault(bb, fl[-2][4])
    parses = [c for c in f.calls() if c.name.rsplit("::", 1)[-1] == "parse" and "str" in c.name]
    n = 0
    bad = []
    for c in parses:
        n += 1
        reach = set()
        for s0 in f.succ(c.bb):
            reach |= f.reachable(s0, avoid_blocks=set(marks))
        # failure of the parse is a panic / early error: only ordinary returns count
        if any(b in reach for b in f.returns()):
            # which option is this?  the nearest mark reachable from the parse
            near = [marks[b] for b in marks if any(b in f.reachable(s0) for s0 in f.succ(c.bb))]
            bad.append((c, near[0] if len(near) == 1 else "?"))
    r.instance(rid, "override_value: %d options, each parse followed by its was-set store on every path" % len(parses),
               "violation" if bad else "ok", "%s:%d" % (f.file, f.line), "%d was-set stores" % len(marks))
    if bad:
        r.violation(rid, "Config::override_value can return after parsing a value without marking the option as set",
                    "%d option arms have a path from the parsed value to the return that skips `self.<opt>.1 = true` (first: %s)"
                    % (len(bad), bad[0][1]), ["%s:%d" % (f.file, f.line)])
    r.floor(rid, n, 50, "option arms of Config::override_value")
    r.floor(rid, len(marks), 50, "was-set stores in Config::override_value")


def value_writers_agree_with_their_readers(ctx, rid):
    """R14-k: a configuration value is printed (Serialize) in the form its reader (Deserialize) accepts"""
    import re
    p, r = ctx.p, ctx.r
    r.rule(rid, "`--print-config` prints the effective configuration through serde's Serialize, and a configuration file is read "
                "through Deserialize. For every type of the config module that implements both, the two impls are of the same "
                "kind: both derived from the shape of the type (inside serde's anonymous `const _`), or both written out (by "
                "hand or by the config_type macro, through the Display / FromStr pair). A reader written by hand — it accepts "
                "the *string* form, `\"*\"` — next to a derived writer — it prints the *shape*, `\"All\"` / `{ Name = \"a\" }` — "
                "prints a value that does not re-parse, or re-parses as another value")
    kinds = {}
    for f in p.by_crate["rustfmt_nightly"]:
        if f.kind == "Closure" or not f.impl:
            continue
        t = f.impl.get("trait") or ""
        m = re.search(r"serde::(Serialize|Deserialize)\b", t)
        ty = f.impl.get("self") or ""
        if not m or "::config::" not in ty or "<impl" in ty:
            continue
        if not (f.id.endswith("::serialize") or f.id.endswith("::deserialize")):
            continue
        derived = re.search(r"::_::<impl [^>]*serde::(Serialize|Deserialize)", f.id) is not None
        kinds.setdefault(ty, {})[m.group(1)] = ("derived" if derived else "written", f)
    n = 0
    for ty, d in sorted(kinds.items()):
        if len(d) < 2:
            continue
        n += 1
        (ks, fs), (kd, fd) = d["Serialize"], d["Deserialize"]
        ok = ks == kd
        r.instance(rid, "%s: Serialize %s, Deserialize %s" % (short(ty), ks, kd), "ok" if ok else "violation",
                   "%s:%d" % (fs.file, fs.line))
        if not ok:
            r.violation(rid, "%s is written by a %s Serialize and read by a %s Deserialize" % (short(ty), ks, kd),
                        "the value `--print-config` prints for an option of this type is the %s form, the file reader accepts "
                        "the %s form: the printed configuration does not re-parse to the same configuration"
                        % ("shape" if ks == "derived" else "string", "shape" if kd == "derived" else "string"),
                        ["%s:%d" % (fs.file, fs.line), "%s:%d" % (fd.file, fd.line)])
    r.floor(rid, n, 25, "config types with both a Serialize and a Deserialize impl")
