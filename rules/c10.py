"""C10 — import rewriting preserves what is imported (partial).

R10-a no de-duplication coarser than (path, visibility, attrs, comments) · R10-b merge guards dominate merges; share_prefix table
R10-c grouping is a partition
"""
import re
from absint import explore, vkey, variant_name, TooManyPaths
from common import short, bool_branches, edge_dominates, result_edges, loops_of

UT = "rustfmt_nightly::imports::UseTree"
DEDUP = ("unique", "unique_by", "dedup", "dedup_by", "dedup_by_key", "all_unique", "duplicates")


def run(ctx):
    p, r = ctx.p, ctx.r
    A = r.rule("R10-a", "UseTree's PartialEq/Hash look at the path only, so (1) no generic de-duplication (unique, dedup, hash/btree "
                        "set) may be instantiated with UseTree, and (2) every body that compares two UseTrees with == also "
                        "calls same_visibility and reads UseTree.attrs (a tree is dropped only when visibility is equal and "
                        "nothing is attached)")
    eq = p.fns.get("<%s as std::cmp::PartialEq>::eq" % UT)
    eq_fields = set()
    if eq is not None:
        eq_fields = {fld for (adt, var, fld, mode, bb, line) in eq.field_accesses() if adt == UT}
    full = {"path", "visibility", "attrs"} <= eq_fields
    r.instance(A, "<UseTree as PartialEq>::eq reads %s" % sorted(eq_fields), "info", "src/imports.rs", nontrivial=False)
    n = 0
    for c in p.all_calls("rustfmt_nightly"):
        ga = " ".join(c.ga)
        last = c.name.rsplit("::", 1)[-1]
        if "imports::UseTree" not in ga:
            continue
        is_set = ("HashSet<rustfmt_nightly::imports::UseTree" in ga or "BTreeSet<rustfmt_nightly::imports::UseTree" in ga
                  or "HashMap<rustfmt_nightly::imports::UseTree" in ga)
        if last in DEDUP or is_set:
            n += 1
            r.instance(A, c.key(), "ok" if full else "violation", c.loc())
            if not full:
                r.violation(A, "%s de-duplicates UseTrees with %s" % (short(c.fn.root or c.fn.id), last),
                            "%s relies on UseTree's equality/hash, which read only %s: imports that differ in visibility or "
                            "attributes (`pub use a::b; use a::b;`, `#[cfg(unix)] use c::d; #[cfg(windows)] use c::d;`) "
                            "collapse into one" % (last, sorted(eq_fields)), [c.loc()])
        # == on &UseTree / UseTree
        if c.declared in ("std::cmp::PartialEq::eq", "std::cmp::PartialEq::ne") and c.ga and \
                c.ga[0].replace("&", "").strip() == UT:
            n += 1
            body = c.fn
            from common import reads_field_transitively, calls_transitively
            calls_sv = calls_transitively(p, body, "UseTree::same_visibility")
            reads_attrs = reads_field_transitively(p, body, "imports::UseTree", "attrs")
            ok = full or (calls_sv and reads_attrs)
            r.instance(A, c.key(), "ok" if ok else "violation", c.loc(),
                       "same_visibility=%s attrs read=%s" % (calls_sv, reads_attrs))
            if not ok:
                r.violation(A, "%s compares UseTrees by path only" % short(body.id),
                            "two use-trees are compared with == (path only) without same_visibility and an attrs test in the "
                            "same body: trees differing in visibility/attributes are treated as the same import", [c.loc()])
    # (3) nor may the key of a map / set be the *rendered text* of a UseTree: Display leaves out the alias of self / super /
    # crate segments, the visibility and the attributes
    for c in p.all_calls("rustfmt_nightly"):
        if "imports::" not in c.fn.id:
            continue
        last = c.name.rsplit("::", 1)[-1]
        if last not in ("entry", "insert", "contains", "contains_key", "get", "get_mut", "remove") or len(c.args) < 2:
            continue
        if not any(x in c.name for x in ("HashMap", "HashSet", "BTreeMap", "BTreeSet")):
            continue
        if c.args[1][0] == "k":
            continue
        d = c.fn.derived_from(c.args[1][1][0])
        rendered = [x for x in d["calls"] if x.name.endswith("ToString>::to_string") or (x.declared or "").endswith("ToString::to_string")]
        rendered = [x for x in rendered if any("imports::UseTree" in g for g in x.ga)]
        if rendered:
            n += 1
            r.instance(A, c.key(), "violation", c.loc(), "key derives from UseTree::to_string")
            r.violation(A, "%s keys a map by the rendered text of a UseTree" % short(c.fn.root or c.fn.id),
                        "the key of %s is `tree.to_string()`: Display omits the alias of `self` / `super` / `crate` segments (and the "
                        "visibility and attributes), so `use std::fmt::{self as f}` and `use std::fmt::{self as g}` share a key and one "
                        "of them is dropped as a duplicate" % short(c.name), [c.loc()])
    # (4) nor may *which trees are kept* be decided on the rendered text: `list.retain(|t| !t.to_string().contains("{}"))` also
    # drops every tree that merely has an empty list somewhere below it
    SELECT = ("retain", "retain_mut", "filter", "filter_map", "dedup_by", "dedup_by_key", "extract_if", "drain_filter", "skip_while",
              "take_while", "partition", "position", "find")
    for c in p.all_calls("rustfmt_nightly"):
        if "imports::" not in c.fn.id and "reorder::" not in c.fn.id:
            continue
        if c.name.rsplit("::", 1)[-1] not in SELECT:
            continue
        for cid in c.refs:
            h = p.fns.get(cid)
            if h is None or h.kind != "Closure":
                continue
            rendered = [x for x in h.calls() if (x.name.endswith("ToString>::to_string") or (x.declared or "").endswith("ToString::to_string")
                                               or (x.declared or "").endswith("fmt::Display::fmt"))
                        and any("imports::UseTree" in g for g in x.ga)]
            if rendered:
                n += 1
                r.instance(A, c.key(), "violation", c.loc(), "selection predicate renders the tree")
                r.violation(A, "%s selects use trees by their rendered text" % short(c.fn.root or c.fn.id),
                            "the predicate handed to %s calls `tree.to_string()`: a textual test cannot tell what a tree imports "
                            "(`contains(\"{}\")` is true of every tree with an empty list anywhere below it), so real imports are "
                            "dropped with it" % short(c.name).rsplit("::", 1)[-1], [c.loc()])
    r.rules[A]["floor"] = 0

    B = r.rule("R10-b", "normalize_use_trees_with_granularity: the test contains_comment ∨ attrs.is_some() dominates flatten / "
                        "share_prefix / merge on its false edge; merge is reached only on the Some edge of find(share_prefix); "
                        "share_prefix is false whenever a path is empty, attrs is set, a comment is attached or visibility differs")
    nz = p.fn("rustfmt_nightly::imports::normalize_use_trees_with_granularity")
    if nz is None:
        r.undecidable(B, "normalize_use_trees_with_granularity not found")
    else:
        from common import false_answer_implies_false
        cc = [c for c in nz.calls() if c.name.endswith("UseTree::contains_comment")]
        isome = [c for c in nz.calls() if c.name.endswith("Option::<T>::is_some")]
        # a helper predicate that is false only when both tests are false counts for both
        for c in nz.calls():
            h = p.fns.get(c.resolved or "")
            if h is not None and h.crate == "rustfmt_nightly" and h.locals[0] == "bool" and c not in cc:
                if false_answer_implies_false(p, h, ["contains_comment(arg1)"]):
                    cc.append(c)
                if false_answer_implies_false(p, h, ["is_some(arg1.attrs)"]):
                    isome.append(c)
        work = [c for c in nz.calls() if c.name.endswith("UseTree::flatten") or c.name.endswith("UseTree::merge")
                or any(x.endswith("normalize_use_trees_with_granularity::{closure#0}") for x in c.refs)
                or (p.fns.get(c.resolved or "") is not None and p.fns[c.resolved].crate == "rustfmt_nightly"
                    and any(d.name.endswith("UseTree::merge") for d in p.fns[c.resolved].calls()))]
        # a helper predicate of the opposite polarity: true only when nothing is attached (`has_nothing_attached(&tree)`)
        from common import answer_implies
        inverted = set()
        for c in nz.calls():
            h = p.fns.get(c.resolved or "")
            if h is not None and h.crate == "rustfmt_nightly" and h.locals[0] == "bool" and c not in cc and c not in isome:
                if answer_implies(p, h, True, [[("contains_comment(arg1)", False)]]):
                    cc.append(c)
                    inverted.add(id(c))
                if answer_implies(p, h, True, [[("is_none(arg1.attrs)", True), ("is_some(arg1.attrs)", False)]]):
                    isome.append(c)
                    inverted.add(id(c))
        guards = []
        for g in cc + isome:
            for (sw, t_true, t_false) in bool_branches(nz, g.dest[0]):
                if id(g) in inverted:
                    t_true, t_false = t_false, t_true          # the edge on which nothing is attached plays the part of `false`
                guards.append((g, sw, t_true, t_false))
        ok = bool(cc) and bool(isome) and bool(work)
        for w in work:
            for gset in (cc, isome):
                dom = any(edge_dominates(nz, (sw, t_false), w.bb) and w.bb not in nz.reachable(t_true, stop_blocks=[sw])
                          for (g, sw, t_true, t_false) in guards if g in gset)
                # the true edge pushes the tree untouched and continues with the next one (re-entering the loop head is fine)
                dom = dom or any(edge_dominates(nz, (sw, t_false), w.bb) for (g, sw, t_true, t_false) in guards if g in gset)
                if not dom:
                    ok = False
                    r.violation(B, "normalize: %s not guarded by %s" % (short(w.name).rsplit("::", 1)[-1],
                                                                          "contains_comment" if gset is cc else "attrs.is_some"),
                                "%s can run on a use-tree that carries %s: merging/flattening would drop or misplace it" % (
                                    short(w.name), "a comment" if gset is cc else "attributes"), [w.loc()])
        r.instance(B, "normalize: comment/attrs guard dominates %d work calls" % len(work), "ok" if ok else "violation",
                   "%s:%d" % (nz.file, nz.line))
        if not (cc and isome and work):
            r.undecidable(B, "normalize: guard or work calls not found (contains_comment=%d is_some=%d work=%d)" % (
                len(cc), len(isome), len(work)))
        # merge only after find(share_prefix) = Some
        okm = False
        holders = [nz] + [h for h in (p.fns.get(c.resolved or "") for c in nz.calls())
                          if h is not None and h.crate == "rustfmt_nightly" and h.kind != "Closure"]
        for hz in holders:
            mg = [c for c in hz.calls() if c.name.endswith("UseTree::merge")]
            fd = [c for c in hz.calls() if c.declared == "std::iter::Iterator::find"]
            if mg and fd:
                closure_ok = any(any(cc2.name.endswith("UseTree::share_prefix") for cc2 in p.fns[x].calls()) for x in fd[0].refs if x in p.fns)
                for e in result_edges(hz, fd[0]):
                    if e["ok"] is not None and all(edge_dominates(hz, (e["sw"], e["ok"]), m.bb) for m in mg):
                        okm = closure_ok
                break
        r.instance(B, "merge only after find(share_prefix)=Some", "ok" if okm else "violation", "%s:%d" % (nz.file, nz.line))
        if not okm:
            r.violation(B, "normalize: merge not gated by share_prefix",
                        "UseTree::merge is reachable for a pair of trees for which share_prefix did not answer true",
                        ["%s:%d" % (nz.file, nz.line)])
    sp = p.named("share_prefix", within="imports::UseTree")
    if sp is None:
        r.undecidable(B, "share_prefix not found")
    else:
        paths = explore(sp, pure=lambda c: True)
        r.paths(B, len(paths))
        conds = {"e1": "is_empty(arg1.path)", "e2": "is_empty(arg2.path)", "at": "is_some(arg1.attrs)",
                 "cm": "contains_comment(arg1)", "sv": "same_visibility(arg1,arg2)"}
        seen_block = set()
        for path in paths:
            if path.end != "ret" or path.ret is None:
                continue
            d = {}
            for k, v in path.decisions:
                for name, frag in conds.items():
                    if frag in k and isinstance(v, bool):
                        d[name] = v
                # the same questions asked the other way round
                if isinstance(v, bool) and "is_none(arg1.attrs)" in k:
                    d["at"] = not v
            blocked = d.get("e1") is True or d.get("e2") is True or d.get("at") is True or d.get("cm") is True or d.get("sv") is False
            ret = vkey(path.ret)
            all_decided = all(x in d for x in conds)
            if blocked:
                ok = ret == "false"
                seen_block |= {k for k, v in d.items() if (v if k != "sv" else not v)}
            else:
                ok = all_decided    # may be true or a prefix comparison, but only after every blocker answered no
                mode = [variant_name(v) for k, v in path.decisions if k == "discr(arg3)"]
                if ok and mode and mode[0] in ("Crate", "Module"):
                    # the prefix comparison is full equality of segments (aliases included), on both trees' paths
                    full = "PartialEq" in ret and "::eq(" in ret and "arg1.path" in ret and "arg2.path" in ret
                    if not full:
                        ok = False
                        r.violation(B, "share_prefix[%s] compares with %s" % (mode[0], short(ret).split("(")[0][-50:]),
                                    "two trees share a %s prefix only when the prefix segments are equal including their aliases; "
                                    "an alias-insensitive comparison lets `use foo as bar;` merge with `use foo;` and one of them "
                                    "is lost" % mode[0], ["%s:%d" % (sp.file, sp.line)])
                elif ok and mode and mode[0] == "One" and ret != "true":
                    ok = False
            r.cells(B, 1)
            r.instance(B, "share_prefix%s" % sorted(d.items()), "ok" if ok else "violation", "%s:%d" % (sp.file, sp.line), ret[-40:])
            if not ok:
                r.violation(B, "share_prefix%s = %s" % (sorted(d.items()), short(ret)[-40:]),
                            "share_prefix can answer true although %s" % (
                                "a blocking condition holds" if blocked else "not every blocking condition (empty path, attrs, "
                                "comment, visibility) was tested"), ["%s:%d" % (sp.file, sp.line)])
        missing = {"e1", "e2", "at", "cm", "sv"} - seen_block
        for m in sorted(missing):
            r.violation(B, "share_prefix no longer refuses on `%s`" % conds[m],
                        "the merge guard lost its test %s" % conds[m], ["%s:%d" % (sp.file, sp.line)])

    visibility_tables(ctx)
    alias_insensitive_drop(ctx, "R10-e")
    rewritten_run_is_contiguous(ctx, "R10-f")
    flatten_never_imports_the_prefix(ctx, "R10-g")
    flatten_callers_keep_attributes(ctx, "R10-h")
    merging_takes_lists_over_whole(ctx, "R10-i")
    C = r.rule("R10-c", "group_imports: every path through one loop iteration pushes the tree into exactly one of the groups")
    gi = p.fn("rustfmt_nightly::reorder::group_imports")
    if gi is None:
        r.undecidable(C, "group_imports not found")
    else:
        n_it = 0
        for lp in loops_of(gi):
            nxt = [c for c in gi.calls() if c.bb in lp["blocks"] and c.declared == "std::iter::Iterator::next"]
            for nx in nxt:
                for e in result_edges(gi, nx):
                    if e["ok"] is None:
                        continue
                    try:
                        paths = explore(gi, start=e["ok"], stop_at={nx.bb}, is_effect=lambda c: c.name.endswith("::push"),
                                        pure=lambda c: True)
                    except TooManyPaths as ex:
                        r.undecidable(C, str(ex))
                        continue
                    r.paths(C, len(paths))
                    for path in paths:
                        if path.end not in ("stop",):
                            if path.end == "ret":
                                r.violation(C, "group_imports: loop body returns", "an import can be dropped by an early return",
                                            ["%s:%d" % (gi.file, gi.line)])
                            continue
                        n_it += 1
                        pushes = [x for x in path.effects if x.kind == "call"]
                        ok = len(pushes) == 1
                        r.instance(C, "iteration path %s" % [variant_name(v) for k, v in path.decisions][:4],
                                   "ok" if ok else "violation", "%s:%d" % (gi.file, gi.line), "%d push" % len(pushes))
                        if not ok:
                            r.violation(C, "group_imports: %d pushes on one iteration path" % len(pushes),
                                        "an import is put into %d groups (decisions %s)" % (
                                            len(pushes), [(k[-30:], variant_name(v)) for k, v in path.decisions][:4]),
                                        ["%s:%d" % (gi.file, gi.line)])
        r.floor(C, n_it, 1, "iteration paths of group_imports")


def visibility_tables(ctx, rid="R10-d"):
    """R10-d: equality of visibilities used by the merge guard"""
    p, r = ctx.p, ctx.r
    D = r.rule(rid, "decision tables of utils::is_same_visibility and UseTree::same_visibility: same kind required; two "
                        "restricted visibilities are equal only when their whole restriction paths are (full string equality, or "
                        "a comparison that also compares the lengths); a missing visibility equals only Inherited")
    f = p.named("is_same_visibility", within="rustfmt_nightly::utils")
    if f is None:
        r.undecidable(D, "is_same_visibility not found")
    else:
        try:
            paths = explore(f, pure=lambda c: True, max_visits=1)
        except TooManyPaths as e:
            r.undecidable(D, str(e))
            paths = []
        r.paths(D, len(paths))
        for path in paths:
            if path.end not in ("ret", "loop"):
                continue
            sets = {}
            for k, v in path.decisions:
                if k in ("discr(arg1.kind)", "discr(arg2.kind)"):
                    v = variant_name(v)
                    sets[k] = set(v[1]) if isinstance(v, tuple) and v[0] == "other" else {v}
            a = sets.get("discr(arg1.kind)")
            b = sets.get("discr(arg2.kind)")
            if not a or not b:
                continue
            ret = vkey(path.ret) if path.end == "ret" and path.ret is not None else "<loop>"
            if a == b and len(a) == 1:
                kind = next(iter(a))
                if kind == "Restricted":
                    full = "PartialEq" in ret and "::eq(" in ret and ret.count("path_to_string(") == 2 \
                        and "arg1.kind as Restricted.path" in ret and "arg2.kind as Restricted.path" in ret
                    has_len = any("::len(" in k for k, v in path.decisions) or "::len(" in ret
                    ok = full or has_len
                    why = "full string equality of both restriction paths" if full else ("length compared" if has_len else ret[:80])
                else:
                    ok = ret == "true"
                    why = ret
            else:
                ok = ret == "false" if not (a & b) else True
                why = ret
            r.cells(D, 1)
            r.instance(D, "is_same_visibility[%s,%s]" % (sorted(a), sorted(b)), "ok" if ok else "violation",
                       "%s:%d" % (f.file, f.line), why[-70:])
            if not ok:
                r.violation(D, "is_same_visibility[%s,%s] = %s" % (sorted(a), sorted(b), short(ret)[:50]),
                            "two visibilities of kind %s/%s compare as %s: for restricted visibilities the whole paths must be "
                            "compared (a prefix test makes `pub(crate)` equal to `pub(in crate::a)` and lets imports merge across "
                            "differing visibility)" % (sorted(a), sorted(b), short(ret)[:80]), ["%s:%d" % (f.file, f.line)])
    g = p.named("same_visibility", within="imports::UseTree")
    if g is not None:
        paths = explore(g, pure=lambda c: True)
        r.paths(D, len(paths))
        for path in paths:
            if path.end != "ret" or path.ret is None:
                continue
            d = {k: variant_name(v) for k, v in path.decisions}
            va, vb = d.get("discr(arg1.visibility)"), d.get("discr(arg2.visibility)")
            ret = vkey(path.ret)
            inner = [v for k, v in d.items() if k.endswith(".kind)")]
            if va == "Some" and vb == "Some":
                ok = ret.startswith("utils::is_same_visibility(arg1.visibility as Some.0,arg2.visibility as Some.0)")
            elif va == "None" and vb == "None":
                ok = ret == "true"
            else:
                ok = (ret == "true") == (inner == ["Inherited"])
            r.cells(D, 1)
            r.instance(D, "same_visibility[%s,%s,%s]" % (va, vb, inner), "ok" if ok else "violation", "%s:%d" % (g.file, g.line), ret[-50:])
            if not ok:
                r.violation(D, "same_visibility[%s,%s,%s] = %s" % (va, vb, inner, short(ret)[-40:]),
                            "a missing visibility must equal only an inherited one", ["%s:%d" % (g.file, g.line)])


def alias_insensitive_drop(ctx, rid):
    """R10-e: a tree is dropped as a duplicate only when it *is* one"""
    p, r = ctx.p, ctx.r
    r.rule(rid, "UseTree::merge computes the common prefix with equal_except_alias at the root; merge_rest then returns None "
                "(the second tree is discarded as identical) when both paths are exhausted — that is sound only if the two paths "
                "were compared for full equality on that path")
    mg = p.named("merge", within="imports::UseTree")
    mr = p.fn("rustfmt_nightly::imports::merge_rest")
    if mg is None or mr is None:
        r.undecidable(rid, "UseTree::merge / merge_rest not found")
        return
    uses_eea = any(c.name.endswith("UseSegment::equal_except_alias") for c in mg.calls())
    try:
        paths = explore(mr, pure=lambda c: c.name.endswith("::len") or c.declared in ("std::cmp::PartialEq::eq", "std::cmp::PartialEq::ne"),
                        max_paths=20000)
    except TooManyPaths as e:
        r.undecidable(rid, str(e))
        return
    r.paths(rid, len(paths))
    n = 0
    for path in paths:
        if path.end != "ret" or path.ret is None or vkey(path.ret) != "None":
            continue
        lens = [(k, v) for k, v in path.decisions if "::len(" in k and " Eq arg3" in k.replace("(", " ").replace(")", " ") or
                ("::len(" in k and "Eq" in k)]
        both_exhausted = sum(1 for k, v in path.decisions if "::len(arg" in k and ("Eq" in k and v is True or "Ne" in k and v is False)) >= 2
        if not both_exhausted:
            continue
        n += 1
        full_eq = any(("PartialEq" in k or "::eq(" in k or "::ne(" in k) and "::len(" not in k for k, v in path.decisions)
        ok = full_eq or not uses_eea
        key = "merge_rest discards a tree equal only up to the alias of its root"
        r.instance(rid, key, "ok" if ok else "violation", "%s:%d" % (mr.file, mr.line),
                   "merge uses equal_except_alias=%s; full equality tested on the None path=%s" % (uses_eea, full_eq))
        if not ok:
            r.violation(rid, key,
                        "`use foo as bar; use foo;` (granularity Module/One) and `use b as b2; use b;` lose the second import: merge "
                        "treats roots that differ only in their alias as a common prefix and merge_rest returns None (= identical) "
                        "when both paths end there", ["%s:%d" % (mr.file, mr.line), "%s:%d" % (mg.file, mg.line)])
    r.floor(rid, n, 1, "None-returning `both exhausted` paths of merge_rest")


def rewritten_run_is_contiguous(ctx, rid):
    """R10-f / R11-e: the items handed to the group rewriter are exactly the items the replaced span covers"""
    from common import expr_key
    p, r = ctx.p, ctx.r
    r.rule(rid, "every call of rewrite_reorderable_or_regroupable_items(ctx, list, shape, span): `list` is a contiguous sub-slice of "
                "the walked items (obtained by slice indexing only — no filter / filter_map / collect / retain on the way), and the "
                "endpoints of `span` are taken from first() / last() of that same list: whatever lies inside the span and is not "
                "in the list is deleted from the output")
    n = 0
    HOLES = ("Iterator::filter", "Iterator::filter_map", "Iterator::collect", "Iterator::skip_while", "Iterator::step_by",
             "Vec::<T, A>::retain", "Vec::<T, A>::remove", "Vec::<T, A>::swap_remove", "Iterator::partition")
    for f in p.by_crate["rustfmt_nightly"]:
        for c in f.calls():
            if not c.name.endswith("reorder::rewrite_reorderable_or_regroupable_items") or len(c.args) < 4:
                continue
            n += 1
            lst, span = c.args[1], c.args[3]
            bad = []
            if lst[0] != "k":
                d = f.derived_from(lst[1][0])
                holes = sorted({short(x.declared or x.name).rsplit("::", 1)[-1] for x in d["calls"]
                                if any((x.declared or "").endswith(h) or x.name.endswith(h) for h in HOLES)})
                if holes:
                    bad.append("the list is produced through %s (it may omit items that lie inside the span)" % holes)
            lkey = expr_key(f, lst)
            if span[0] != "k":
                ds = f.derived_from(span[1][0])
                ends = [x for x in ds["calls"] if x.name.endswith("::first") or x.name.endswith("::last")]
                other = [x for x in ends if x.args and expr_key(f, x.args[0]) != lkey
                         and lkey not in expr_key(f, x.args[0]) and expr_key(f, x.args[0]) not in lkey]
                if len(ends) < 2:
                    bad.append("the span is not built from first()/last() of the list")
                elif other:
                    bad.append("the span endpoints come from a different list than the one rewritten")
            key = "%s: rewritten run" % short(f.root or f.id)
            r.instance(rid, key, "ok" if not bad else "violation", c.loc(), "; ".join(bad))
            if bad:
                r.violation(rid, "%s: rewritten items and replaced span disagree" % short(f.root or f.id),
                            "%s: the text of the span is replaced by the rewrite of the list, so an import / mod / extern crate "
                            "inside the span but not in the list disappears" % "; ".join(bad), [c.loc()])
    r.floor(rid, n, 1, "calls of rewrite_reorderable_or_regroupable_items")


def flatten_never_imports_the_prefix(ctx, rid):
    """R10-g: splitting a nested list never produces a tree for a nested element that names nothing"""
    from common import bool_branches, edge_dominates
    p, r = ctx.p, ctx.r
    r.rule(rid, "imports::UseTree::flatten: every UseTree it builds from `prefix ++ nested.path` is built on the false edge of an "
                "is_empty test of that nested path — `c::{}` imports nothing, and prefix ++ [] would import the prefix itself "
                "(`use a::{b, c::{}}` ↦ `use a; use a::b;`)")
    f = p.named("flatten", within="imports::UseTree")
    if f is None:
        r.undecidable(rid, "UseTree::flatten not found")
        return
    n = 0
    for bb, i, s in f.stmts():
        if not (s[0] == "=" and s[2][0] == "agg" and isinstance(s[2][1], list) and s[2][1][0] == "adt" and s[2][1][1].endswith("imports::UseTree")):
            continue
        n += 1
        guarded = False
        for g in f.calls():
            if not g.name.endswith("::is_empty") or not g.args or g.args[0][0] == "k":
                continue
            d = f.derived_from(g.args[0][1][0])
            nested = any((x.declared or "").endswith("Iterator::next") or x.name.endswith("Iterator>::next") for x in d["calls"])
            if not nested:
                continue
            for (sw, t_true, t_false) in bool_branches(f, g.dest[0]):
                if edge_dominates(f, (sw, t_false), bb):
                    guarded = True
        if not guarded:
            # the same test as the predicate of an Iterator::filter the nested elements pass through
            from common import answer_implies
            for g in f.calls():
                if (g.declared or g.name).endswith("Iterator::filter") or g.name.endswith("::filter"):
                    for cid in g.refs:
                        h = p.fns.get(cid)
                        if h is not None and h.kind == "Closure" and answer_implies(p, h, True, [[("::is_empty(", False)]]):
                            used = [x for x in f.derived_from_block_operands(bb) if x is g] if hasattr(f, "derived_from_block_operands") else None
                            ops = [op for op in s[2][2] if op[0] != "k"]
                            if any(g in f.derived_from(op[1][0])["calls"] for op in ops):
                                guarded = True
        r.instance(rid, "flatten: nested tree non-empty before prefixing", "ok" if guarded else "violation", "%s:%d" % (f.file, s[3]))
        if not guarded:
            r.violation(rid, "UseTree::flatten prefixes a nested tree without knowing it is non-empty",
                        "a flattened element with an empty path (from `c::{}`) yields a tree that is just the prefix: an import of "
                        "the prefix module that the source never had", ["%s:%d" % (f.file, s[3])])
    r.floor(rid, n, 1, "UseTree constructions in flatten")


def flatten_callers_keep_attributes(ctx, rid):
    """R10-h: a declaration with attributes is never split into attribute-less paths"""
    from common import bool_branches, edge_dominates, local_origin, operand_origin
    p, r = ctx.p, ctx.r
    r.rule(rid, "UseTree::flatten copies the declaration's attributes onto the paths it produces only for ImportGranularity::Item; "
                "for every other granularity the paths come out without them.  Every call of flatten from outside itself therefore "
                "either passes the constant `Item` (directly, or as the parameter of a function all of whose callers pass it), or is "
                "reached only on the false edge of `tree.attrs.is_some()`: `#[cfg(test)] use foo::{testing, Baz};` split and merged "
                "with its neighbours becomes an unconditional import")
    n = 0

    def const_item(f, op):
        o = operand_origin(f, op)
        if o[0] == "const" and isinstance(o[1], dict) and o[1].get("variant") == "Item":
            return True
        if op[0] != "k" and not op[1][1]:
            d = f.single_def(op[1][0])
            if d and d[1] == "assign":
                rv = d[2][2]
                if rv[0] == "agg" and isinstance(rv[1], list) and rv[1][0] == "adt" and rv[1][1].endswith("ImportGranularity") \
                        and rv[1][2] == "Item":
                    return True
                if rv[0] == "use":
                    return const_item(f, rv[1])
        return False

    import common

    def under_item_arm(f, op, at_bb):
        if op[0] == "k":
            return False
        gr, gp = common._norm_place(f, op[1][0], op[1][1])
        for bb2, i2, st2 in f.stmts():
            if st2[0] == "=" and st2[2][0] == "discr" and "ImportGranularity" in str(st2[2][2]) \
                    and common._norm_place(f, st2[2][1][0], st2[2][1][1]) == (gr, gp):
                names = {int(v): nme for v, nme in st2[2][3]}
                for sb in range(len(f.blocks)):
                    t = f.term(sb)
                    if t[0] == "switch" and common.op_local(t[1]) == st2[1][0]:
                        for v, tg in t[2]:
                            if names.get(int(v)) == "Item" and sum(1 for v2, tg2 in t[2] if tg2 == tg) == 1 \
                                    and edge_dominates(f, (sb, tg), at_bb):
                                return True
        return False

    def is_item(f, op, at_bb, depth=3):
        if const_item(f, op) or under_item_arm(f, op, at_bb):
            return True
        if depth <= 0 or op[0] == "k":
            return False
        gr, gp = common._norm_place(f, op[1][0], op[1][1])
        owner = f
        if f.kind == "Closure" and gr == 1:
            # a captured variable: look it up in the function that builds the closure
            parent = p.fns.get(f.id.split("::{closure")[0])
            if parent is None:
                return False
            gi = [i for i in range(1, parent.argc + 1) if "ImportGranularity" in parent.locals[i]]
            if len(gi) != 1:
                return False
            owner, gr = parent, gi[0]
        elif not (1 <= gr <= f.argc) or f.kind == "Closure":
            return False
        sites = [(g, d) for g in p.by_crate["rustfmt_nightly"] for d in g.calls() if d.resolved == owner.id]
        return bool(sites) and all(len(d.args) >= gr and is_item(g, d.args[gr - 1], d.bb, depth - 1) for g, d in sites)

    for f in p.by_crate["rustfmt_nightly"]:
        if short(f.id).split("::{closure")[0].endswith("UseTree::flatten"):
            continue
        for c in f.calls():
            if not c.name.endswith("imports::UseTree::flatten"):
                continue
            n += 1
            ok_const = len(c.args) > 1 and is_item(f, c.args[1], c.bb)
            if not ok_const and f.kind == "Closure":
                parent = p.fns.get(f.id.split("::{closure")[0])
                if parent is not None:
                    gi = [i for i in range(1, parent.argc + 1) if "ImportGranularity" in parent.locals[i]]
                    sites = [(g, d) for g in p.by_crate["rustfmt_nightly"] for d in g.calls() if d.resolved == parent.id or d.name == parent.id]
                    if gi and sites and all(len(d.args) >= gi[0] and const_item(g, d.args[gi[0] - 1]) for g, d in sites):
                        ok_const = True
            guarded = False
            # under the `Item` arm of a match on the granularity parameter, the parameter *is* Item
            if not ok_const and len(c.args) > 1 and c.args[1][0] != "k":
                import common
                gr, gp = common._norm_place(f, c.args[1][1][0], c.args[1][1][1])
                for bb2, i2, st2 in f.stmts():
                    if st2[0] == "=" and st2[2][0] == "discr" and "ImportGranularity" in str(st2[2][2]) \
                            and common._norm_place(f, st2[2][1][0], st2[2][1][1]) == (gr, gp):
                        names = {int(v): nme for v, nme in st2[2][3]}
                        for sb in range(len(f.blocks)):
                            t = f.term(sb)
                            if t[0] == "switch" and common.op_local(t[1]) == st2[1][0]:
                                for v, tg in t[2]:
                                    if names.get(int(v)) == "Item" and sum(1 for v2, tg2 in t[2] if tg2 == tg) == 1 \
                                            and edge_dominates(f, (sb, tg), c.bb):
                                        ok_const = True
            # a helper predicate that answers true only for trees without attributes
            from common import answer_implies
            for d in f.calls():
                h = p.fns.get(d.resolved or "")
                if h is None or h.crate != "rustfmt_nightly" or h.locals[0] != "bool" or d.dest[1]:
                    continue
                if answer_implies(p, h, True, [[("is_none(arg1.attrs)", True), ("is_some(arg1.attrs)", False)]]):
                    for sw, tt, ff in bool_branches(f, d.dest[0]):
                        if tt is not None and edge_dominates(f, (sw, tt), c.bb):
                            guarded = True
                elif answer_implies(p, h, False, [[("is_none(arg1.attrs)", True), ("is_some(arg1.attrs)", False)]]):
                    for sw, tt, ff in bool_branches(f, d.dest[0]):
                        if ff is not None and edge_dominates(f, (sw, ff), c.bb):
                            guarded = True
            for d in f.calls():
                last = d.name.rsplit("::", 1)[-1]
                if last not in ("is_some", "is_none") or not d.args or d.args[0][0] == "k" or d.dest[1]:
                    continue
                dd = f.derived_from(d.args[0][1][0])
                direct = [e for e in d.args[0][1][1] if isinstance(e, list) and e[0] == "f"]
                if not (any(str(x[2]) == "attrs" and (x[0] or "").endswith("imports::UseTree") for x in dd["fields"])
                        or any(str(e[4]) == "attrs" for e in direct)):
                    continue
                for sw, tt, ff in bool_branches(f, d.dest[0]):
                    tgt = ff if last == "is_some" else tt
                    if tgt is not None and edge_dominates(f, (sw, tgt), c.bb):
                        guarded = True
            ok = ok_const or guarded
            r.instance(rid, "%s calls UseTree::flatten" % short(f.id).split("::{closure")[0], "ok" if ok else "violation", c.loc(),
                       "granularity is the constant Item" if ok_const else "guarded by attrs.is_none()" if guarded else "unguarded")
            if not ok:
                r.violation(rid, "%s flattens use trees that may carry attributes" % short(f.id).split("::{closure")[0],
                            "the call is not confined to trees without attributes and the granularity is not the constant Item: the "
                            "attributes of a split declaration are dropped", [c.loc()])
    r.floor(rid, n, 2, "external callers of UseTree::flatten")


_DROPPING = ("filter", "filter_map", "skip", "skip_while", "take", "take_while", "step_by", "retain", "retain_mut", "dedup",
             "dedup_by", "dedup_by_key", "drain", "truncate", "remove", "swap_remove", "pop", "split_off", "extract_if")


def merging_takes_lists_over_whole(ctx, rid):
    """R10-i: UseTree::merge / merge_rest combine two trees; neither selects among the sub-trees of a nested list"""
    p, r = ctx.p, ctx.r
    r.rule(rid, "imports::merge_rest and UseTree::merge (with their closures) put two use trees together: the nested lists they "
                "combine are taken over whole (clone, extend, push). No element-dropping operation — filter, filter_map, skip*, "
                "take*, retain, dedup*, drain, truncate, remove, pop — is applied there to a sequence of UseTree: the one import "
                "merging may discard is the tree that equals the other (R10-e), and that is decided on whole paths, aliases "
                "included. A filter that recognises `self` by its variant alone drops `self as x` together with the duplicate "
                "`self` (`use foo; use foo::{self as f, bar};` ↦ `use foo::{self, bar};`)")
    from common import unit_with_private_helpers
    seeds = [f for f in p.by_crate["rustfmt_nightly"] if re.search(r"imports::(merge_rest|UseTree::merge)$", (f.root or f.id))]
    seed_ids = {f.root or f.id for f in seeds}
    # a helper extracted from the two is part of them; a function that calls back into them (merge_use_trees_inner, which picks
    # the partner of a merge and recurses) drives the merge and is not
    fam = unit_with_private_helpers(p, seeds, exclude=lambda h: any(c.name in seed_ids for k in p.body_family(h) for c in k.calls()))
    seen = 0
    for f in fam:
        for c in f.calls():
            tys = " ".join(c.ga) + " " + " ".join(f.locals[a[1][0]] for a in c.args if a[0] != "k") + " " + f.locals[c.dest[0]]
            if "imports::UseTree" not in tys:
                continue
            last = re.sub(r"<.*?>", "", c.name).rsplit("::", 1)[-1]
            if last in ("extend", "push", "clone", "to_vec", "cloned", "iter", "into_iter", "extend_from_slice", "collect") \
                    or last in _DROPPING:
                seen += 1
            if last in _DROPPING and ("Iterator" in c.name or "Vec" in c.name or "slice" in c.name or "VecDeque" in c.name):
                r.instance(rid, "%s: %s over use trees" % (short(f.root or f.id), last), "violation", c.loc())
                r.violation(rid, "%s drops elements of a list of use trees (%s)" % (short(f.root or f.id), last),
                            "merging selects among the sub-trees of a nested list with `%s`: an import the predicate takes for "
                            "redundant (an aliased `self`, a tree equal up to its alias) disappears from the output" % last,
                            [c.loc()])
    r.instance(rid, "merge_rest / UseTree::merge: operations on sequences of use trees", "ok", "", "%d seen in %d bodies" % (seen, len(fam)))
    r.floor(rid, seen, 2, "sequence operations over UseTree in merge_rest / UseTree::merge")
