"""Small interprocedural constant propagation for exit codes (i32 / Result<i32,_> / Option<i32>)."""
import re

from absint import explore, vkey, TooManyPaths, PURECALLS
from common import short

PURE = ("std::process::ExitStatus::code", "std::option::Option::<T>::unwrap_or", "std::process::ExitStatus::success")


def _pure(c):
    return any(c.name == x for x in PURE)


class IntFlow:
    def __init__(self, p):
        self.p = p
        self.ret_cache = {}
        self.in_progress = set()
        self.paths_examined = 0

    def _fn_by_short(self, name):
        cands = [f for f in self.p.fns.values() if short(f.id) == name or f.id == name]
        return cands[0] if len(cands) == 1 else None

    def fn_returns(self, fn, depth=0):
        """abstract ints fn may return (Ok/Some payloads unwrapped)"""
        if fn.id in self.ret_cache:
            return self.ret_cache[fn.id]
        if fn.id in self.in_progress:
            return set()
        if depth > 40:
            return {("dyn", "depth limit at " + short(fn.id))}
        self.in_progress.add(fn.id)
        out = set()
        try:
            paths = explore(fn, pure=_pure, max_paths=20000)
            self.paths_examined += len(paths)
            for path in paths:
                if path.end != "ret" or path.ret is None:
                    continue
                out |= self.resolve(fn, path.ret, depth + 1)
        except TooManyPaths:
            out.add(("dyn", "too many paths in " + short(fn.id)))
        self.in_progress.discard(fn.id)
        self.ret_cache[fn.id] = out
        return out

    def resolve(self, fn, v, depth=0):
        if depth > 48:
            return {("dyn", "depth limit")}
        if v[0] == "k":
            if isinstance(v[1], bool):
                return {("dyn", "bool")}
            if isinstance(v[1], int):
                return {v[1]}
            return {("dyn", vkey(v))}
        if v[0] == "agg":
            if v[2] in ("Ok", "Some") and v[3]:
                return self.resolve(fn, v[3][0], depth + 1)
            if v[2] in ("Err", "None"):
                return set()
            return {("dyn", vkey(v))}
        if v[0] == "cast":
            return self.resolve(fn, v[1], depth + 1)
        key = vkey(v)
        pc = PURECALLS.get(v[1]) if v[0] == "atom" else None
        if pc and pc[0] == "std::option::Option::<T>::unwrap_or" and len(pc[1]) == 2 and pc[1][0][0] == "agg":
            # unwrap_or(<Some(x) | None built on this path>, d): the payload, or the default
            a = pc[1][0]
            if a[2] == "None":
                return self.resolve(fn, pc[1][1], depth + 1)
            if a[2] == "Some" and a[3]:
                return self.resolve(fn, a[3][0], depth + 1)
        if key.startswith("residual("):
            return set()
        if key.startswith("frombool("):
            return {0, 1}
        if "ExitStatus::code" in key:
            # Option::unwrap_or(code(), k): also the default k
            m = re.match(r"^std::option::Option::<T>::unwrap_or\((.*),(-?\d+)\)$", key)
            if m:
                return {("child-code", m.group(1)), int(m.group(2))}
            return {("child-code", key)}
        m = re.match(r"^std::option::Option::<T>::unwrap_or\((.*),(-?\d+)\)$", key)
        if m:
            return {int(m.group(2))} | self.resolve(fn, ("atom", m.group(1)), depth + 1)
        m = re.match(r"^call:(.*)#(\d+)((?: as (?:Ok|Some|Continue)\.0)*)$", key)
        if m:
            f2 = self._fn_by_short(m.group(1))
            if f2 is not None:
                return self.fn_returns(f2, depth + 1)
            # external higher-order call (iterator adaptor, Option::map, ..): any value its closures return
            site = [c for c in fn.calls() if short(c.name) == m.group(1) and c.ordinal == int(m.group(2))]
            if site and site[0].refs and all(x in self.p.fns for x in site[0].refs):
                out = set()
                # only closures that can produce the value: those returning an integer (possibly wrapped)
                prod = [self.p.fns[x] for x in site[0].refs if "i32" in self.p.fns[x].locals[0]]
                if not prod:
                    return {("dyn", key)}
                for g in prod:
                    out |= self.fn_returns(g, depth + 1)
                return out
            return {("dyn", key)}
        m = re.match(r"^try\(call:(.*)#\d+\)((?: as (?:Ok|Some|Continue)\.0)*)$", key)
        if m:
            f2 = self._fn_by_short(m.group(1))
            if f2 is not None:
                return self.fn_returns(f2, depth + 1)
            return {("dyn", key)}
        m = re.match(r"^arg(\d+)((?: as (?:Ok|Some)\.0)*)$", key)
        if m:
            return self.arg_values(fn, int(m.group(1)), depth + 1)
        return {("dyn", key)}

    def arg_values(self, fn, n, depth):
        out = set()
        sites = [(src, c) for (src, kind, c) in self.p.callers().get(fn.id, []) if c is not None and kind == "direct"]
        if not sites:
            return {("dyn", "arg%d of %s (no callers)" % (n, short(fn.id)))}
        for src, c in sites:
            caller = self.p.fns[src]
            try:
                paths = explore(caller, is_effect=lambda cc, _bb=c.bb: cc.bb == _bb, pure=_pure, max_paths=20000)
            except TooManyPaths:
                out.add(("dyn", "too many paths in " + short(caller.id)))
                continue
            self.paths_examined += len(paths)
            for path in paths:
                for e in path.effects:
                    if e.kind == "call" and len(e.args) >= n:
                        out |= self.resolve(caller, e.args[n - 1], depth + 1)
        return out

    def call_arg_values(self, fn, call, n):
        """abstract ints of the n-th (1-based) argument at a given call site"""
        out = set()
        try:
            paths = explore(fn, is_effect=lambda cc: cc.bb == call.bb, pure=_pure, max_paths=20000)
        except TooManyPaths:
            return {("dyn", "too many paths in " + short(fn.id))}
        self.paths_examined += len(paths)
        for path in paths:
            for e in path.effects:
                if e.kind == "call" and len(e.args) >= n:
                    out |= self.resolve(fn, e.args[n - 1])
        return out
