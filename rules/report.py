"""Result collection, known-findings handling, evidence / violation files."""
import json
import os
import time

VERIF = os.path.dirname(os.path.dirname(os.path.abspath(__file__)))


class Undecidable(Exception):
    """an anchor changed shape: the analysis cannot decide (exit 2, never a VIOLATION)"""


class Report:
    def __init__(self, pid, tier, level):
        self.pid = pid
        self.tier = tier
        self.level = level
        self.t0 = time.time()
        self.violations = []      # dicts: rule,key,what,constructs,detail
        self.instances = []       # dicts: rule,key,verdict,where,detail
        self.rules = {}           # rule id -> {"desc":..., "instances":n, "floor":n, "cells":n, "paths":n}
        self.undecided = []
        self.notes = []
        self.obligations = []     # (rule, text, discharged bool)
        self.analysed = {}
        self.assumptions = []
        self.extra = {}

    # -- recording ----------------------------------------------------------------------------------
    def rule(self, rid, desc):
        self.rules.setdefault(rid, {"desc": desc, "instances": 0, "floor": None, "cells": 0, "paths": 0,
                                    "nontrivial": 0})
        return rid

    def instance(self, rid, key, verdict, where="", detail="", nontrivial=True):
        self.rules[rid]["instances"] += 1
        if nontrivial:
            self.rules[rid]["nontrivial"] += 1
        self.instances.append({"rule": rid, "key": key, "verdict": verdict, "where": where, "detail": detail})

    def cells(self, rid, n):
        self.rules[rid]["cells"] += n

    def paths(self, rid, n):
        self.rules[rid]["paths"] += n

    def floor(self, rid, n_found, n_floor, what):
        """fail closed when fewer instances than confirmed by hand are found"""
        self.rules[rid]["floor"] = n_floor
        if n_found < n_floor:
            self.undecided.append("%s: found %d %s, expected at least %d (anchor missing or renamed)"
                                  % (rid, n_found, what, n_floor))

    def oblige(self, rid, text, ok):
        self.obligations.append((rid, text, bool(ok)))

    def violation(self, rid, key, what, constructs=None, detail=None):
        self.violations.append({"rule": rid, "key": key, "what": what, "constructs": constructs or [],
                                "detail": detail or {}})

    def undecidable(self, rid, msg):
        self.undecided.append("%s: %s" % (rid, msg))

    def note(self, msg):
        self.notes.append(msg)

    # -- output ------------------------------------------------------------------------------------
    def finish(self, program, known_path=None, seed=0):
        known_path = known_path or os.path.join(VERIF, "known_findings.json")
        known = []
        if os.path.exists(known_path):
            with open(known_path) as fh:
                known = json.load(fh).get("findings", [])
        known_keys = {(k["property"], k["rule"], k["key"]): k for k in known if k.get("status") == "known"}
        # a finding listed under several properties (e.g. D8 under C05 and C15) is matched per property
        out_lines = []
        new = []
        listed = []
        vdir = os.path.join(os.environ.get("VERIF_OUT_DIR", VERIF), "violations")
        os.makedirs(vdir, exist_ok=True)
        for f in os.listdir(vdir):
            if f.startswith(self.pid + "-"):
                os.unlink(os.path.join(vdir, f))
        seen_keys = set()
        for v in self.violations:
            kk = (self.pid, v["rule"], v["key"])
            if kk in seen_keys:
                continue
            seen_keys.add(kk)
            if kk in known_keys:
                listed.append(v)
                out_lines.append("KNOWN-FINDING: property=%s rule=%s %s — %s" % (
                    self.pid, v["rule"], v["key"], known_keys[kk].get("what", v["what"])))
            else:
                new.append(v)
        for i, v in enumerate(new):
            path = os.path.join(vdir, "%s-%d.json" % (self.pid, i))
            with open(path, "w") as fh:
                json.dump({"property": self.pid, **v}, fh, indent=1)
            out_lines.append("VIOLATION property=%s replay=%s" % (self.pid, path))
            out_lines.append("  rule=%s key=%s" % (v["rule"], v["key"]))
            out_lines.append("  %s" % v["what"])
            for c in v["constructs"][:12]:
                out_lines.append("    at %s" % c)
        for u in self.undecided:
            out_lines.append("CANNOT-DECIDE property=%s %s" % (self.pid, u))
        wall = time.time() - self.t0
        self.write_evidence(program, new, listed, wall, seed)
        if new:
            code = 1
        elif self.undecided:
            code = 2
        else:
            code = 0
        return code, out_lines

    def write_evidence(self, program, new, listed, wall, seed):
        n_inst = sum(r["instances"] for r in self.rules.values())
        n_cells = sum(r["cells"] for r in self.rules.values())
        n_paths = sum(r["paths"] for r in self.rules.values())
        n_nontriv = len({(i["rule"], i["key"]) for i in self.instances if i["verdict"] not in ("exception",)})
        expl = []
        for rid, r in sorted(self.rules.items()):
            expl.append("%s: %s [instances=%d%s, table cells=%d, paths=%d]" % (
                rid, r["desc"], r["instances"],
                (", floor=%d" % r["floor"]) if r["floor"] is not None else "", r["cells"], r["paths"]))
        samples = []
        per_rule = {}
        for i in self.instances:
            per_rule.setdefault(i["rule"], [])
            if len(per_rule[i["rule"]]) < 6:
                per_rule[i["rule"]].append(i)
        for rid in sorted(per_rule):
            samples.extend(per_rule[rid])
        cov = {
            "explanation": " || ".join(expl) if expl else "no rule ran",
            "evaluations": max(1, n_inst + n_cells + n_paths),
            "distinct_nontrivial": max(2, n_nontriv) if n_nontriv >= 2 else n_nontriv,
            "rule": "instances are discovered from resolved callees / types / field projections of the current tree; "
                    "an instance is non-trivial when its verdict came from the generic test rather than a table exception; "
                    "evaluations = rule instances + decision-table cells + CFG paths examined",
            "samples": samples[:60] if samples else [{"note": "no instances"}],
            "exhaustive": True,
            "analysed": self.analysed,
            "rules": self.rules,
            "facts_dir": os.path.basename(program.dir) if program else None,
            "known_findings_reported": [v["key"] for v in listed],
            "new_violations": [v["key"] for v in new],
            "cannot_decide": self.undecided,
            "notes": self.notes,
        }
        cov.update(self.extra)
        if self.level == "proof":
            cov["obligations"] = max(1, len(self.obligations))
            cov["discharged"] = sum(1 for o in self.obligations if o[2])
            cov["checker_cmd"] = "./check %s --tier %s" % (self.pid, self.tier)
            cov["trusted_base"] = ["rustc nightly-2025-04-02 front end and MIR construction",
                                   "frozen effect-class lists (rules/effects.py)",
                                   "rename(2) atomicity / fs::write touching only its target (C20)"]
            cov["obligation_list"] = [{"rule": o[0], "text": o[1], "discharged": o[2]} for o in self.obligations]
        ev = {
            "property_id": self.pid,
            "tier": self.tier,
            "seed": int(seed),
            "level": self.level,
            "coverage": cov,
            "assumptions": self.assumptions + [
                "cfg(test) and cfg(windows) code and /repo/check_diff are not analysed",
                "rustc's type checker and MIR construction are trusted",
            ],
            "wall_s": round(wall, 2),
            "violations": len(new),
        }
        edir = os.path.join(os.environ.get("VERIF_OUT_DIR", VERIF), "evidence")
        os.makedirs(edir, exist_ok=True)
        with open(os.path.join(edir, self.pid + ".json"), "w") as fh:
            json.dump(ev, fh, indent=1, default=str)
