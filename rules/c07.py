"""C07 — line-width / trailing-whitespace diagnostics are exact (partial: the three decision tables).

R07-a should_report_error exemption table · R07-b new_line effect table · R07-c track_errors ErrorKind→flag table
"""
from absint import explore, vkey, variant_name, check_table, TooManyPaths
from common import short

OTHER_KINDS = ("BadAttr", "DeprecatedAttr", "InvalidGlobPattern", "IoError", "ModuleResolutionError", "ParseError",
               "VersionMismatch")


def report_table(ctx, rid):
    p, r = ctx.p, ctx.r
    r.rule(rid, "decision table of FormatLines::should_report_error (all 128 cells): with allow = eou ∨ ¬(comment char ∨ "
                "string-literal line ∨ comment error): LineOverflow ↦ eolo ∧ allow; TrailingWhitespace / LostComment ↦ allow; "
                "any other kind ↦ true")
    f = p.named("should_report_error", within="FormatLines")
    if f is None:
        r.undecidable(rid, "FormatLines::should_report_error not found")
        return
    try:
        paths = explore(f, pure=lambda c: True)
    except TooManyPaths as e:
        r.undecidable(rid, str(e))
        return
    r.paths(rid, len(paths))
    if any(pa.end == "loop" for pa in paths):
        r.undecidable(rid, "should_report_error is not loop-free")
        return

    def atom_of(key, val):
        v = variant_name(val)
        if "FullCodeCharKind::is_comment(arg2)" in key:
            return ("cc", v)
        if key.endswith("arg1.current_line_contains_string_literal"):
            return ("sl", v)
        if "ErrorKind::is_comment(arg3)" in key:
            return ("kc", v)
        if "Config::error_on_unformatted(" in key:
            return ("eou", v)
        if "Config::error_on_line_overflow(" in key:
            return ("eolo", v)
        if key == "discr(arg3)":
            if isinstance(v, tuple) and v[0] == "other":
                return ("kind", "other")
            return ("kind", v if v in ("LineOverflow", "TrailingWhitespace", "LostComment") else "other")
        return None

    def outcome(path):
        if path.end != "ret" or path.ret is None:
            return None
        v = path.ret
        if v[0] == "k" and isinstance(v[1], bool):
            return v[1]
        k = vkey(v)
        if "Config::error_on_unformatted(" in k and not k.startswith("!"):
            return lambda a: a["eou"]
        if "Config::error_on_line_overflow(" in k and not k.startswith("!"):
            return lambda a: a["eolo"]
        return "dyn:" + k

    def spec(a):
        allow = a["eou"] or not (a["cc"] or a["sl"] or a["kc"])
        if a["kind"] == "LineOverflow":
            return a["eolo"] and allow
        if a["kind"] in ("TrailingWhitespace", "LostComment"):
            return allow
        return True

    B = [False, True]
    res = check_table(paths, atom_of, spec, outcome,
                      {"cc": B, "sl": B, "kc": B, "eou": B, "eolo": B, "kind": ["LineOverflow", "TrailingWhitespace", "LostComment", "other"]})
    r.cells(rid, res["cells"])
    bad = {}
    for (assign, exp, got, path, unknown) in res["deviations"]:
        bad.setdefault(tuple(sorted(assign.items())), (assign, exp, got, unknown))
    r.instance(rid, "should_report_error table", "ok" if not bad and not res["uncovered"] else "deviates",
               "%s:%d" % (f.file, f.line), "%d cells compared, %d deviate, %d uncovered" % (res["cells"], len(bad), len(res["uncovered"])))
    if res["uncovered"]:
        r.undecidable(rid, "%d cells of the should_report_error table are not covered by any path" % len(res["uncovered"]))
    for k, (assign, exp, got, unknown) in list(sorted(bad.items()))[:6]:
        r.violation(rid, "should_report_error: %s" % ",".join("%s=%s" % kv for kv in sorted(assign.items())),
                    "returns %s where the exemption table gives %s (%s)%s" % (
                        got, exp, assign, (" under extra conditions %s" % unknown) if unknown else ""),
                    ["%s:%d" % (f.file, f.line)])


def new_line_table(ctx, rid, only_gate=False):
    p, r = ctx.p, ctx.r
    if only_gate:
        r.rule(rid, "FormatLines::new_line: every push_err is on a path that decided format_line = true, and format_line is "
                    "reassigned from file_lines().contains_line(name, cur_line) on every path")
    else:
        r.rule(rid, "effect table of FormatLines::new_line (64 cells): push_err(TrailingWhitespace) iff format_line ∧ "
                    "last_was_space ∧ report(TW) ∧ ¬skipped; push_err(LineOverflow) iff format_line ∧ line_len > max_width ∧ "
                    "¬skipped ∧ report(LO); nothing else is pushed")
    f = p.named("new_line", within="FormatLines")
    if f is None:
        r.undecidable(rid, "FormatLines::new_line not found")
        return
    PURE = ("should_report_error", "is_skipped_line", "max_width", "contains_line", "is_comment", "is_string", "file_lines")
    try:
        paths = explore(f, pure=lambda c: any(c.name.endswith(x) for x in PURE),
                        is_effect=lambda c: c.name.endswith("::push_err"), program=p, inline="auto")
    except TooManyPaths as e:
        r.undecidable(rid, str(e))
        return
    r.paths(rid, len(paths))
    if any(pa.end == "loop" for pa in paths):
        r.undecidable(rid, "new_line is not loop-free")
        return

    def atom_of(key, val):
        v = variant_name(val)
        if key == "arg1.format_line":
            return ("fl", v)
        if key == "arg1.last_was_space":
            return ("lws", v)
        if "should_report_error(" in key and "TrailingWhitespace" in key:
            return ("rtw", v)
        if "should_report_error(" in key and "LineOverflow(" in key:
            return ("rlo", v)
        if "is_skipped_line(arg1)" in key:
            return ("skip", v)
        if "line_len" in key and "max_width" in key and isinstance(v, bool):
            # the same comparison in any of its four spellings
            left_is_len = key.index("line_len") < key.index("max_width")
            for op, when_len_left, when_len_right in ((" Gt ", True, None), (" Le ", False, None), (" Lt ", None, True), (" Ge ", None, False)):
                if op in key:
                    pol = when_len_left if left_is_len else when_len_right
                    if pol is not None:
                        return ("wide", v if pol else (not v))
        return None

    def pushed(path):
        out = []
        for e in path.effects:
            if e.kind == "call":
                k = vkey(e.args[1]) if len(e.args) > 1 else "?"
                out.append(k.split("(")[0])
        return tuple(sorted(out))

    if only_gate:
        n = 0
        for path in paths:
            if path.end != "ret":
                continue
            ps = pushed(path)
            fl = dict((atom_of(k, v) or (None, None)) for k, v in path.decisions).get("fl")
            if ps:
                n += 1
                ok = fl is True
                r.instance(rid, "push_err%s gated" % (ps,), "ok" if ok else "violation", "%s:%d" % (f.file, f.line))
                if not ok:
                    r.violation(rid, "new_line: push_err%s without format_line" % (ps,),
                                "a diagnostic is issued for a line outside the selected ranges", ["%s:%d" % (f.file, f.line)])
            st = [e for e in path.effects if e.kind == "store" and e.name.endswith("arg1.format_line")]
            ok2 = len(st) == 1 and "contains_line(" in vkey(st[0].args[0]) and "arg1.cur_line" in vkey(st[0].args[0])
            if not ok2:
                r.violation(rid, "new_line: format_line not recomputed from contains_line(name, cur_line)",
                            "format_line store on this path: %s" % [vkey(e.args[0]) for e in st], ["%s:%d" % (f.file, f.line)])
        r.floor(rid, n, 2, "paths of new_line that push an error")
        return

    def spec(a):
        out = []
        if a["fl"] and a["lws"] and a["rtw"] and not a["skip"]:
            out.append("TrailingWhitespace")
        if a["fl"] and a["wide"] and not a["skip"] and a["rlo"]:
            out.append("LineOverflow")
        return tuple(sorted(out))

    B = [False, True]
    res = check_table(paths, atom_of, spec, lambda pa: pushed(pa) if pa.end == "ret" else None,
                      {"fl": B, "lws": B, "rtw": B, "skip": B, "wide": B, "rlo": B})
    r.cells(rid, res["cells"])
    bad = {}
    for (assign, exp, got, path, unknown) in res["deviations"]:
        bad.setdefault(tuple(sorted(assign.items())), (assign, exp, got, unknown))
    r.instance(rid, "new_line effect table", "ok" if not bad and not res["uncovered"] else "deviates",
               "%s:%d" % (f.file, f.line), "%d cells compared, %d deviate" % (res["cells"], len(bad)))
    if res["uncovered"]:
        r.undecidable(rid, "%d cells of the new_line table are not covered" % len(res["uncovered"]))
    for k, (assign, exp, got, unknown) in list(sorted(bad.items()))[:6]:
        r.violation(rid, "new_line: %s" % ",".join("%s=%d" % (a, int(v)) for a, v in sorted(assign.items())),
                    "pushes %s where the table gives %s%s" % (list(got), list(exp),
                                                               (" under extra conditions %s" % unknown) if unknown else ""),
                    ["%s:%d" % (f.file, f.line)])
    # operands of push_err: line numbers / flags come from self
    for path in paths:
        for e in path.effects:
            if e.kind == "call" and len(e.args) >= 4:
                kind = vkey(e.args[1])
                if kind.startswith("LineOverflow("):
                    ok = "arg1.line_len" in kind and "max_width(arg1.config)" in kind
                    if not ok:
                        r.violation(rid, "new_line: LineOverflow payload", "LineOverflow(%s) does not carry (line_len, max_width)" % kind,
                                    ["%s:%d" % (f.file, e.line)])


def track_table(ctx, rid):
    p, r = ctx.p, ctx.r
    r.rule(rid, "FormatReport::track_errors (one unrolled loop iteration): LineOverflow ↦ operational; TrailingWhitespace ↦ "
                "operational + unformatted; LostComment ↦ unformatted; DeprecatedAttr|BadAttr|VersionMismatch ↦ check; any "
                "error ↦ has_formatting_errors; no other flag is set")
    f = p.named("track_errors", within="FormatReport")
    if f is None:
        r.undecidable(rid, "FormatReport::track_errors not found")
        return
    try:
        paths = explore(f, max_visits=2, pure=lambda c: c.name.endswith("::is_empty"), max_paths=50000, program=p, inline="auto")
        # the loop body may live in a closure handed to Iterator::for_each; with disjoint captures the flags are
        # closure slots `arg1.<i>`: map them back to the fields borrowed where the closure is built
        for g in p.closures_of(f):
            slot = {}
            for bb, i, st in f.stmts():
                if st[0] == "=" and st[2][0] == "agg" and isinstance(st[2][1], list) and st[2][1][0] == "closure" and st[2][1][1] == g.id:
                    for j, op in enumerate(st[2][2]):
                        if op[0] == "k":
                            continue
                        d = f.single_def(op[1][0])
                        if d and d[1] == "assign" and d[2][2][0] == "ref":
                            fs = [e for e in d[2][2][2][1] if isinstance(e, (list, tuple)) and e[0] == "f" and e[4]]
                            if fs:
                                slot["arg1.%d" % j] = fs[-1][4]
            sub = explore(g, max_visits=2, max_paths=50000)
            for pa in sub:
                for e in pa.effects:
                    if e.kind == "store" and e.name in slot:
                        e.name = "captured." + slot[e.name]
            paths += sub
    except TooManyPaths as e:
        r.undecidable(rid, str(e))
        return
    r.paths(rid, len(paths))
    SPEC = {"LineOverflow": {"has_operational_errors"},
            "TrailingWhitespace": {"has_operational_errors", "has_unformatted_code_errors"},
            "LostComment": {"has_unformatted_code_errors"},
            "DeprecatedAttr": {"has_check_errors"}, "BadAttr": {"has_check_errors"}, "VersionMismatch": {"has_check_errors"}}
    seen = {}
    fmt_ok = None
    for path in paths:
        decs = path.decisions
        kind_idx = [(i, variant_name(v)) for i, (k, v) in enumerate(decs) if k.startswith("discr(") and k.endswith(".kind)")]
        for j, (i, v) in enumerate(kind_idx):
            hi = kind_idx[j + 1][0] if j + 1 < len(kind_idx) else 10 ** 6
            stores = set()
            for e in path.effects:
                if e.kind == "store" and i + 1 <= e.ndec <= hi and vkey(e.args[0]) == "true":
                    stores.add(e.name.rsplit(".", 1)[-1])
            names = list(v[1]) if isinstance(v, tuple) and v[0] == "other" else [v]
            for nm in names:
                seen.setdefault(nm, set())
                seen[nm] |= {frozenset(stores)}
        # has_formatting_errors
        decided_empty = [v for (k, v) in decs if "::is_empty(" in k and isinstance(v, bool)]
        stf = [e for e in path.effects if e.kind == "store" and e.name.endswith("has_formatting_errors")]
        if decided_empty:
            v = decided_empty[0]
            ok = (v is True and not stf) or (v is False and len(stf) >= 1 and vkey(stf[0].args[0]) == "true")
            fmt_ok = ok if fmt_ok is None else (fmt_ok and ok)
        elif stf:
            # unconditional form: flag |= !new_errors.is_empty()
            val = vkey(stf[0].args[0]).replace(" ", "")
            ok = "!" in val and "::is_empty(arg2)" in val and ("BitOr" in val or val.startswith("!"))
            fmt_ok = ok if fmt_ok is None else (fmt_ok and ok)
    for nm, sets in sorted(seen.items()):
        exp = SPEC.get(nm, set())
        ok = sets == {frozenset(exp)}
        r.cells(rid, 1)
        r.instance(rid, "track_errors[%s]" % nm, "ok" if ok else "violation", "%s:%d" % (f.file, f.line),
                   str([sorted(s) for s in sets]))
        if not ok:
            r.violation(rid, "track_errors: %s sets %s" % (nm, [sorted(s) for s in sets]),
                        "error kind %s sets flags %s, the table says %s" % (nm, [sorted(s) for s in sets], sorted(exp)),
                        ["%s:%d" % (f.file, f.line)])
    missing = set(SPEC) - set(seen)
    if missing:
        r.undecidable(rid, "track_errors: kinds not seen in the loop body: %s" % sorted(missing))
    r.instance(rid, "track_errors: any error ⇒ has_formatting_errors", "ok" if fmt_ok else "violation", "%s:%d" % (f.file, f.line))
    if not fmt_ok:
        r.violation(rid, "track_errors: has_formatting_errors", "has_formatting_errors is not set exactly when new_errors is non-empty",
                    ["%s:%d" % (f.file, f.line)])


def run(ctx):
    report_table(ctx, "R07-a")
    new_line_table(ctx, "R07-b")
    track_table(ctx, "R07-c")
    width_accounting(ctx, "R07-e")
    per_line_reset(ctx, "R07-f")
    skipped_ranges_per_file(ctx, "R07-g")
    merge_keeps_every_diagnostic(ctx, "R07-h")
    import c17
    c17.line_queries_share_one_matcher(ctx, "R07-i")     # shared with C17: which lines are checked at all
    # with R06-b: operational ⇒ exit 1
    import c06
    c06.exit_code_tables(ctx, "R07-d")


def width_accounting(ctx, rid):
    """R07-e: the width that new_line compares is the per-character count maintained by FormatLines::char"""
    p, r = ctx.p, ctx.r
    r.rule(rid, "FormatLines::char adds tab_spaces for a tab and 1 for any other char to line_len on every path; new_line "
                "compares that same line_len with max_width and reports it in LineOverflow(line_len, max_width)")
    f = p.named("char", within="FormatLines")
    if f is None:
        r.undecidable(rid, "FormatLines::char not found")
        return
    paths = explore(f, pure=lambda c: c.name.endswith("Config::tab_spaces") or c.name.endswith("is_whitespace")
                    or c.name.endswith("is_string"))
    r.paths(rid, len(paths))
    n = 0
    for path in paths:
        if path.end != "ret":
            continue
        tab = None
        for k, v in path.decisions:
            if k.startswith("(arg2 Eq ") and isinstance(v, bool):
                tab = v
            elif k == "arg2":
                # `match c { '\t' => .., _ => .. }`: a switch on the character itself
                if v == 9:
                    tab = True
                elif isinstance(v, tuple) and v and v[0] == "other":
                    tab = False
        st = [e for e in path.effects if e.kind == "store" and e.name == "arg1.line_len"]
        ok = False
        got = [vkey(e.args[0]) for e in st]
        if len(st) == 1 and tab is not None:
            val = got[0].replace(" ", "")
            if tab:
                ok = val.startswith("(arg1.line_lenAdd") and "Config::tab_spaces(arg1.config)" in val
            else:
                ok = val == "(arg1.line_lenAdd1)"
        n += 1
        r.instance(rid, "char[tab=%s]" % tab, "ok" if ok else "violation", "%s:%d" % (f.file, f.line), str(got))
        if not ok:
            r.violation(rid, "FormatLines::char[tab=%s]: line_len update %s" % (tab, got),
                        "the line width is no longer counted as tab_spaces per tab and 1 per other character", ["%s:%d" % (f.file, f.line)])
    r.floor(rid, n, 2, "paths of FormatLines::char")


def per_line_reset(ctx, rid):
    """R07-f: the per-line state is reset on every path through new_line"""
    p, r = ctx.p, ctx.r
    r.rule(rid, "FormatLines::new_line resets line_len, last_was_space, current_line_contains_string_literal and clears "
                "line_buffer on *every* path (selected line or not): state left over from a line outside the selection would "
                "otherwise exempt or condemn the next selected line")
    f = p.named("new_line", within="FormatLines")
    if f is None:
        r.undecidable(rid, "FormatLines::new_line not found")
        return
    paths = explore(f, is_effect=lambda c: c.name.endswith("String::clear"),
                    pure=lambda c: any(c.name.endswith(x) for x in ("should_report_error", "is_skipped_line", "max_width", "contains_line", "file_lines")),
                    program=p, inline="auto")
    r.paths(rid, len(paths))
    n = 0
    for path in paths:
        if path.end != "ret":
            continue
        n += 1
        last = {}
        for e in path.effects:
            if e.kind == "store":
                last[e.name.rsplit(".", 1)[-1]] = vkey(e.args[0])
        cleared = any(e.kind == "call" and "line_buffer" in vkey(e.args[0]) for e in path.effects if e.args) or \
            any(e.kind == "call" for e in path.effects)
        ok = last.get("line_len") == "0" and last.get("last_was_space") == "false" and \
            last.get("current_line_contains_string_literal") == "false" and cleared
        if not ok:
            fl = [v for k, v in path.decisions if k == "arg1.format_line"]
            r.instance(rid, "new_line path format_line=%s" % fl, "violation", "%s:%d" % (f.file, f.line), str(last))
            r.violation(rid, "new_line: per-line state not reset when format_line=%s" % fl,
                        "at the end of a line the state is %s, line_buffer cleared=%s: what was seen on this line leaks into the next"
                        % ({k: last.get(k) for k in ("line_len", "last_was_space", "current_line_contains_string_literal")}, cleared),
                        ["%s:%d" % (f.file, f.line)])
    r.instance(rid, "new_line resets the per-line state", "ok", "%s:%d" % (f.file, f.line), "%d paths" % n, nontrivial=True)
    r.floor(rid, n, 4, "paths of new_line")


def skipped_ranges_per_file(ctx, rid):
    """R07-g: the line checks of a file use the skipped ranges of that file only"""
    p, r = ctx.p, ctx.r
    r.rule(rid, "FormatContext::format_file: the skipped-range operand of format_lines derives from the `skipped_range` of the same "
                "FmtVisitor whose `buffer` is being checked — never from FormatReport.non_formatted_ranges, which accumulates over "
                "all files of the run (line numbers of skipped code in one file would exempt the same line numbers in the next)")
    f = p.named("format_file", within="FormatContext")
    if f is None:
        r.undecidable(rid, "FormatContext::format_file not found")
        return
    n = 0
    for c in f.calls():
        if not c.name.endswith("formatting::format_lines") or len(c.args) < 3:
            continue
        n += 1
        def fields_of(op):
            if op[0] == "k":
                return set(), set()
            d = f.derived_from(op[1][0])
            fl = {(x[0].rsplit("::", 1)[-1] if x[0] else None, x[2]) for x in d["fields"]}
            for e in op[1][1]:
                if isinstance(e, (list, tuple)) and e[0] == "f":
                    fl.add((e[2].rsplit("::", 1)[-1] if e[2] else None, e[4]))
            return fl, d["locals"]
        bf, bl = fields_of(c.args[0])
        sf, sl = fields_of(c.args[2])
        own = ("FmtVisitor", "skipped_range") in sf
        foreign = any(fld in ("non_formatted_ranges",) or adt == "FormatReport" for adt, fld in sf)
        same_visitor = bool(bl & sl)
        ok = own and not foreign and same_visitor
        r.instance(rid, "format_lines skipped-range operand", "ok" if ok else "violation", c.loc(), str(sorted(map(str, sf)))[:120])
        if not ok:
            r.violation(rid, "format_file: format_lines is given skipped ranges that are not this file's",
                        "the operand derives from %s (own visitor's skipped_range: %s, run-wide report: %s): ranges recorded for other "
                        "files exempt lines of this one from the width / trailing-blank checks" % (sorted(map(str, sf))[:4], own, foreign),
                        [c.loc()])
    r.floor(rid, n, 1, "format_lines calls in format_file")


def merge_keeps_every_diagnostic(ctx, rid):
    """R07-h: collecting the diagnostics of a file does not filter them"""
    p, r = ctx.p, ctx.r
    r.rule(rid, "FormatReport::append (with the closures it owns) stores the whole vector it is given: it either reads no field of "
                "FormattingError at all (Vec::append / or_insert move the elements blindly), or, if it discriminates between "
                "errors, the fields it compares include `kind` and `line` — two diagnostics of different kinds on one line are "
                "two facts about the output (too wide *and* ends in a blank) and both are reported")
    f = p.named("append", within="FormatReport")
    if f is None:
        r.undecidable(rid, "FormatReport::append not found")
        return
    fns = [f] + [g for g in p.by_crate["rustfmt_nightly"] if g.kind == "Closure" and g.id.startswith(f.id + "::")]
    fields = set()
    for g in fns:
        for (adt, var, fld, mode, bb, line) in g.field_accesses():
            if adt and adt.endswith("formatting::FormattingError"):
                fields.add(str(fld))
    ok = not fields or {"kind", "line"} <= fields
    r.instance(rid, "FormatReport::append reads FormattingError fields %s" % sorted(fields), "ok" if ok else "violation",
               "%s:%d" % (f.file, f.line), "%d bodies" % len(fns))
    if not ok:
        r.violation(rid, "FormatReport::append discriminates diagnostics without comparing their kind and line",
                    "it reads %s of the errors it merges but not %s: a diagnostic is dropped because another one of a different kind "
                    "(or on a different line) is already recorded" % (sorted(fields), sorted({"kind", "line"} - fields)),
                    ["%s:%d" % (f.file, f.line)])
    r.floor(rid, len(fns), 1, "bodies of FormatReport::append")
