"""Program model over the rfx facts: functions, CFGs, call graph (A1), dominance / reachability (A2),
field-access sets (A4), derived-from (A6), effect classes (A8)."""
import json
import os
import re
from collections import defaultdict, deque


# ---------------------------------------------------------------------------------------------
# helpers on the JSON encodings

def place_key(p):
    """stable string for a place: _3.f1.*"""
    loc, proj = p
    s = "_%d" % loc
    for e in proj:
        s += "." + proj_key(e)
    return s


def proj_key(e):
    if isinstance(e, str):
        return e
    e = list(e)
    if e[0] == "f":
        return "%s" % (e[4] if e[4] is not None else e[1])
    if e[0] == "d":
        return "as:" + e[1]
    return "?"


def op_place(op):
    return op[1] if op[0] in ("c", "m") else None


def op_local(op):
    """local if the operand is a bare local"""
    if op[0] in ("c", "m") and not op[1][1]:
        return op[1][0]
    return None


def op_const(op):
    return op[2] if op[0] == "k" else None


def short(path):
    """strip generic noise for display"""
    return re.sub(r"rustfmt_nightly::", "", path)


class Call:
    __slots__ = ("fn", "bb", "callee", "args", "dest", "target", "unwind", "line", "expn", "ordinal")

    def __init__(self, fn, bb, t):
        self.fn = fn
        self.bb = bb
        self.callee = t[1]
        self.args = t[2]
        self.dest = t[3]
        self.target = t[4]
        self.unwind = t[5]
        self.line = t[6]
        self.expn = t[7]
        self.ordinal = 0

    @property
    def resolved(self):
        return self.callee.get("r")

    @property
    def declared(self):
        return self.callee.get("d")

    @property
    def name(self):
        """best available callee name"""
        return self.callee.get("r") or self.callee.get("d") or "<fnptr>"

    @property
    def refs(self):
        return self.callee.get("refs") or []

    @property
    def ga(self):
        return self.callee.get("ga") or []

    def loc(self):
        return "%s:%s" % (self.fn.file, self.line)

    def key(self):
        return "%s -> %s #%d" % (self.fn.id, self.name, self.ordinal)

    def __repr__(self):
        return "<call %s @bb%d %s>" % (self.name, self.bb, self.loc())


class Fn:
    def __init__(self, rec, crate):
        self.rec = rec
        self.crate = crate
        self.id = rec["id"]
        self.kind = rec["dk"]
        self.name = rec.get("name")
        self.root = rec.get("root")
        self.file = rec["file"]
        self.line = rec["line"]
        self.vis = rec["vis"]
        self.impl = rec["impl"]
        self.argc = rec["argc"]
        self.locals = rec["locals"]
        self.blocks = rec["blocks"]
        self.promoted = rec.get("promoted") or []
        self._calls = None
        self._succ = {}
        self._defs = None
        self.local_names = {}
        for k, v in rec.get("names", {}).items():
            loc = k.split("#")[0]
            if not loc.endswith("+"):
                self.local_names.setdefault(int(loc), v)

    def __repr__(self):
        return "<fn %s>" % self.id

    # -- CFG -------------------------------------------------------------------------------
    def term(self, bb):
        return self.blocks[bb]["t"]

    def is_cleanup(self, bb):
        return self.blocks[bb]["c"] == 1

    def succ(self, bb, unwind=False):
        key = (bb, unwind)
        r = self._succ.get(key)
        if r is not None:
            return r
        t = self.blocks[bb]["t"]
        k = t[0]
        out = []
        if k == "goto":
            out = [t[1]]
        elif k == "switch":
            out = [x[1] for x in t[2]] + [t[3]]
        elif k == "drop":
            out = [t[2]] + ([t[3]] if unwind and t[3] is not None else [])
        elif k == "call":
            if t[4] is not None:
                out.append(t[4])
            if unwind and t[5] is not None:
                out.append(t[5])
        elif k == "assert":
            out = [t[4]] + ([t[5]] if unwind and t[5] is not None else [])
        elif k == "other":
            out = list(t[2])
        # dedupe, keep order
        seen = set()
        res = []
        for x in out:
            if x not in seen:
                seen.add(x)
                res.append(x)
        self._succ[key] = res
        return res

    def preds(self, unwind=False):
        p = defaultdict(list)
        for b in range(len(self.blocks)):
            for s in self.succ(b, unwind):
                p[s].append(b)
        return p

    def calls(self):
        if self._calls is None:
            cs = []
            counts = defaultdict(int)
            for bb, b in enumerate(self.blocks):
                t = b["t"]
                if t[0] == "call":
                    c = Call(self, bb, t)
                    n = c.name
                    c.ordinal = counts[n]
                    counts[n] += 1
                    cs.append(c)
            self._calls = cs
        return self._calls

    def calls_to(self, pred):
        """calls whose resolved-or-declared name satisfies pred (a str → exact/suffix match, or callable)"""
        return [c for c in self.calls() if match_name(c, pred)]

    def call_at(self, bb):
        for c in self.calls():
            if c.bb == bb:
                return c
        return None

    def returns(self):
        return [i for i, b in enumerate(self.blocks) if b["t"][0] == "ret"]

    def reachable(self, start, avoid_blocks=(), avoid_edges=(), unwind=False, stop_blocks=()):
        """blocks reachable from start (inclusive) without entering avoid_blocks / using avoid_edges.
        stop_blocks are included but not expanded."""
        avoid_blocks = set(avoid_blocks)
        avoid_edges = set(avoid_edges)
        stop_blocks = set(stop_blocks)
        if start in avoid_blocks:
            return set()
        seen = {start}
        dq = deque([start])
        while dq:
            b = dq.popleft()
            if b in stop_blocks:
                continue
            for s in self.succ(b, unwind):
                if s in seen or s in avoid_blocks or (b, s) in avoid_edges:
                    continue
                seen.add(s)
                dq.append(s)
        return seen

    def dominators(self, unwind=False):
        """dom[b] = set of blocks dominating b (only for blocks reachable from entry)"""
        reach = self.reachable(0, unwind=unwind)
        preds = self.preds(unwind)
        order = sorted(reach)
        dom = {b: set(reach) for b in order}
        dom[0] = {0}
        changed = True
        while changed:
            changed = False
            for b in order:
                if b == 0:
                    continue
                ps = [p for p in preds[b] if p in reach]
                if not ps:
                    continue
                new = set.intersection(*[dom[p] for p in ps]) | {b}
                if new != dom[b]:
                    dom[b] = new
                    changed = True
        return dom

    def sccs(self, unwind=False):
        """Tarjan SCCs over the normal CFG; returns list of sets with size>1 or self loops (= loops)"""
        index = {}
        low = {}
        stack = []
        onstack = set()
        res = []
        idx = [0]
        import sys
        sys.setrecursionlimit(10000)

        def strong(v):
            index[v] = low[v] = idx[0]
            idx[0] += 1
            stack.append(v)
            onstack.add(v)
            for w in self.succ(v, unwind):
                if w not in index:
                    strong(w)
                    low[v] = min(low[v], low[w])
                elif w in onstack:
                    low[v] = min(low[v], index[w])
            if low[v] == index[v]:
                comp = set()
                while True:
                    w = stack.pop()
                    onstack.discard(w)
                    comp.add(w)
                    if w == v:
                        break
                if len(comp) > 1 or v in self.succ(v, unwind):
                    res.append(comp)

        for v in sorted(self.reachable(0, unwind=unwind)):
            if v not in index:
                strong(v)
        return res

    # -- statements / def-use -----------------------------------------------------------------
    def stmts(self):
        for bb, b in enumerate(self.blocks):
            for i, s in enumerate(b["s"]):
                yield bb, i, s

    def defs(self):
        """local -> list of (bb, kind, payload): kind in 'assign' (rvalue), 'call' (Call)"""
        if self._defs is None:
            d = defaultdict(list)
            for bb, i, s in self.stmts():
                if s[0] == "=":
                    d[s[1][0]].append((bb, "assign" if not s[1][1] else "partial", s))
            for c in self.calls():
                d[c.dest[0]].append((c.bb, "call" if not c.dest[1] else "partial", c))
            self._defs = d
        return self._defs

    def single_def(self, local):
        ds = [x for x in self.defs().get(local, [])]
        if len(ds) == 1 and ds[0][1] in ("assign", "call"):
            return ds[0]
        return None

    def derived_from(self, local, max_steps=2000, stop_calls=None):
        """A6: the set of (kind, payload) sources local is computed from, following assignments and
        call operands backwards within this body.  Returns (locals, calls, consts, fields)."""
        seen = set()
        calls = []
        consts = []
        fields = []
        args = set()
        work = [local]
        steps = 0
        while work and steps < max_steps:
            steps += 1
            l = work.pop()
            if l in seen:
                continue
            seen.add(l)
            if 1 <= l <= self.argc:
                args.add(l)
            for bb, kind, payload in self.defs().get(l, []):
                if kind in ("assign", "partial") and not isinstance(payload, Call):
                    rv = payload[2]
                    for op in rvalue_operands(rv):
                        if op[0] == "k":
                            consts.append(op)
                        else:
                            work.append(op[1][0])
                            for e in op[1][1]:
                                if isinstance(e, list) and e[0] == "f":
                                    fields.append((e[2], e[3], e[4]))
                    for pl in rvalue_places(rv):
                        work.append(pl[0])
                        for e in pl[1]:
                            if isinstance(e, list) and e[0] == "f":
                                fields.append((e[2], e[3], e[4]))
                else:
                    c = payload
                    calls.append(c)
                    if stop_calls is not None and stop_calls(c):
                        continue
                    for op in c.args:
                        if op[0] == "k":
                            consts.append(op)
                        else:
                            work.append(op[1][0])
                            for e in op[1][1]:
                                if isinstance(e, list) and e[0] == "f":
                                    fields.append((e[2], e[3], e[4]))
        return {"locals": seen, "calls": calls, "consts": consts, "fields": fields, "args": args}

    def field_accesses(self):
        """yield (adt, variant, field, mode, bb, line) for every Field projection; mode r|w"""
        for bb, i, s in self.stmts():
            if s[0] != "=":
                continue
            line = s[3]
            # destination
            for e in s[1][1]:
                pass
            dest_fields = [e for e in s[1][1] if isinstance(e, list) and e[0] == "f" and e[2]]
            if dest_fields:
                # every field on the path to the written location is modified (and traversed)
                for e in dest_fields[:-1]:
                    yield (e[2], e[3], e[4], "r", bb, line)
                    yield (e[2], e[3], e[4], "w", bb, line)
                e = dest_fields[-1]
                yield (e[2], e[3], e[4], "w", bb, line)
            rv = s[2]
            mode = "r"
            if rv[0] == "ref" and rv[1] == "mut":
                mode = "w"
            for pl in rvalue_places(rv):
                fs = [e for e in pl[1] if isinstance(e, list) and e[0] == "f" and e[2]]
                for j, e in enumerate(fs):
                    if j < len(fs) - 1:
                        yield (e[2], e[3], e[4], "r", bb, line)
                    if mode == "w" or j == len(fs) - 1:
                        yield (e[2], e[3], e[4], mode, bb, line)
            for op in rvalue_operands(rv):
                if op[0] in ("c", "m"):
                    for e in op[1][1]:
                        if isinstance(e, list) and e[0] == "f" and e[2]:
                            yield (e[2], e[3], e[4], "r", bb, line)
        for bb, b in enumerate(self.blocks):
            t = b["t"]
            ops = []
            line = 0
            if t[0] == "call":
                ops = list(t[2])
                line = t[6]
                for e in t[3][1]:
                    if isinstance(e, list) and e[0] == "f" and e[2]:
                        yield (e[2], e[3], e[4], "w", bb, line)
            elif t[0] == "switch":
                ops = [t[1]]
            elif t[0] == "assert":
                ops = [t[1]]
            for op in ops:
                if op[0] in ("c", "m"):
                    for e in op[1][1]:
                        if isinstance(e, list) and e[0] == "f" and e[2]:
                            yield (e[2], e[3], e[4], "r", bb, line)


def rvalue_operands(rv):
    k = rv[0]
    if k in ("use", "repeat"):
        return [rv[1]]
    if k == "bin":
        return [rv[2], rv[3]]
    if k == "un":
        return [rv[2]]
    if k == "agg":
        return list(rv[2])
    if k == "cast":
        return [rv[2]]
    return []


def rvalue_places(rv):
    k = rv[0]
    if k == "ref":
        return [rv[2]]
    if k == "addr":
        return [rv[2]]
    if k in ("discr", "len", "cfd"):
        return [rv[1]]
    return []


def match_name(call_or_name, pred):
    """pred: str → equal, or 'suffix match on ::' ; tuple/list → any; callable → pred(name)"""
    if isinstance(call_or_name, Call):
        names = [n for n in (call_or_name.resolved, call_or_name.declared) if n]
    else:
        names = [call_or_name]
    if callable(pred):
        return any(pred(n) for n in names)
    if isinstance(pred, (list, tuple, set, frozenset)):
        return any(match_name(call_or_name, p) for p in pred)
    for n in names:
        if n == pred or n.endswith("::" + pred):
            return True
    return False


# ---------------------------------------------------------------------------------------------

class Program:
    def __init__(self, facts_dir):
        self.dir = facts_dir
        self.fns = {}
        self.by_crate = defaultdict(list)
        self.adts = {}
        self.impls = []
        self.statics = []
        self.hir = defaultdict(list)
        self.crates = {}
        self.stats = {}
        self.dup_ids = []
        for f in sorted(os.listdir(facts_dir)):
            if not f.endswith(".jsonl"):
                continue
            crate = f[:-6]
            with open(os.path.join(facts_dir, f)) as fh:
                for line in fh:
                    r = json.loads(line)
                    k = r["k"]
                    if k == "fn":
                        fn = Fn(r, crate)
                        if fn.id in self.fns:
                            self.dup_ids.append(fn.id)
                            n = 2
                            while "%s#%d" % (fn.id, n) in self.fns:
                                n += 1
                            fn.id = "%s#%d" % (fn.id, n)
                        self.fns[fn.id] = fn
                        self.by_crate[crate].append(fn)
                    elif k == "adt":
                        self.adts.setdefault(r["id"], r)
                    elif k == "impl":
                        r["crate"] = crate
                        self.impls.append(r)
                    elif k == "static":
                        r["crate"] = crate
                        self.statics.append(r)
                    elif k == "crate":
                        self.crates[crate] = r
                    elif k == "stats":
                        self.stats[crate] = r
                    else:
                        r["crate"] = crate
                        self.hir[k].append(r)
        self._callers = None
        self._edges = None
        self._trait_impls = None
        self._closure_sites = None

    # -- lookup ----------------------------------------------------------------------------------
    def fn(self, name, crate=None):
        """unique function whose id equals name or ends with ::name"""
        if name in self.fns:
            return self.fns[name]
        cands = [f for f in self.fns.values() if f.id.endswith("::" + name) and (crate is None or f.crate == crate)]
        if len(cands) == 1:
            return cands[0]
        if not cands:
            return None
        raise KeyError("ambiguous function %s: %s" % (name, [c.id for c in cands][:5]))

    def named(self, name, within=None, crate=None):
        """the unique non-closure function whose item name is `name` (optionally: id contains `within`)"""
        cands = [f for f in self.fns.values() if f.kind != "Closure" and f.name == name
                 and (within is None or within in f.id) and (crate is None or f.crate == crate)]
        if len(cands) == 1:
            return cands[0]
        return None

    def fns_matching(self, pred, crate=None):
        out = []
        for f in self.fns.values():
            if crate is not None and f.crate != crate:
                continue
            if (callable(pred) and pred(f.id)) or (isinstance(pred, str) and (f.id == pred or f.id.endswith("::" + pred))):
                out.append(f)
        return out

    def closures_of(self, fn):
        return [f for f in self.fns.values() if f.kind == "Closure" and f.root == fn.id]

    def body_family(self, fn):
        """fn plus all closures nested in it"""
        return [fn] + self.closures_of(fn)

    def all_calls(self, crate=None):
        for f in (self.by_crate[crate] if crate else self.fns.values()):
            for c in f.calls():
                yield c

    # -- A1 call graph -----------------------------------------------------------------------------
    def trait_impls(self):
        """(trait path, method name) -> [fn ids]"""
        if self._trait_impls is None:
            d = defaultdict(list)
            for im in self.impls:
                if im["trait"]:
                    for m, fid in im["methods"].items():
                        d[(im["trait"], m)].append(fid)
            # default methods in traits
            for f in self.fns.values():
                if f.impl and f.impl.get("default") and f.name:
                    d[(f.impl["trait"], f.name)].append(f.id)
            self._trait_impls = d
        return self._trait_impls

    def call_targets(self, c):
        """workspace function ids a call may enter: resolved callee, CHA expansion, higher-order refs"""
        out = []
        r = c.resolved
        if r and r in self.fns:
            out.append((r, "direct"))
        elif not r and c.declared:
            tr = c.callee.get("trait")
            if tr:
                m = c.declared.rsplit("::", 1)[-1]
                for fid in self.trait_impls().get((tr, m), []):
                    if fid in self.fns:
                        out.append((fid, "cha"))
        for ref in c.refs:
            if ref in self.fns and ref != r:
                out.append((ref, "higher-order"))
        # fn items / closures passed as constant operands
        for a in c.args:
            if a[0] == "k" and isinstance(a[2], dict) and "fn" in a[2]:
                if a[2]["fn"] in self.fns:
                    out.append((a[2]["fn"], "fn-arg"))
        return out

    def edges(self):
        """caller id -> list of (callee id, kind, Call or None)"""
        if self._edges is None:
            e = defaultdict(list)
            for f in self.fns.values():
                for c in f.calls():
                    for (t, kind) in self.call_targets(c):
                        e[f.id].append((t, kind, c))
                # closures constructed here (referenced where constructed)
                for bb, i, s in f.stmts():
                    if s[0] == "=" and s[2][0] == "agg" and isinstance(s[2][1], list) and s[2][1][0] == "closure":
                        cid = s[2][1][1]
                        if cid in self.fns:
                            e[f.id].append((cid, "constructs", None))
                    # fn items stored into locals
                    if s[0] == "=":
                        for op in rvalue_operands(s[2]):
                            if op[0] == "k" and isinstance(op[2], dict) and "fn" in op[2] and op[2]["fn"] in self.fns:
                                e[f.id].append((op[2]["fn"], "fn-value", None))
            self._edges = e
        return self._edges

    def callers(self):
        if self._callers is None:
            cs = defaultdict(list)
            for src, lst in self.edges().items():
                for (t, kind, c) in lst:
                    cs[t].append((src, kind, c))
            self._callers = cs
        return self._callers

    def reach_from(self, roots, follow=None):
        """set of fn ids reachable through the call graph from roots"""
        seen = set()
        dq = deque(r for r in roots if r in self.fns)
        seen.update(dq)
        e = self.edges()
        while dq:
            f = dq.popleft()
            for (t, kind, c) in e.get(f, []):
                if follow and not follow(f, t, kind, c):
                    continue
                if t not in seen:
                    seen.add(t)
                    dq.append(t)
        return seen

    def can_reach(self, targets, within=None):
        """set of fn ids from which some fn in targets is reachable (reverse reachability)"""
        seen = set(t for t in targets if t in self.fns)
        dq = deque(seen)
        cs = self.callers()
        while dq:
            f = dq.popleft()
            for (src, kind, c) in cs.get(f, []):
                if within is not None and src not in within:
                    continue
                if src not in seen:
                    seen.add(src)
                    dq.append(src)
        return seen

    def call_chain(self, root, target_pred, max_depth=12):
        """a shortest chain of call sites from root to a fn satisfying target_pred (for reports)"""
        prev = {root: None}
        dq = deque([root])
        e = self.edges()
        while dq:
            f = dq.popleft()
            if target_pred(f):
                chain = []
                cur = f
                while prev[cur] is not None:
                    p, c = prev[cur]
                    chain.append("%s -> %s%s" % (p, cur, (" @" + c.loc()) if c is not None else ""))
                    cur = p
                return list(reversed(chain))
            for (t, kind, c) in e.get(f, []):
                if t not in prev:
                    prev[t] = (f, c)
                    dq.append(t)
        return None

    # -- external calls by effect class (A8) ------------------------------------------------------
    def calls_matching(self, pred, crates=None):
        out = []
        for f in self.fns.values():
            if crates is not None and f.crate not in crates:
                continue
            for c in f.calls():
                if match_name(c, pred):
                    out.append(c)
        return out

    # -- A4 field reads -----------------------------------------------------------------------------
    def field_index(self):
        """(adt, variant, field) -> {mode -> set(fn ids)}"""
        if getattr(self, "_fidx", None) is None:
            idx = defaultdict(lambda: defaultdict(set))
            for f in self.fns.values():
                for (adt, var, field, mode, bb, line) in f.field_accesses():
                    idx[(adt, var, field)][mode].add(f.id)
            self._fidx = idx
        return self._fidx


# ---------------------------------------------------------------------------------------------
# boolean-result branch helpers

def bool_branches(fn, local, _depth=0):
    """Find switches deciding on bool local (through copies / Not).  Returns list of
    (switch_bb, true_target, false_target)."""
    out = []
    if _depth > 6:
        return out
    for bb, b in enumerate(fn.blocks):
        t = b["t"]
        if t[0] == "switch" and op_local(t[1]) == local:
            tgt0 = None
            for v, target in t[2]:
                if v == 0:
                    tgt0 = target
            if tgt0 is not None:
                out.append((bb, t[3], tgt0))
            else:
                # switch on value 1?
                for v, target in t[2]:
                    if v == 1:
                        out.append((bb, target, t[3]))
    # copies / negations
    for bb, i, s in fn.stmts():
        if s[0] != "=" or s[1][1]:
            continue
        rv = s[2]
        if rv[0] == "use" and op_local(rv[1]) == local:
            out += bool_branches(fn, s[1][0], _depth + 1)
        elif rv[0] == "un" and rv[1] == "Not" and op_local(rv[2]) == local:
            for (sb, t, f) in bool_branches(fn, s[1][0], _depth + 1):
                out.append((sb, f, t))
    return out


def discr_branches(fn, local, _depth=0):
    """Switches on the discriminant of enum-valued local (e.g. Option/Result/ControlFlow).
    Returns list of (switch_bb, {variant_name: target}, otherwise_target)."""
    out = []
    for bb, i, s in fn.stmts():
        if s[0] == "=" and s[2][0] == "discr" and s[2][1][0] == local and not s[1][1]:
            # allow projections like (*_5)? only direct local or deref
            if any(isinstance(e, list) for e in s[2][1][1]):
                continue
            dl = s[1][0]
            names = {str(v): n for v, n in s[2][3]}
            for sb, b in enumerate(fn.blocks):
                t = b["t"]
                if t[0] == "switch" and op_local(t[1]) == dl:
                    m = {}
                    for v, target in t[2]:
                        m[names.get(str(v), str(v))] = target
                    # otherwise: the remaining variants
                    rest = [n for vv, n in s[2][3] if n not in m]
                    other = t[3]
                    if len(rest) == 1 and fn.term(other)[0] != "unreachable":
                        m[rest[0]] = other
                        other = None
                    out.append((sb, m, other))
    return out


def local_origin(fn, local, _depth=0):
    """Where a (single-assignment) temporary comes from:
    ('field', place, lastfield) | ('call', Call) | ('not', origin) | ('discr', place, origin_of_base) |
    ('const', c) | ('bin', op, oa, ob) | ('arg', n) | ('unknown',)"""
    if _depth > 8:
        return ("unknown",)
    if 1 <= local <= fn.argc and not fn.defs().get(local):
        return ("arg", local)
    d = fn.single_def(local)
    if d is None:
        return ("unknown",)
    bb, kind, payload = d
    if kind == "call":
        return ("call", payload)
    rv = payload[2]
    if rv[0] in ("use", "cfd"):
        op = rv[1] if rv[0] == "use" else ["c", rv[1]]
        if op[0] == "k":
            return ("const", op[2])
        pl = op[1]
        if not pl[1]:
            return local_origin(fn, pl[0], _depth + 1)
        fs = [e for e in pl[1] if isinstance(e, list) and e[0] == "f"]
        return ("field", pl, fs[-1][4] if fs else None, fs[-1][2] if fs else None)
    if rv[0] == "un" and rv[1] == "Not":
        return ("not", operand_origin(fn, rv[2], _depth + 1))
    if rv[0] == "discr":
        return ("discr", rv[1], local_origin(fn, rv[1][0], _depth + 1) if not [e for e in rv[1][1] if isinstance(e, list)] else ("field", rv[1]), rv[3])
    if rv[0] == "bin":
        return ("bin", rv[1], operand_origin(fn, rv[2], _depth + 1), operand_origin(fn, rv[3], _depth + 1))
    if rv[0] == "ref":
        pl = rv[2]
        if not pl[1]:
            return ("ref", local_origin(fn, pl[0], _depth + 1))
        fs = [e for e in pl[1] if isinstance(e, list) and e[0] == "f"]
        return ("field", pl, fs[-1][4] if fs else None, fs[-1][2] if fs else None)
    if rv[0] == "cast":
        return operand_origin(fn, rv[2], _depth + 1)
    return ("unknown",)


def operand_origin(fn, op, _depth=0):
    if op[0] == "k":
        return ("const", op[2])
    pl = op[1]
    if not pl[1]:
        return local_origin(fn, pl[0], _depth)
    fs = [e for e in pl[1] if isinstance(e, list) and e[0] == "f"]
    return ("field", pl, fs[-1][4] if fs else None, fs[-1][2] if fs else None)


def switch_origin(fn, bb):
    t = fn.term(bb)
    if t[0] != "switch":
        return None
    return operand_origin(fn, t[1])


def switch_true_false(fn, bb):
    """for a bool switch: (true_target, false_target) else None"""
    t = fn.term(bb)
    if t[0] != "switch" or t[4] != "bool":
        return None
    for v, tg in t[2]:
        if v == 0:
            return (t[3], tg)
        if v == 1:
            return (tg, t[3])
    return None


# ---------------------------------------------------------------------------------------------
# Result / Option edges of a call, `?` included

def _moves_of(fn, local):
    """locals that receive `local` by plain move/copy (one step)"""
    out = []
    for bb, i, s in fn.stmts():
        if s[0] == "=" and not s[1][1] and s[2][0] == "use" and op_local(s[2][1]) == local:
            out.append(s[1][0])
    return out


def result_edges(fn, call):
    """For a call returning Result/Option: list of dicts {sw, ok, err} (blocks) for every switch deciding on
    its result, either directly (match / if let) or through `?` (Try::branch)."""
    out = []
    if call.dest[1]:
        return out
    d = call.dest[0]
    cands = [d] + _moves_of(fn, d)
    seen = set()
    for loc in cands:
        if loc in seen:
            continue
        seen.add(loc)
        for (sw, m, other) in discr_branches(fn, loc):
            ok = m.get("Ok", m.get("Some"))
            err = m.get("Err", m.get("None"))
            if ok is None and other is not None and err is not None:
                ok = other
            if err is None and other is not None and ok is not None:
                err = other
            out.append({"sw": sw, "ok": ok, "err": err, "via": "match"})
        # through `?`
        for c in fn.calls():
            if c.declared == "std::ops::Try::branch" and c.args and op_local(c.args[0]) == loc and not c.dest[1]:
                for (sw, m, other) in discr_branches(fn, c.dest[0]):
                    ok = m.get("Continue")
                    err = m.get("Break")
                    if ok is None and other is not None:
                        ok = other
                    if err is None and other is not None:
                        err = other
                    out.append({"sw": sw, "ok": ok, "err": err, "via": "?"})
    return out


def edge_dominates(fn, edge, block):
    """every path from entry to `block` uses edge (u,v)"""
    if block not in fn.reachable(0):
        return True
    return block not in fn.reachable(0, avoid_edges=[edge])


def blocks_dominate(fn, blocks, block):
    """every path from entry to `block` passes through one of `blocks`"""
    if block in blocks:
        return True
    return block not in fn.reachable(0, avoid_blocks=blocks)


def natural_loops(fn):
    """[(header, body set)] from back edges u→h with h dominating u (nested loops are separate entries)"""
    out = {}
    dom = fn.dominators()
    preds = fn.preds()
    for u in dom:
        for h in fn.succ(u):
            if h in dom[u]:
                body = {h}
                work = [u]
                while work:
                    x = work.pop()
                    if x in body:
                        continue
                    body.add(x)
                    work.extend(preds[x])
                out.setdefault(h, set()).update(body)
    return sorted(out.items())


def loops_of(fn):
    """natural loops as SCCs of the non-cleanup CFG, each with its exit edges"""
    res = []
    for comp in fn.sccs():
        exits = []
        for u in comp:
            for v in fn.succ(u):
                if v not in comp and fn.term(v)[0] != "unreachable":
                    exits.append((u, v))
        res.append({"blocks": comp, "exits": exits})
    return res


# ---------------------------------------------------------------------------------------------
# loop-carried locals (state that survives from one iteration to the next)

def _block_use_def(fn, bb):
    """(uses-before-def, defs) of whole locals in one block, in statement order"""
    uses, defs = set(), set()

    def use(l):
        if l not in defs:
            uses.add(l)

    def use_op(op):
        if op[0] in ("c", "m"):
            use(op[1][0])

    b = fn.blocks[bb]
    for s in b["s"]:
        if s[0] != "=":
            continue
        rv = s[2]
        for op in rvalue_operands(rv):
            use_op(op)
        for pl in rvalue_places(rv):
            use(pl[0])
            if rv[0] in ("ref", "addr") and rv[1] in ("mut", "Mut"):
                defs.add(pl[0]) if False else None
        dst = s[1]
        if dst[1]:
            use(dst[0])          # partial write / write through a pointer reads the base
        else:
            defs.add(dst[0])
    t = b["t"]
    if t[0] == "call":
        for a in t[2]:
            use_op(a)
        if t[3][1]:
            use(t[3][0])
        else:
            defs.add(t[3][0])
    elif t[0] in ("switch", "assert"):
        use_op(t[1])
    elif t[0] == "drop":
        use(t[1][0])
    return uses, defs


def loop_carried(fn, loop_blocks, header):
    """locals assigned inside the loop whose value (possibly from a previous iteration) is read in the loop before being
    reassigned on some path from the header.  &mut borrows count as reads of the previous value and as writes."""
    ud = {bb: _block_use_def(fn, bb) for bb in loop_blocks}
    # locals mutated through &mut borrows taken in the loop
    mut_borrowed = set()
    for bb in loop_blocks:
        for s in fn.blocks[bb]["s"]:
            if s[0] == "=" and s[2][0] in ("ref", "addr") and s[2][1] in ("mut", "Mut"):
                mut_borrowed.add(s[2][2][0])
    livein = {bb: set() for bb in loop_blocks}
    changed = True
    while changed:
        changed = False
        for bb in loop_blocks:
            out = set()
            for s in fn.succ(bb):
                if s in loop_blocks:
                    out |= livein[s]
            uses, defs = ud[bb]
            new = uses | (out - defs)
            if new != livein[bb]:
                livein[bb] = new
                changed = True
    defs_in_loop = set()
    for bb in loop_blocks:
        defs_in_loop |= ud[bb][1]
    defs_in_loop |= mut_borrowed
    return livein.get(header, set()) & defs_in_loop


# ---------------------------------------------------------------------------------------------
# path-insensitive value numbering of single-assignment temporaries

def expr_key(fn, op, depth=0, _memo=None):
    """A syntactic key of the value an operand holds: two operands with the same key were computed by the same expression
    from the same inputs (calls are taken as functions of their arguments — use only for getters / constructors).
    Locals with several definitions are their own key."""
    memo = fn.__dict__.setdefault("_expr_keys", {})
    if op[0] == "k":
        return "k:%s" % (op[2],)
    pl = op[1]
    base = _local_key(fn, pl[0], memo, set())
    for e in pl[1]:
        if isinstance(e, (list, tuple)):
            if e[0] == "f":
                base += ".%s" % (e[4] if e[4] is not None else e[1])
            else:
                base += ".%s" % (e[0],)
        elif e == "*":
            pass
        else:
            base += ".%s" % (e,)
    return base


def _place_key(fn, pl, memo, busy):
    base = _local_key(fn, pl[0], memo, busy)
    for e in pl[1]:
        if isinstance(e, (list, tuple)):
            base += ".%s" % ((e[4] if e[4] is not None else e[1]) if e[0] == "f" else e[0])
        elif e != "*":
            base += ".%s" % (e,)
    return base


def _op_key(fn, op, memo, busy):
    if op[0] == "k":
        return "k:%s" % (op[2],)
    return _place_key(fn, op[1], memo, busy)


def _local_key(fn, l, memo, busy):
    if l in memo:
        return memo[l]
    if l in busy:
        return "_%d" % l
    if 1 <= l <= fn.argc and not fn.defs().get(l):
        memo[l] = "arg%d" % l
        return memo[l]
    d = fn.single_def(l)
    if d is None:
        memo[l] = "_%d" % l
        return memo[l]
    busy = busy | {l}
    bb, kind, payload = d
    k = "_%d" % l
    if kind == "call":
        c = payload
        k = "%s(%s)" % (short(c.name), ",".join(_op_key(fn, a, memo, busy) for a in c.args))
    else:
        rv = payload[2]
        if rv[0] == "use":
            k = _op_key(fn, rv[1], memo, busy)
        elif rv[0] == "cfd":
            k = _place_key(fn, rv[1], memo, busy)
        elif rv[0] == "ref":
            k = _place_key(fn, rv[2], memo, busy)
        elif rv[0] == "bin":
            k = "(%s %s %s)" % (_op_key(fn, rv[2], memo, busy), rv[1].replace("WithOverflow", ""), _op_key(fn, rv[3], memo, busy))
        elif rv[0] == "agg" and isinstance(rv[2], list):
            kind_ = rv[1] if isinstance(rv[1], str) else ":".join(str(x) for x in rv[1][:2])
            if not (isinstance(rv[1], list) and rv[1][0] == "closure"):
                k = "%s[%s]" % (kind_, ",".join(_op_key(fn, a, memo, busy) for a in rv[2]))
        elif rv[0] == "cast":
            ops = [x for x in rv[1:] if isinstance(x, list) and x and x[0] in ("c", "m", "k")]
            if ops:
                k = _op_key(fn, ops[0], memo, busy)
    memo[l] = k
    return k


# ---------------------------------------------------------------------------------------------
# small interprocedural helpers used to stay indifferent to "extract helper" refactorings

def reads_field_transitively(p, fn, adt_suffix, field, depth=2, _seen=None):
    """does fn, or a workspace callee within `depth` calls, read `field` of an ADT whose path ends with adt_suffix?"""
    _seen = _seen or set()
    if fn.id in _seen:
        return False
    _seen.add(fn.id)
    for (adt, var, fld, mode, bb, line) in fn.field_accesses():
        if adt and adt.endswith(adt_suffix) and fld == field:
            return True
    if depth <= 0:
        return False
    for c in fn.calls():
        h = p.fns.get(c.resolved or "")
        if h is not None and h.crate == fn.crate and reads_field_transitively(p, h, adt_suffix, field, depth - 1, _seen):
            return True
    return False


def calls_transitively(p, fn, suffix, depth=2, _seen=None):
    """does fn, or a workspace callee within `depth` calls, call a function whose name ends with suffix?"""
    _seen = _seen or set()
    if fn.id in _seen:
        return False
    _seen.add(fn.id)
    for c in fn.calls():
        if c.name.endswith(suffix):
            return True
    if depth <= 0:
        return False
    for c in fn.calls():
        h = p.fns.get(c.resolved or "")
        if h is not None and h.crate == fn.crate and calls_transitively(p, h, suffix, depth - 1, _seen):
            return True
    return False


def false_answer_implies_false(p, h, fragments):
    """for a bool-returning workspace predicate h: whenever h answers false, every test named in `fragments` (substrings of
    the explorer's decision keys, e.g. 'contains_comment(arg1)') has answered false"""
    from absint import explore, vkey, TooManyPaths
    try:
        paths = explore(h, pure=lambda c: True, max_paths=2000)
    except TooManyPaths:
        return False
    seen = False
    for path in paths:
        if path.end != "ret" or path.ret is None:
            if path.end in ("loop",):
                return False
            continue
        ret = vkey(path.ret)
        if ret == "true":
            continue
        seen = True
        known = {fr for fr in fragments for k, v in path.decisions if fr in k and v is False}
        if ret != "false":
            if "!" in ret:
                return False
            known |= {fr for fr in fragments if fr in ret}
        if not all(fr in known for fr in fragments):
            return False
    return seen


def _norm_place(fn, loc, proj, _depth=0):
    """canonical (root, path) of a place, looking through single-definition reference / copy temporaries"""
    path = tuple("*" if e == "*" else ("f", e[1]) if isinstance(e, list) and e[0] == "f" else ("d", e[1]) if isinstance(e, list) and e[0] == "d"
                 else "?" for e in proj)
    if _depth < 6 and not (1 <= loc <= fn.argc):
        d = fn.single_def(loc)
        if d and d[1] == "assign":
            rv = d[2][2]
            if rv[0] == "ref":
                r0, p0 = _norm_place(fn, rv[2][0], rv[2][1], _depth + 1)
                # a reference to P, then dereferenced, is P
                if path[:1] == ("*",):
                    return r0, p0 + path[1:]
                return r0, p0 + ("&",) + path
            if rv[0] in ("use", "cfd"):
                op = rv[1] if rv[0] == "use" else ["c", rv[1]]
                if op[0] != "k":
                    r0, p0 = _norm_place(fn, op[1][0], op[1][1], _depth + 1)
                    if p0[-1:] == ("&",) and path[:1] == ("*",):
                        return r0, p0[:-1] + path[1:]
                    return r0, p0 + path
            if rv[0] == "agg" and path[:1] and isinstance(path[0], tuple) and path[0][0] == "f" and isinstance(rv[2], list) \
                    and isinstance(path[0][1], int) and path[0][1] < len(rv[2]):
                # a field of a freshly built tuple / struct is the operand it was built from (`match (&a.kind, k)`)
                op = rv[2][path[0][1]]
                if op[0] != "k":
                    r0, p0 = _norm_place(fn, op[1][0], op[1][1], _depth + 1)
                    rest = path[1:]
                    if p0[-1:] == ("&",) and rest[:1] == ("*",):
                        return r0, p0[:-1] + rest[1:]
                    return r0, p0 + rest
    return loc, path


def variant_tests(fn):
    """Repeated tests of one enum-valued place: {place key: [(switch_bb, {target_bb: set of variant names it implies})]}.
    Recognised: `match` / `if let` on discriminant(P), and Option::is_some / is_none / Result::is_ok / is_err on &P."""
    memo = fn.__dict__.get("_variant_tests")
    if memo is not None:
        return memo
    tests = defaultdict(list)
    for bb, i, st in fn.stmts():
        if st[0] == "=" and st[2][0] == "discr" and not st[1][1]:
            key = _norm_place(fn, st[2][1][0], st[2][1][1])
            names = {int(v): n for v, n in st[2][3]}
            for sb, b in enumerate(fn.blocks):
                t = b["t"]
                if t[0] == "switch" and op_local(t[1]) == st[1][0]:
                    tg = defaultdict(set)
                    listed = set()
                    for v, target in t[2]:
                        if int(v) in names:
                            tg[target].add(names[int(v)])
                            listed.add(names[int(v)])
                    rest = set(names.values()) - listed
                    if rest:
                        tg[t[3]] |= rest
                    tests[key].append((sb, dict(tg)))
    for c in fn.calls():
        last = c.name.rsplit("::", 1)[-1]
        pair = {"is_some": ("Some", "None"), "is_none": ("None", "Some"), "is_ok": ("Ok", "Err"), "is_err": ("Err", "Ok")}.get(last)
        if not pair or not ("Option" in c.name or "Result" in c.name) or not c.args or c.args[0][0] == "k" or c.dest[1]:
            continue
        r0, p0 = _norm_place(fn, c.args[0][1][0], c.args[0][1][1])
        if p0[-1:] == ("&",):
            p0 = p0[:-1]
        elif not p0 or p0[-1] != "*":
            p0 = p0 + ("*",)        # the argument is a reference held in a local: the tested place is its referent
        for sb, t_true, t_false in bool_branches(fn, c.dest[0]):
            tests[(r0, p0)].append((sb, {t_true: {pair[0]}, t_false: {pair[1]}}))
    out = {k: v for k, v in tests.items() if len(v) >= 2}
    fn.__dict__["_variant_tests"] = out
    return out


def correlated_reach(fn, start, avoid_blocks=(), avoid_edges=(), max_states=20000):
    """Like Fn.reachable, but a place tested several times (the same Option matched, then asked is_some()) answers the same way
    each time along one path.  Sound for places that are not written between the tests (parameters and shared borrows — the only
    ones the callers use it for)."""
    tests = variant_tests(fn)
    if not tests:
        return fn.reachable(start, avoid_blocks=avoid_blocks, avoid_edges=avoid_edges)
    by_sw = defaultdict(list)
    for key, lst in tests.items():
        for sb, tg in lst:
            by_sw[sb].append((key, tg))
    avoid_blocks = set(avoid_blocks)
    avoid_edges = set(avoid_edges)
    if start in avoid_blocks:
        return set()
    init = (start, frozenset())
    seen = {init}
    dq = deque([init])
    while dq:
        b, facts = dq.popleft()
        fd = dict(facts)
        for s2 in fn.succ(b):
            if s2 in avoid_blocks or (b, s2) in avoid_edges:
                continue
            nf = dict(fd)
            feasible = True
            for key, tg in by_sw.get(b, []):
                allowed = tg.get(s2)
                if allowed is None:
                    continue
                cur = nf.get(key)
                new = frozenset(allowed) if cur is None else cur & frozenset(allowed)
                if not new:
                    feasible = False
                    break
                nf[key] = new
            if not feasible:
                continue
            stt = (s2, frozenset(nf.items()))
            if stt not in seen:
                seen.add(stt)
                if len(seen) > max_states:
                    return fn.reachable(start, avoid_blocks=avoid_blocks, avoid_edges=avoid_edges)
                dq.append(stt)
    return {b for b, _ in seen}


def answer_implies(p, h, answer, reqs):
    """for a bool-returning workspace predicate h: on every path on which h answers `answer`, each requirement holds.
    A requirement is a list of alternatives (fragment, value): some decision whose key contains the fragment has that value
    (e.g. [("is_none(arg1.attrs)", True), ("is_some(arg1.attrs)", False)])."""
    from absint import explore, vkey, TooManyPaths
    try:
        paths = explore(h, pure=lambda c: True, max_paths=2000)
    except TooManyPaths:
        return False
    seen = False
    want = "true" if answer else "false"
    for path in paths:
        if path.end != "ret" or path.ret is None:
            if path.end == "loop":
                return False
            continue
        ret = vkey(path.ret)
        if ret == ("false" if answer else "true"):
            continue
        decs = list(path.decisions)
        if ret != want:
            # the answer is the value of a last test: `a && b` returns b on the path where a held
            neg = ret.startswith("!")
            core = ret[1:] if neg else ret
            decs.append((core, (not answer) if neg else answer))
        seen = True
        for alts in reqs:
            if not any(fr in k and v is val for k, v in decs for fr, val in alts):
                return False
    return seen


def unit_with_private_helpers(p, seeds, crate="rustfmt_nightly", rounds=3, stop=(), exclude=None):
    """seeds (Fn list) + their closures + every non-pub function of the crate all of whose callers are already in the unit
    (a helper extracted from a member is part of what the member does).  `stop`: last path segments that stay leaves."""
    unit = list(seeds)
    ids = {g.id for g in unit}
    for g in p.by_crate.get(crate, []):
        if g.id not in ids and any(g.id.startswith(i + "::{closure") for i in list(ids)):
            unit.append(g)
            ids.add(g.id)
    for _ in range(rounds):
        grew = False
        for g in list(unit):
            for c in g.calls():
                h = p.fns.get(c.name)
                if h is None or h.id in ids or h.crate != crate or h.vis == "pub" or c.name.rsplit("::", 1)[-1] in stop:
                    continue
                callers = {src for (src, kind, cc) in p.callers().get(h.id, [])}
                if callers and all(x in ids for x in callers):
                    if exclude is not None and exclude(h):
                        continue
                    unit.append(h)
                    ids.add(h.id)
                    for k in p.by_crate.get(crate, []):
                        if k.id not in ids and k.id.startswith(h.id + "::{closure"):
                            unit.append(k)
                            ids.add(k.id)
                    grew = True
        if not grew:
            break
    return unit
