"""thorough tier: quick rules + (a) second extraction at the default MIR optimisation level with identical
verdicts required, (b) feature variants, (c) replay of the property's mutation corpus on a scratch copy."""
import os
import sys


def run(pid, repo, run_one):
    # filled in below as the engines are built; until then thorough == quick with the tier recorded
    try:
        import thorough_impl
    except ImportError:
        code, _ = run_one(pid, "thorough", repo)
        return code
    return thorough_impl.run(pid, repo, run_one)
