"""C19 — rustfmt-format-diff (partial).

R19-a a failing rustfmt makes the tool fail · R19-b an empty result runs nothing
"""
from absint import explore, vkey, TooManyPaths
from common import short, result_edges, bool_branches, edge_dominates
import effects


def run(ctx):
    p, r = ctx.p, ctx.r
    empty_hunks(ctx)
    hunk_header_pattern(ctx)
    total_scan(ctx)
    A = r.rule("R19-a", "run_rustfmt returns Ok only on paths that decided ExitStatus::success() = true (or spawned nothing); "
                        "run propagates run_rustfmt's result; main reaches process::exit(1) on the Err edge of run")
    r.rule("R19-b", "files.is_empty() ∨ ranges.is_empty() is decided false on every path that spawns rustfmt; the empty edge "
                    "returns Ok without spawning")
    rr = p.fns.get("rustfmt_format_diff::run_rustfmt")
    if rr is None:
        r.undecidable(A, "rustfmt_format_diff::run_rustfmt not found")
        return
    spawn = lambda c: effects.SPAWN_RX.search(effects.strip_generics(c.name)) is not None  # noqa: E731
    PURE = ("ExitStatus::success", "::is_empty")
    try:
        paths = explore(rr, is_effect=spawn, pure=lambda c: any(c.name.endswith(x) for x in PURE), max_paths=50000)
    except TooManyPaths as e:
        r.undecidable(A, str(e))
        paths = []
    r.paths(A, len(paths))
    n_ok = 0
    n_spawn = 0
    for path in paths:
        if path.end != "ret" or path.ret is None:
            continue
        ret = vkey(path.ret)
        spawned = [e for e in path.effects if e.kind == "call"]
        succ = [v for k, v in path.decisions if "ExitStatus::success(" in k and isinstance(v, bool)]
        empt = [v for k, v in path.decisions if "::is_empty(" in k and isinstance(v, bool)]
        if spawned:
            n_spawn += 1
            # R19-b: both emptiness tests decided false before spawning
            okb = empt == [False, False]
            r.instance("R19-b", "spawn path: is_empty decisions %s" % empt, "ok" if okb else "violation", "%s:%d" % (rr.file, rr.line))
            if not okb:
                r.violation("R19-b", "run_rustfmt spawns rustfmt with is_empty=%s" % empt,
                            "rustfmt is run although the set of files or the list of ranges may be empty", ["%s:%d" % (rr.file, rr.line)])
        if ret.startswith("Ok("):
            n_ok += 1
            ok = (not spawned) or succ == [True]
            r.instance(A, "run_rustfmt Ok path [spawned=%d, success=%s]" % (len(spawned), succ), "ok" if ok else "violation",
                       "%s:%d" % (rr.file, rr.line))
            if not ok:
                r.violation(A, "run_rustfmt returns Ok without a successful child (success=%s)" % succ,
                            "a failing rustfmt does not make rustfmt-format-diff fail", ["%s:%d" % (rr.file, rr.line)])
        elif spawned and succ == [True] and not ret.startswith("residual("):
            r.violation(A, "run_rustfmt fails although the child succeeded", ret[:60], ["%s:%d" % (rr.file, rr.line)])
    r.floor(A, n_ok, 2, "Ok-returning paths of run_rustfmt")
    r.floor("R19-b", n_spawn, 1, "spawning paths of run_rustfmt")
    # run propagates
    rn = p.fns.get("rustfmt_format_diff::run")
    if rn is not None:
        cs = [c for c in rn.calls() if c.name == "rustfmt_format_diff::run_rustfmt"]
        ok = len(cs) == 1 and cs[0].dest[0] == 0 and not cs[0].dest[1]
        r.instance(A, "run returns run_rustfmt's result", "ok" if ok else "violation", "%s:%d" % (rn.file, rn.line))
        if not ok:
            r.violation(A, "run does not return the result of run_rustfmt", "the failure of rustfmt is dropped in `run`",
                        ["%s:%d" % (rn.file, rn.line)])
    mn = p.fns.get("rustfmt_format_diff::main")
    if mn is None:
        r.undecidable(A, "main not found")
        return
    cs = [c for c in mn.calls() if c.name == "rustfmt_format_diff::run"]
    ex = [c for c in mn.calls() if c.name == "std::process::exit"]
    ok = False
    if len(cs) == 1 and ex:
        for e in result_edges(mn, cs[0]):
            if e["err"] is None:
                continue
            reach = mn.reachable(e["err"], avoid_blocks=[c.bb for c in ex])
            ok = not any(b in reach for b in mn.returns())
    r.instance(A, "main: Err(run) ⇒ process::exit", "ok" if ok else "violation", "%s:%d" % (mn.file, mn.line))
    if not ok:
        r.violation(A, "main returns normally on the error edge of run", "an error (including a failing rustfmt) ends with status 0",
                    ["%s:%d" % (mn.file, mn.line)])
    from intflow import IntFlow
    flow = IntFlow(p)
    for c in ex:
        vals = flow.call_arg_values(mn, c, 1)
        ok = vals == {1}
        r.instance(A, "main: exit code %s" % sorted(map(str, vals)), "ok" if ok else "violation", c.loc())
        if not ok:
            r.violation(A, "main exits with %s on error" % sorted(map(str, vals)), "expected exit(1)", [c.loc()])


def empty_hunks(ctx):
    """R19-c: a hunk whose post-image line count is 0 contributes neither a range nor a file"""
    from common import operand_origin, switch_true_false
    p, r = ctx.p, ctx.r
    C = r.rule("R19-c", "scan_diff: the pushes into `ranges` and `files` are dominated by the false edge of a test "
                        "`line_count == 0` on the parsed count of the hunk header")
    sd = p.named("scan_diff", crate="rustfmt_format_diff")
    if sd is None:
        r.undecidable(C, "scan_diff not found")
        return
    sinks = [c for c in sd.calls() if (c.name.endswith("Vec::<T, A>::push") or c.name.endswith("::insert"))
             and c.args and ("Range" in " ".join(c.ga) or "HashSet" in c.name or "String" in " ".join(c.ga))]
    tests = []
    for bb in range(len(sd.blocks)):
        t = sd.term(bb)
        if t[0] != "switch":
            continue
        if t[4] != "bool" and len(t[2]) == 1 and int(t[2][0][0]) == 0:
            # `switchInt(n) -> [0: zero, otherwise: nonzero]`: what optimised MIR makes of `if n == 0`
            o0 = operand_origin(sd, t[1])
            if not (o0 and o0[0] == "discr"):
                tests.append((bb, t[2][0][1], t[3]))
                continue
        o = operand_origin(sd, t[1])
        if o and o[0] == "bin" and o[1] in ("Eq", "Ne") and any(x[0] == "const" and x[1] == 0 for x in (o[2], o[3])):
            other = o[2] if o[3][0] == "const" else o[3]
            tf = switch_true_false(sd, bb)
            if tf is None:
                continue
            zero_edge = tf[0] if o[1] == "Eq" else tf[1]
            nonzero_edge = tf[1] if o[1] == "Eq" else tf[0]
            tests.append((bb, zero_edge, nonzero_edge))
    ok = False
    for (bb, ze, nz) in tests:
        if sinks and all(edge_dominates(sd, (bb, nz), c.bb) for c in sinks):
            ok = True
    if not ok and sinks:
        # helper form: the range comes out of a helper that answers None for an empty hunk, and the pushes are dominated by
        # the Some edge of what the helper (possibly through Option::and_then / map and a closure) returned
        from common import result_edges

        def none_for_zero(h):
            """every construction of Some(..) in h is dominated by the non-zero edge of a `count == 0` test"""
            zt = []
            for bb in range(len(h.blocks)):
                t = h.term(bb)
                if t[0] != "switch":
                    continue
                if t[4] != "bool" and len(t[2]) == 1 and int(t[2][0][0]) == 0:
                    o0 = operand_origin(h, t[1])
                    if not (o0 and o0[0] == "discr"):
                        zt.append((bb, t[3]))
                    continue
                o = operand_origin(h, t[1])
                if o and o[0] == "bin" and o[1] in ("Eq", "Ne") and any(x[0] == "const" and x[1] == 0 for x in (o[2], o[3])):
                    tf = switch_true_false(h, bb)
                    if tf:
                        zt.append((bb, tf[1] if o[1] == "Eq" else tf[0]))
            somes = [bb for bb, i, st in h.stmts() if st[0] == "=" and st[2][0] == "agg" and isinstance(st[2][1], list)
                     and st[2][1][0] == "adt" and st[2][1][1].endswith("option::Option") and st[2][1][2] == "Some" and st[1][0] == 0]
            return bool(zt) and bool(somes) and all(any(edge_dominates(h, (zb, nzb), sb) for (zb, nzb) in zt) for sb in somes)

        helpers = {h.id for h in p.by_crate.get("rustfmt_format_diff", []) if h.kind != "Closure" and "Option" in h.locals[0] and none_for_zero(h)}
        for c in sd.calls():
            tg = {c.resolved} | set(c.refs)
            via = set()
            for x in tg:
                g = p.fns.get(x or "")
                if g is None:
                    continue
                if g.id in helpers:
                    via.add(g.id)
                elif g.kind == "Closure" and any((cc.resolved or "") in helpers for cc in g.calls()):
                    via.add(g.id)
            if not via:
                continue
            for e in result_edges(sd, c):
                if e["ok"] is not None and all(edge_dominates(sd, (e["sw"], e["ok"]), k.bb) for k in sinks):
                    ok = True
    r.instance(C, "scan_diff: zero-count hunks skipped", "ok" if ok else "violation", "%s:%d" % (sd.file, sd.line),
               "%d sink calls, %d zero tests" % (len(sinks), len(tests)))
    r.floor(C, len(sinks), 2, "pushes into ranges/files in scan_diff")
    if not ok:
        r.violation(C, "scan_diff: hunks with an empty post-image are not skipped",
                    "a `+N,0` hunk (pure deletion) still registers its file and a line range: rustfmt is asked to format "
                    "lines the patch did not add", ["%s:%d" % (sd.file, sd.line)])


def hunk_header_pattern(ctx):
    """R19-d: the hunk-header pattern captures the post-image range of the header, whatever follows the closing @@"""
    import re
    p, r = ctx.p, ctx.r
    D = r.rule("R19-d", "the regular expression scan_diff uses for `@@` lines, evaluated on a frozen family of well-formed hunk "
                        "headers (with / without counts, with trailing section text that itself contains `+<digits>`), captures "
                        "the post-image start and count written before the closing `@@` — the constant is decided as data, by the "
                        "regex engine, not by running rustfmt")
    sd = p.named("scan_diff", crate="rustfmt_format_diff")
    if sd is None:
        r.undecidable(D, "scan_diff not found")
        return
    pats = []
    # only the pattern whose captures become the range: the Range aggregate derives from Regex::captures on it
    range_calls = set()
    for bb, i, st in sd.stmts():
        if st[0] == "=" and st[2][0] == "agg" and isinstance(st[2][1], list) and st[2][1][0] == "adt" and st[2][1][1].endswith("::Range"):
            for op in st[2][2]:
                if op[0] != "k":
                    for cc in sd.derived_from(op[1][0])["calls"]:
                        range_calls.add(id(cc))
    for c in sd.calls():
        if c.name.endswith("Regex::new") and c.args and c.args[0][0] != "k":
            feeds = any(id(cc) in range_calls for cc in sd.calls()
                        if cc.name.endswith("Regex::captures") and cc.args and cc.args[0][0] != "k"
                        and c in sd.derived_from(cc.args[0][1][0])["calls"])
            if range_calls and not feeds:
                continue
            for k in sd.derived_from(c.args[0][1][0])["consts"]:
                if isinstance(k[2], dict) and isinstance(k[2].get("str"), str) and "@@" in k[2]["str"]:
                    pats.append((k[2]["str"], c))
    if not pats:
        r.note("R19-d: scan_diff has no regex literal for `@@` lines; the rule does not apply to a hand-written recogniser")
        r.instance(D, "hunk-header pattern", "n/a", "%s:%d" % (sd.file, sd.line), "no regex literal", nontrivial=False)
        r.rules[D]["floor"] = 0
        return
    fam = []
    for (a, b) in (("10", "5"), ("1", None), ("148", "11")):
        for (c_, d_) in (("10", "6"), ("7", None), ("160", "0"), ("3", "12")):
            for tail in ("", " fn foo()", " let y = x +3;", " a +7,9 b", " +12", " @@ +99,1 @@"):
                pre = "-%s%s" % (a, "," + b if b else "")
                post = "+%s%s" % (c_, "," + d_ if d_ else "")
                fam.append(("@@ %s %s @@%s" % (pre, post, tail), c_, d_))
    for pat, call in pats:
        try:
            rx = re.compile(pat)
        except re.error as e:
            r.undecidable(D, "hunk-header pattern %r cannot be evaluated (%s)" % (pat, e))
            continue
        bad = []
        for line, want_start, want_count in fam:
            m = rx.search(line)
            got = None
            if m:
                nums = [g for g in m.groups() if g is not None and g.isdigit()]
                got = (nums[0] if nums else None, nums[-1] if len(nums) > 1 else None)
            if got != (want_start, want_count):
                bad.append((line, got))
        r.cells(D, len(fam))
        r.instance(D, "hunk-header pattern %s" % pat, "ok" if not bad else "violation", call.loc(), "%d headers evaluated" % len(fam))
        if bad:
            r.violation(D, "hunk-header pattern reads the range from the wrong place",
                        "pattern %r on `%s` yields start/count %s: the range rustfmt is asked to format is not the one the hunk "
                        "header announces (%d of %d header shapes)" % (pat, bad[0][0], bad[0][1], len(bad), len(fam)), [call.loc()])


def total_scan(ctx):
    """R19-e: scan_diff turns every line into a range, a skip or an error — never a panic"""
    p, r = ctx.p, ctx.r
    E = r.rule("R19-e", "scan_diff: no Result::unwrap / expect on a value that depends on the patch text (str::parse of captured "
                        "digits, the lines of the input), and no overflow-checked `+` / `-` on two numbers parsed from it: a "
                        "malformed or hostile patch must end in a skipped header or an error, not in a panic (nothing is formatted)")
    sd = p.named("scan_diff", crate="rustfmt_format_diff")
    if sd is None:
        r.undecidable(E, "scan_diff not found")
        return
    n = 0
    for c in sd.calls():
        if not (c.name.endswith("Result::<T, E>::unwrap") or c.name.endswith("Result::<T, E>::expect")) or not c.args or c.args[0][0] == "k":
            continue
        n += 1
        d = sd.derived_from(c.args[0][1][0])
        src = [x for x in d["calls"] if x.name.endswith("str>::parse") or x.name.endswith("::parse")
               or x.name.endswith("Lines<B> as std::iter::Iterator>::next")]
        # the compile-time patterns (Regex::new of a literal) are not patch data
        if not src:
            r.instance(E, "unwrap at %s" % c.loc(), "ok", c.loc(), "not patch-dependent", nontrivial=False)
            continue
        what = short(src[0].name).rsplit("::", 2)[-1] if "parse" in src[0].name else "input line"
        r.instance(E, "unwrap of %s" % what, "violation", c.loc())
        r.violation(E, "scan_diff unwraps %s" % ("a parsed number" if "parse" in src[0].name else "a line of the patch"),
                    "a value computed from the patch text is unwrapped: %s makes the tool panic instead of skipping the header or "
                    "reporting an error" % ("a number that does not fit in the integer type" if "parse" in src[0].name
                                            else "a line that is not valid UTF-8"), [c.loc()])
    for bb, i, s in sd.stmts():
        if s[0] == "=" and s[2][0] == "bin" and s[2][1] in ("AddWithOverflow", "MulWithOverflow"):
            a, b = s[2][2], s[2][3]
            parsed = 0
            for op in (a, b):
                if op[0] != "k" and any(x.name.endswith("::parse") or x.name.endswith("str>::parse") for x in sd.derived_from(op[1][0])["calls"]):
                    parsed += 1
            if parsed == 2:
                r.instance(E, "checked arithmetic on parsed numbers", "violation", "%s:%d" % (sd.file, s[3]))
                r.violation(E, "scan_diff adds two parsed numbers with overflow check",
                            "start + count of a hunk header overflows for large values: panic in debug builds, a wrapped (bogus) "
                            "range otherwise", ["%s:%d" % (sd.file, s[3])])
    r.floor(E, n, 2, "Result::unwrap sites in scan_diff")

    filter_is_only_a_filter(ctx, "R19-f")
    scanned_ranges_are_passed_on_unchanged(ctx, "R19-g")
    filter_is_anchored_as_a_whole(ctx, "R19-h")


def filter_is_only_a_filter(ctx, rid):
    """R19-f: the user's --filter pattern never takes part in extracting file names or ranges"""
    p, r = ctx.p, ctx.r
    r.rule(rid, "format-diff::scan_diff: the text of the `--filter` option (a regular expression supplied by the user) flows only "
                "into a Regex that is applied with `is_match`; the patterns whose *captures* become the file name and the line "
                "range are built from constants and `--skip-prefix` alone.  Spliced into the header pattern, the filter decides by "
                "backtracking how many leading components are dropped: with `-p 1 -f 'src/.*'`, `b/vendor/dep/src/lib.rs` is "
                "handed to rustfmt as `src/lib.rs`, another file")
    sd = None
    for f in p.fns.values():
        if f.id.endswith("rustfmt_format_diff::scan_diff") or (f.id.endswith("::scan_diff") and "format_diff" in f.id):
            sd = f
    if sd is None:
        r.undecidable(rid, "format-diff scan_diff not found")
        return
    fi = [i for i in range(1, sd.argc + 1) if sd.locals[i].replace("&", "").strip() == "str"]
    unit = [sd] + [g for g in p.fns.values() if g.id.startswith(sd.id + "::{closure")]
    n = 0
    for g in unit:
        regs = {}
        for c in g.calls():
            if c.name.endswith("Regex::new") and c.args and c.args[0][0] != "k":
                d = g.derived_from(c.args[0][1][0])
                regs[c] = bool(set(fi) & d["args"]) if g is sd else False
        for c in g.calls():
            last = c.name.rsplit("::", 1)[-1]
            if "Regex" not in c.name or last not in ("captures", "captures_iter", "find", "replace", "replace_all", "captures_read") \
                    or not c.args or c.args[0][0] == "k":
                continue
            n += 1
            d = g.derived_from(c.args[0][1][0])
            tainted = [rc for rc, t in regs.items() if t and rc in d["calls"]]
            r.instance(rid, "scan_diff: Regex::%s" % last, "violation" if tainted else "ok", c.loc(),
                       "pattern built from the filter option" if tainted else "pattern built from constants / skip_prefix")
            if tainted:
                r.violation(rid, "scan_diff extracts text with a pattern that contains the --filter expression",
                            "Regex::%s is applied with a pattern derived from the `file_filter` parameter: what is captured as the file "
                            "name depends on how the user's expression backtracks" % last, [c.loc(), tainted[0].loc()])
    # a pattern handed to a private helper that captures with it (`post_image_lines(&lines_pattern, &line)`)
    CAP = ("captures", "captures_iter", "find", "replace", "replace_all", "captures_read")
    regs0 = {}
    for c in sd.calls():
        if c.name.endswith("Regex::new") and c.args and c.args[0][0] != "k":
            regs0[c] = bool(set(fi) & sd.derived_from(c.args[0][1][0])["args"])
    for c in sd.calls():
        h = p.fns.get(c.resolved or "")
        if h is None or h.crate != sd.crate or h.kind == "Closure":
            continue
        caps = [d for d in h.calls() if "Regex" in d.name and d.name.rsplit("::", 1)[-1] in CAP]
        if not caps:
            continue
        n += len(caps)
        tainted = [rc for a in c.args if a[0] != "k" for rc, t in regs0.items() if t and rc in sd.derived_from(a[1][0])["calls"]]
        r.instance(rid, "scan_diff → %s: Regex::%s" % (short(h.id), caps[0].name.rsplit("::", 1)[-1]), "violation" if tainted else "ok",
                   c.loc(), "pattern built from the filter option" if tainted else "pattern built from constants / skip_prefix")
        if tainted:
            r.violation(rid, "scan_diff extracts text with a pattern that contains the --filter expression",
                        "%s captures with a pattern derived from the `file_filter` parameter" % short(h.id), [c.loc(), tainted[0].loc()])
    r.floor(rid, n, 2, "capturing regex applications in scan_diff and its helpers")


def scanned_ranges_are_passed_on_unchanged(ctx, rid):
    """R19-g: what rustfmt is asked to format is what scan_diff read out of the patch"""
    from common import expr_key
    p, r = ctx.p, ctx.r
    r.rule(rid, "format-diff::run hands the two results of scan_diff — the set of files and the list of (file, range) — to "
                "run_rustfmt as they are (through `?`, borrows and derefs only): no step in between drops, merges, sorts or "
                "rewrites them.  The line set of `--file-lines` is then exactly the post-image ranges of the hunk headers; an "
                "interval-merging step that gets one case wrong (a range nested in an earlier, longer one) silently shortens it")
    f = p.fns.get("rustfmt_format_diff::run")
    if f is None:
        r.undecidable(rid, "format-diff::run not found")
        return
    n = 0
    for c in f.calls():
        if not c.name.endswith("rustfmt_format_diff::run_rustfmt"):
            continue
        n += 1
        bad = []
        for a in c.args:
            if a[0] == "k":
                continue
            d = f.derived_from(a[1][0])
            via = [x for x in d["calls"] if not any(t in x.name for t in ("scan_diff", "Try>::branch", "Deref>::deref", "as_ref", "as_slice",
                                                                       "Borrow", "io::stdin", "String as std::ops::Deref"))]
            if not any(x.name.endswith("scan_diff") for x in d["calls"]) or via:
                bad.append(sorted({short(x.name) for x in via})[:3] or ["not from scan_diff"])
        r.instance(rid, "run: run_rustfmt(scan_diff(..))", "violation" if bad else "ok", c.loc())
        if bad:
            r.violation(rid, "format-diff::run transforms the scanned files / ranges before handing them to rustfmt",
                        "an argument of run_rustfmt passes through %s: the requested line set is no longer the one the hunk headers "
                        "announce" % bad[0], [c.loc()])
    r.floor(rid, n, 1, "run_rustfmt calls in format-diff::run")


def filter_is_anchored_as_a_whole(ctx, rid):
    """R19-h: "the path matches the filter" means the whole path matches the whole expression"""
    import re
    from absint import Explorer, vkey
    p, r = ctx.p, ctx.r
    r.rule(rid, "format-diff::scan_diff compiles the user's `--filter` expression between anchors; the constant pieces of that "
                "`format!` open a group after `^` and close it before `$` (`^(?:…)$`, `^(…)$`).  Without the group an alternation in "
                "the expression takes one anchor each — `^foo\\.rs|bar\\.rs$` matches `foo.rs.orig` and `xbar.rs` — and files that "
                "do not match the filter are formatted")
    sd = p.fns.get("rustfmt_format_diff::scan_diff")
    if sd is None:
        r.undecidable(rid, "format-diff scan_diff not found")
        return
    fi = [i for i in range(1, sd.argc + 1) if sd.locals[i].replace("&", "").strip() == "str"]
    ex = Explorer(sd)
    n = 0
    for c in sd.calls():
        if not c.name.endswith("Regex::new") or not c.args or c.args[0][0] == "k":
            continue
        d = sd.derived_from(c.args[0][1][0])
        if not (set(fi) & d["args"]):
            continue
        n += 1
        pieces = None
        for k in d["consts"]:
            if isinstance(k[2], dict) and "promoted" in k[2]:
                try:
                    pieces = re.findall(r'"((?:[^"\\]|\\.)*)"', vkey(ex.eval_promoted(k[2]["promoted"])))
                except Exception:
                    pieces = None
        ok = bool(pieces) and len(pieces) >= 2 and pieces[0].startswith("^") and pieces[0].rstrip().endswith(("(", "(?:")) \
            and pieces[-1].startswith(")") and pieces[-1].endswith("$")
        r.instance(rid, "scan_diff: the filter pattern is built from the pieces %s" % pieces, "ok" if ok else "violation", c.loc())
        if not ok:
            r.violation(rid, "scan_diff anchors the --filter expression without grouping it",
                        "the pattern is assembled from %s around the user's expression: with an alternation in it the anchors bind "
                        "to the first and the last alternative only" % pieces, [c.loc()])
    r.floor(rid, n, 1, "patterns built from the --filter option")
