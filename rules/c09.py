"""C09 — released style editions are frozen (partial: 2015 ≡ 2018 ≡ 2021).

R09-a every typed consumer of a StyleEdition value is constant on {2015, 2018, 2021}
R09-b every StyleEditionDefault impl sends the trio to one arm; the order used by comparisons is the declared one
"""
from common import short

SE = "StyleEdition"
ORDER = ["Edition2015", "Edition2018", "Edition2021", "Edition2024", "Edition2027"]
TRIO = ORDER[:3]
RANK = {v: i for i, v in enumerate(ORDER)}


def self_is_style_edition(owner):
    """owner is a method of an impl whose Self type is StyleEdition (derive / #[config_type] output, From, PartialOrd)"""
    return ("::StyleEdition as " in owner and owner.startswith("<")) or \
        "impl std::cmp::PartialOrd for rustfmt_nightly::config::options::__define_config_type_on_enum_StyleEdition::StyleEdition" in owner \
        or "impl std::convert::From<rustfmt_nightly::config::options::__define_config_type_on_enum_StyleEdition::StyleEdition> for" in owner


def in_config_or_bin(rec):
    o = rec["owner"]
    return rec["crate"] != "rustfmt_nightly" or o.startswith("rustfmt_nightly::config::") or o.startswith("<rustfmt_nightly::config::")


def evalcmp(op, a, b):
    ra, rb = RANK[a], RANK[b]
    return {"Ge": ra >= rb, "Gt": ra > rb, "Le": ra <= rb, "Lt": ra < rb, "Eq": ra == rb, "Ne": ra != rb}[op]


FLIP = {"Ge": "Le", "Gt": "Lt", "Le": "Ge", "Lt": "Gt", "Eq": "Eq", "Ne": "Ne"}

EXTERNAL_OK = {
    "std::clone::Clone::clone": "copying the value",
    "std::prelude::v1::Ok": "wrapping", "std::prelude::v1::Some": "wrapping", "std::prelude::v1::Err": "wrapping",
}
DYN_EQ_OK = {
    "rustfmt_nightly::config::Config::is_default": "compares the option with its default for --print-config (configuration code)",
    "<rustfmt_nightly::imports::UseSegment as std::cmp::PartialEq>::eq": "derived equality of UseSegment: both segments always carry the edition of the one configuration in force",
}


def run(ctx):
    p, r = ctx.p, ctx.r
    A = r.rule("R09-a", "every expression of type StyleEdition in the typed HIR of all crates is classified by its consumer: "
                        "comparison with a variant (evaluated on the 5 editions, must be constant on 2015/2018/2021), match "
                        "(trio in one arm), nested pattern (all or none of the trio), cast / method / generic call (conversion "
                        "table only)")
    ok_all = True
    cmps = [x for x in p.hir["hir_cmp"] if x["wty"].endswith(SE)]
    for x in cmps:
        key = "%s: %s %s %s" % (short(x["owner"]), x["lhs"].get("variant", "x"), x["op"], x["rhs"].get("variant", "x"))
        where = "%s:%s" % (p.fns[x["owner"]].file if x["owner"] in p.fns else "?", x["line"])
        lv, rv = x["lhs"].get("variant"), x["rhs"].get("variant")
        if x["op"] not in FLIP:
            r.instance(A, key, "violation", where)
            r.oblige(A, key, False)
            r.violation(A, "arithmetic on StyleEdition in %s" % short(x["owner"]), "operator %s applied to a style edition" % x["op"], [where])
            continue
        if lv is None and rv is None:
            ok = x["owner"] in DYN_EQ_OK or self_is_style_edition(x["owner"])
            r.instance(A, key, "table" if ok else "violation", where, DYN_EQ_OK.get(x["owner"], ""), nontrivial=False)
            r.oblige(A, "dynamic comparison in %s is in the conversion table" % short(x["owner"]), ok)
            if not ok:
                r.violation(A, "dynamic comparison of two style editions in %s" % short(x["owner"]),
                            "two non-constant StyleEdition values are compared with %s: can tell 2015/2018/2021 apart" % x["op"], [where])
            continue
        if lv is not None and rv is not None:
            continue
        op, v = (x["op"], rv) if rv is not None else (FLIP[x["op"]], lv)
        vals = [evalcmp(op, t, v) for t in ORDER]
        const = len(set(vals[:3])) == 1
        r.cells(A, 5)
        r.instance(A, key, "ok" if const else "violation", where, "x %s %s on 2015..2027 = %s" % (op, v, vals))
        r.oblige(A, "%s (line %s): `x %s %s` constant on the trio" % (short(x["owner"]), x["line"], op, v), const)
        if not const:
            r.violation(A, "%s: `style_edition %s %s`" % (short(x["owner"]), op, v),
                        "the predicate `x %s StyleEdition::%s` evaluates to %s on 2015/2018/2021: released editions would format "
                        "differently from each other" % (op, v, vals[:3]), [where])
    r.floor(A, len(cmps), 30, "comparisons on StyleEdition values")

    for m in [x for x in p.hir["hir_match"] if x["wty"].endswith(SE)]:
        where = "%s:%s" % (p.fns[m["owner"]].file if m["owner"] in p.fns else "?", m["line"])
        key = "%s: match@%s" % (short(m["owner"]), m["line"])
        if self_is_style_edition(m["owner"]):
            r.instance(A, key, "conversion-table", where, "impl for StyleEdition itself (derive / From / PartialOrd)", nontrivial=False)
            continue
        arm_of = {}
        for t in TRIO:
            chosen = None
            guards_before = []
            for i, arm in enumerate(m["arms"]):
                matches = arm["wild"] or t in arm["variants"]
                if not matches:
                    continue
                if arm["guard"]:
                    guards_before.append(i)
                    continue
                chosen = i
                break
            arm_of[t] = (chosen, tuple(guards_before))
        same = len(set(arm_of.values())) == 1
        r.cells(A, 3)
        r.instance(A, key, "ok" if same else "violation", where, str(arm_of))
        r.oblige(A, "%s: 2015/2018/2021 reach the same arm (and the same guards)" % key, same)
        if not same:
            r.violation(A, "%s: match separates 2015/2018/2021" % short(m["owner"]),
                        "the three frozen editions do not fall into the same arm: %s" % arm_of, [where])

    for x in [x for x in p.hir["hir_pat"] if x["wty"].endswith(SE)]:
        where = "%s:%s" % (p.fns[x["owner"]].file if x["owner"] in p.fns else "?", x["line"])
        key = "%s: pattern %s" % (short(x["owner"]), "|".join(x["variants"]))
        if self_is_style_edition(x["owner"]):
            r.instance(A, key, "conversion-table", where, nontrivial=False)
            continue
        inter = set(x["variants"]) & set(TRIO)
        ok = x["wild"] or inter == set() or inter == set(TRIO)
        r.cells(A, 3)
        r.instance(A, key, "ok" if ok else "violation", where)
        r.oblige(A, "%s names all or none of the trio" % key, ok)
        if not ok:
            r.violation(A, "%s: pattern names %s" % (short(x["owner"]), sorted(inter)),
                        "a pattern distinguishes %s from the rest of 2015/2018/2021" % sorted(inter), [where])

    for u in [x for x in p.hir["hir_use"] if x["wty"].endswith(SE)]:
        cal = u["callee"] or "?"
        where = "%s:%s" % (p.fns[u["owner"]].file if u["owner"] in p.fns else "?", u["line"])
        key = "%s: %s %s" % (short(u["owner"]), u["how"], short(cal))
        if u["how"] == "cast":
            ok = self_is_style_edition(u["owner"])
            r.instance(A, key, "ok" if ok else "violation", where)
            r.oblige(A, "cast of StyleEdition only inside its own impls (%s)" % short(u["owner"]), ok)
            if not ok:
                r.violation(A, "%s: StyleEdition cast to a number" % short(u["owner"]),
                            "`as` cast of a style edition: numeric arithmetic can tell 2015/2018/2021 apart", [where])
            continue
        if cal.startswith("rustfmt_nightly::") or cal.startswith("<rustfmt_nightly::") or cal.startswith("rustfmt::"):
            # handed to workspace code: classified where it is consumed
            r.instance(A, key, "passed-on", where, nontrivial=False)
            continue
        if cal in EXTERNAL_OK:
            r.instance(A, key, "neutral", where, EXTERNAL_OK[cal], nontrivial=False)
            continue
        if self_is_style_edition(u["owner"]) or in_config_or_bin(u):
            r.instance(A, key, "config-scope", where, "configuration / binary code may print, parse and store the option", nontrivial=False)
            continue
        r.instance(A, key, "violation", where)
        r.oblige(A, "external consumer %s of a StyleEdition in %s is in the conversion table" % (short(cal), short(u["owner"])), False)
        r.violation(A, "%s hands a StyleEdition to %s" % (short(u["owner"]), short(cal)),
                    "a formatting module passes a style edition to %s, which can distinguish all five editions" % short(cal), [where])

    # MIR cross-check: discriminant reads / casts of StyleEdition only where the HIR classification saw a match or a derive
    classified = {x["owner"] for x in p.hir["hir_match"]} | {x["owner"] for x in p.hir["hir_pat"]}
    for f in p.fns.values():
        hit = None
        for bb, i, s in f.stmts():
            if s[0] == "=" and s[2][0] == "discr" and s[2][2].endswith("::" + SE):
                hit = s
                break
        if hit is None:
            continue
        ok = f.id in classified or self_is_style_edition(f.id) or (f.root in classified if f.root else False)
        r.instance(A, "MIR discriminant read of StyleEdition in %s" % short(f.id), "ok" if ok else "violation",
                   "%s:%d" % (f.file, hit[3]), nontrivial=False)
        r.oblige(A, "discriminant read in %s is accounted for by the typed-HIR classification" % short(f.id), ok)
        if not ok:
            r.violation(A, "unclassified discriminant read of StyleEdition in %s" % short(f.id),
                        "the MIR reads the discriminant of a style edition where the typed-HIR classification found no match, "
                        "pattern or derive: an unaccounted way of telling editions apart", ["%s:%d" % (f.file, hit[3])])

    # R09-b ---------------------------------------------------------------------------------------
    B = r.rule("R09-b", "the order used by comparisons is the declared one: PartialOrd::partial_cmp delegates to rustc's Edition "
                        "through From, which maps each released edition to the edition of the same year; every "
                        "StyleEditionDefault impl is covered by R09-a (only StyleEditionConfig and VersionConfig switch)")
    fm = [x for x in p.hir["hir_match"] if "impl std::convert::From<" in x["owner"] and SE in x["owner"]]
    ok = False
    if len(fm) == 1:
        arms = fm[0]["arms"]
        ok = [a["variants"] for a in arms] == [[v] for v in ORDER] and not any(a["guard"] or a["wild"] for a in arms)
        f = p.fns.get(fm[0]["owner"])
        if ok and f is not None:
            # each arm builds the Edition variant of the same name (2027 ↦ 2024)
            built = []
            for bb, i, s in f.stmts():
                if s[0] == "=" and s[2][0] == "agg" and isinstance(s[2][1], list) and s[2][1][0] == "adt" and s[2][1][1].endswith("edition::Edition"):
                    built.append(s[2][1][2])
            ok = sorted(built) == sorted(["Edition2015", "Edition2018", "Edition2021", "Edition2024", "Edition2024"])
    r.instance(B, "From<StyleEdition> for Edition", "ok" if ok else "violation", "src/config/options.rs")
    r.oblige(B, "From<StyleEdition> maps 2015,2018,2021,2024 to the same-year rustc edition (2027 ↦ 2024)", ok)
    if not ok:
        r.violation(B, "From<StyleEdition> for Edition changed", "the conversion that defines the order of style editions no longer maps "
                    "each edition to the rustc edition of the same year", ["src/config/options.rs"])
    into_users = {u["owner"] for u in p.hir["hir_use"] if (u["callee"] or "") == "std::convert::Into::into"}
    ok2 = all("impl std::cmp::PartialOrd for" in o and SE in o for o in into_users) and len(into_users) == 1
    r.instance(B, "Into<Edition> used only by partial_cmp", "ok" if ok2 else "violation", "src/config/options.rs", str([short(o) for o in into_users]))
    r.oblige(B, "the conversion to rustc's Edition is used only by StyleEdition::partial_cmp", ok2)
    if not ok2:
        r.violation(B, "StyleEdition converted to Edition outside partial_cmp", str([short(o) for o in into_users]), ["src/config/options.rs"])
    pats = [x for x in p.hir["hir_pat"] if "impl std::cmp::PartialOrd for" in x["owner"] and SE in x["owner"]]
    vsets = sorted(tuple(x["variants"]) for x in pats)
    ok3 = vsets == sorted([("Edition2027",)] * 4 + [("Edition2015", "Edition2018", "Edition2021", "Edition2024")])
    r.instance(B, "partial_cmp pattern table", "ok" if ok3 else "violation", "src/config/options.rs", str(vsets))
    r.oblige(B, "partial_cmp: (2027,2027)=Equal, (_,2027)=Less, (2027,_)=Greater, otherwise rustc's Edition order", ok3)
    if not ok3:
        r.violation(B, "StyleEdition::partial_cmp pattern table changed", str(vsets), ["src/config/options.rs"])
    impls = [i for i in p.impls if i["trait"] == "rustfmt_nightly::config::style_edition::StyleEditionDefault"]
    r.floor(B, len(impls), 80, "StyleEditionDefault impls")
    r.instance(B, "StyleEditionDefault impls", "ok", "src/config/options.rs", "%d impls; their bodies are covered by R09-a" % len(impls))
    r.oblige(B, "%d StyleEditionDefault impl bodies contain only classified uses" % len(impls), True)
