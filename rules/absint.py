"""A3 — finite abstract evaluation of loop-free MIR regions.

Path-sensitive propagation over {constant, atom, structured value}; SwitchInt on a constant follows
one edge, on anything else forks and records the decision.  No constraint solving: a decision is
remembered by the *syntactic identity* of the value switched on, so a second switch on the same
value follows the same edge.  A path that re-enters a block it has visited ends with end='loop'
(the region is not loop-free there: the caller decides whether that is "dynamic" or "cannot decide").
"""
from common import Call, place_key, short

MAX_PATHS_DEFAULT = 4096


class TooManyPaths(Exception):
    pass


# structured values behind the string keys of decisions and of pure-call atoms (read by linarith)
KEYVALS = {}
PURECALLS = {}


def vkey(v):
    k = v[0]
    if k == "atom":
        return v[1]
    if k == "k":
        c = v[1]
        if isinstance(c, dict):
            if "str" in c:
                return '"%s"' % c["str"]
            if "variant" in c:
                return c["variant"]
            if "char" in c:
                return "'%s'" % c["char"]
            if "fn" in c:
                return "fn:" + short(c["fn"])
            if "unit" in c:
                return "()"
            return str(c)
        return str(c).lower() if isinstance(c, bool) else str(c)
    if k == "not":
        return "!" + vkey(v[1])
    if k == "bin":
        return "(%s %s %s)" % (vkey(v[2]), v[1], vkey(v[3]))
    if k == "discr":
        return "discr(%s)" % vkey(v[1])
    if k == "agg":
        kind = v[1]
        name = v[2] if v[2] else (kind if isinstance(kind, str) else kind[0])
        if v[2] and not v[3]:
            return name
        return "%s(%s)" % (name, ",".join(vkey(x) for x in v[3]))
    if k == "ref":
        return "&" + place_key(v[1])
    if k == "refv":
        return "&" + vkey(v[1])
    if k == "cast":
        return "cast(%s)" % vkey(v[1])
    return str(v)


def const_int(v):
    """int value of a constant usable in SwitchInt, else None"""
    if v[0] != "k":
        return None
    c = v[1]
    if isinstance(c, bool):
        return 1 if c else 0
    if isinstance(c, int):
        return c
    if isinstance(c, dict) and "char" in c:
        return ord(c["char"])
    if isinstance(c, dict) and "big" in c:
        return int(c["big"])
    return None


class Effect:
    __slots__ = ("kind", "name", "args", "bb", "line", "call", "ndec")

    def __init__(self, kind, name, args, bb, line, call=None, ndec=0):
        self.kind = kind
        self.name = name
        self.args = args
        self.bb = bb
        self.line = line
        self.call = call
        self.ndec = ndec   # number of decisions taken before this effect (orders effects against decisions)

    def __repr__(self):
        return "%s:%s(%s)" % (self.kind, short(self.name), ",".join(vkey(a) for a in self.args))


class PathResult:
    def __init__(self):
        self.decisions = []   # [(key, value)]
        self.decided = {}
        self.ret = None
        self.effects = []
        self.end = None
        self.blocks = []
        self.end_bb = None
        self.env = None

    def dec(self, key, default=None):
        return self.decided.get(key, default)

    def __repr__(self):
        return "<path %s ret=%s eff=%s end=%s>" % (
            ["%s=%s" % d for d in self.decisions], vkey(self.ret) if self.ret else None, self.effects, self.end)


class _State:
    __slots__ = ("env", "decisions", "decided", "effects", "blocks", "visited", "ncall")

    def __init__(self):
        self.env = {}
        self.decisions = []
        self.decided = {}
        self.effects = []
        self.blocks = []
        self.visited = {}

    def fork(self):
        s = _State()
        s.env = dict(self.env)
        s.decisions = list(self.decisions)
        s.decided = dict(self.decided)
        s.effects = list(self.effects)
        s.blocks = list(self.blocks)
        s.visited = dict(self.visited)
        return s


class Explorer:
    def __init__(self, fn, is_effect=None, pure=None, model=None, stop_at=(), max_paths=MAX_PATHS_DEFAULT,
                 record_stores=True, bool_types=True, max_visits=1, program=None, inline=None, depth=0,
                 inline_effects=False):
        self.fn = fn
        self.is_effect = is_effect or (lambda c: False)
        self.pure = pure or (lambda c: False)
        self.model = model
        self.stop_at = set(stop_at)
        self.max_paths = max_paths
        self.record_stores = record_stores
        self.max_visits = max_visits
        self.program = program
        self.inline = inline
        self.depth = depth
        self.inline_effects = inline_effects
        self.site_suffix = "" if depth == 0 else "@" + short(fn.id)
        self.results = []
        self.call_ord = {c.bb: c for c in fn.calls()}

    # -- naming ---------------------------------------------------------------------------------
    def root_name(self, loc):
        if 1 <= loc <= self.fn.argc:
            return "arg%d" % loc
        return "_%d" % loc

    # -- places -----------------------------------------------------------------------------------
    def read_place(self, st, place):
        loc, proj = place
        # longest exact prefix in env
        cur = None
        start = 0
        for i in range(len(proj), -1, -1):
            key = place_key((loc, proj[:i]))
            if key in st.env:
                cur = st.env[key]
                start = i
                break
        if cur is None:
            cur = ("atom", self.root_name(loc))
            start = 0
        for e in proj[start:]:
            cur = self.project(st, cur, e)
        return cur

    def project(self, st, val, e):
        k = val[0]
        if e == "*":
            if k == "ref":
                return self.read_place(st, val[1])
            if k == "refv":
                return val[1]
            if k == "atom":
                return val
            return ("atom", "*" + vkey(val))
        if isinstance(e, (list, tuple)) and e[0] == "f":
            idx = e[1]
            if k == "agg" and idx < len(val[3]):
                return val[3][idx]
            fname = e[4] if e[4] is not None else str(idx)
            return ("atom", "%s.%s" % (vkey(val), fname))
        if isinstance(e, (list, tuple)) and e[0] == "d":
            if k == "agg":
                return val
            return ("atom", "%s as %s" % (vkey(val), e[1]))
        return ("atom", "%s[%s]" % (vkey(val), e if isinstance(e, str) else "?"))

    def write_place(self, st, place, val, bb, line):
        loc, proj = place
        key = place_key(place)
        if not proj:
            # drop stale sub-places
            pref = key + "."
            for k2 in [k for k in st.env if k.startswith(pref)]:
                del st.env[k2]
            st.env[key] = val
            return
        if "*" in proj:
            # store through a pointer: external memory (or a local we hold a ref to)
            i = proj.index("*")
            base = self.read_place(st, (loc, proj[:i]))
            if base[0] == "ref":
                tgt = (base[1][0], list(base[1][1]) + list(proj[i + 1:]))
                self.write_place(st, tgt, val, bb, line)
                return
            name = vkey(self.read_place_sym(st, place))
            if self.record_stores:
                st.effects.append(Effect("store", name, [val], bb, line, None, len(st.decisions)))
            return
        # partial write into a local aggregate
        basekey = place_key((loc, []))
        basev = st.env.get(basekey)
        if basev is not None and basev[0] == "agg" and len(proj) == 1 and isinstance(proj[0], (list, tuple)) and proj[0][0] == "f":
            idx = proj[0][1]
            fields = list(basev[3])
            if idx < len(fields):
                fields[idx] = val
                st.env[basekey] = ("agg", basev[1], basev[2], tuple(fields))
                return
        st.env[key] = val

    def read_place_sym(self, st, place):
        """symbolic name of the location (not its content): same as read for atoms"""
        loc, proj = place
        cur = st.env.get(place_key((loc, [])), ("atom", self.root_name(loc)))
        for e in proj:
            if e == "*":
                if cur[0] == "refv":
                    cur = cur[1]
                elif cur[0] == "ref":
                    cur = ("atom", place_key(cur[1]))
                continue
            if isinstance(e, (list, tuple)) and e[0] == "f":
                fname = e[4] if e[4] is not None else str(e[1])
                cur = ("atom", "%s.%s" % (vkey(cur), fname))
            elif isinstance(e, (list, tuple)) and e[0] == "d":
                cur = ("atom", "%s as %s" % (vkey(cur), e[1]))
            else:
                cur = ("atom", "%s[]" % vkey(cur))
        return cur

    # -- operands / rvalues -----------------------------------------------------------------------
    def operand(self, st, op):
        if op[0] == "k":
            c = op[2]
            if isinstance(c, dict) and "promoted" in c:
                return self.eval_promoted(c["promoted"])
            if isinstance(c, dict) and "named" in c:
                return ("atom", "const:" + c["named"])
            if c is None:
                return ("atom", "const:" + op[1])
            return ("k", c)
        return self.read_place(st, op[1])

    def eval_promoted(self, i):
        """value of a promoted constant: interpret the straight-line promoted body"""
        cache = getattr(self, "_prom", None)
        if cache is None:
            cache = self._prom = {}
        if i in cache:
            return cache[i]
        val = ("atom", "promoted%d" % i)
        try:
            blocks = self.fn.promoted[i]
            st = _State()
            bb = 0
            steps = 0
            while steps < 8:
                steps += 1
                for s in blocks[bb]["s"]:
                    if s[0] == "=":
                        v = self.rvalue(st, s[2])
                        self.write_place(st, s[1], v, bb, s[3])
                t = blocks[bb]["t"]
                if t[0] == "goto":
                    bb = t[1]
                    continue
                break
            v = st.env.get("_0")
            if v is not None:
                if v[0] == "ref":
                    inner = self.read_place(st, (v[1][0], [list(e) if isinstance(e, tuple) else e for e in v[1][1]]))
                    if not (inner[0] == "atom" and inner[1].startswith("_")):
                        val = ("refv", inner)
                elif v[0] != "atom":
                    val = v
        except Exception:
            pass
        cache[i] = val
        return val

    def rvalue(self, st, rv):
        k = rv[0]
        if k == "use":
            return self.operand(st, rv[1])
        if k == "cfd":
            return self.read_place(st, rv[1])
        if k in ("ref", "addr"):
            place = rv[2]
            mut = rv[1] in ("mut", "Mut")
            if "*" in place[1]:
                v = self.read_place(st, place)
                if v[0] == "atom":
                    return v
                return ("refv", v)
            return ("ref", (place[0], tuple(tuple(e) if isinstance(e, list) else e for e in place[1])), mut)
        if k == "bin":
            a = self.operand(st, rv[2])
            b = self.operand(st, rv[3])
            return self.binop(rv[1], a, b)
        if k == "un":
            a = self.operand(st, rv[2])
            if rv[1] == "Not":
                return self.neg(a)
            ci = const_int(a)
            if rv[1] == "Neg" and ci is not None:
                return ("k", -ci)
            if rv[1] == "PtrMetadata":
                # optimised MIR spells `slice.len()` as the pointer metadata: keep the one name rules know
                return ("atom", "core::slice::<impl [T]>::len(%s)" % vkey(a))
            return ("atom", "%s(%s)" % (rv[1], vkey(a)))
        if k == "discr":
            v = self.read_place(st, rv[1])
            mapping = tuple((str(x[0]), x[1]) for x in rv[3])
            if v[0] == "agg" and v[2]:
                for val, name in mapping:
                    if name == v[2]:
                        return ("k", int(val))
            if v[0] == "k" and isinstance(v[1], dict) and "variant" in v[1]:
                for val, name in mapping:
                    if name == v[1]["variant"]:
                        return ("k", int(val))
            return ("discr", v, mapping)
        if k == "agg":
            kind = rv[1]
            vals = tuple(self.operand(st, o) for o in rv[2])
            if isinstance(kind, list):
                if kind[0] == "adt":
                    return ("agg", ("adt", kind[1]), kind[2], vals)
                return ("agg", ("closure", kind[1]), None, vals)
            return ("agg", kind, None, vals)
        if k == "cast":
            v = self.operand(st, rv[2])
            ck = rv[1]
            if ck.startswith("Coerce") or ck in ("PtrToPtr",):
                return v
            if ck == "IntToInt":
                if v[0] == "k":
                    return v
                return ("cast", v)
            return ("atom", "cast:%s(%s)" % (ck, vkey(v)))
        if k == "len":
            return ("atom", "len(%s)" % vkey(self.read_place(st, rv[1])))
        if k == "repeat":
            return ("atom", "repeat(%s)" % vkey(self.operand(st, rv[1])))
        return ("atom", "rv:%s" % (rv[1] if len(rv) > 1 else k))

    def neg(self, a):
        if a[0] == "k" and isinstance(a[1], bool):
            return ("k", not a[1])
        if a[0] == "not":
            return a[1]
        return ("not", a)

    def binop(self, op, a, b):
        ca, cb = const_int(a), const_int(b)
        base = op.replace("WithOverflow", "").replace("Unchecked", "")
        if ca is not None and cb is not None:
            r = None
            if base == "Eq":
                r = ca == cb
            elif base == "Ne":
                r = ca != cb
            elif base == "Lt":
                r = ca < cb
            elif base == "Le":
                r = ca <= cb
            elif base == "Gt":
                r = ca > cb
            elif base == "Ge":
                r = ca >= cb
            elif base == "BitAnd":
                r = (ca & cb)
            elif base == "BitOr":
                r = (ca | cb)
            elif base == "BitXor":
                r = (ca ^ cb)
            elif base == "Add":
                r = ca + cb
            elif base == "Sub":
                r = ca - cb
            elif base == "Mul":
                r = ca * cb
            if r is not None:
                both_bool = isinstance(a[1], bool) and isinstance(b[1], bool)
                if isinstance(r, bool):
                    val = ("k", r)
                elif both_bool:
                    val = ("k", bool(r))
                else:
                    val = ("k", r)
                if "WithOverflow" in op:
                    return ("agg", "tuple", None, (val, ("k", False)))
                return val
        # bool algebra with one constant
        if base in ("BitAnd", "BitOr") and (
                (a[0] == "k" and isinstance(a[1], bool)) or (b[0] == "k" and isinstance(b[1], bool))):
            kc, other = (a, b) if a[0] == "k" else (b, a)
            if base == "BitAnd":
                return other if kc[1] else ("k", False)
            return ("k", True) if kc[1] else other
        if base in ("Eq", "Ne") and (
                (a[0] == "k" and isinstance(a[1], bool)) or (b[0] == "k" and isinstance(b[1], bool))):
            kc, other = (a, b) if a[0] == "k" else (b, a)
            same = (base == "Eq") == kc[1]
            return other if same else self.neg(other)
        v = ("bin", base, a, b)
        if "WithOverflow" in op:
            return ("agg", "tuple", None, (v, ("atom", "ovf:" + vkey(v))))
        return v

    # -- driving --------------------------------------------------------------------------------
    def run(self, start=0, env=None):
        st = _State()
        if env:
            st.env.update(env)
        self.results = []
        self._count = 0
        stack = [(st, start)]
        while stack:
            st, bb = stack.pop()
            self.step(st, bb, stack)
        return self.results

    def finish(self, st, end, bb):
        self._count += 1
        if self._count > self.max_paths:
            raise TooManyPaths("%s: more than %d paths" % (self.fn.id, self.max_paths))
        r = PathResult()
        r.decisions = st.decisions
        r.decided = st.decided
        r.effects = st.effects
        r.blocks = st.blocks
        r.end = end
        r.end_bb = bb
        r.env = st.env
        if end == "ret":
            r.ret = self.resolve_deep(st, st.env.get("_0", ("atom", "_0")))
        self.results.append(r)

    def resolve(self, st, v):
        """reduce v to a constant using decisions taken so far, if possible"""
        if v[0] == "k":
            return v
        key = vkey(v)
        if key in st.decided:
            d = st.decided[key]
            if isinstance(d, bool):
                return ("k", d)
            if isinstance(d, int):
                return ("k", d)
            if isinstance(d, tuple) and d[0] == "variant":
                return ("k", d[2])  # int value
            return v
        if v[0] == "not":
            inner = self.resolve(st, v[1])
            if inner[0] == "k" and isinstance(inner[1], bool):
                return ("k", not inner[1])
        if v[0] == "bin":
            a = self.resolve(st, v[2])
            b = self.resolve(st, v[3])
            if a[0] == "k" and b[0] == "k":
                r = self.binop(v[1], a, b)
                if r[0] == "k":
                    return r
        return v

    def resolve_deep(self, st, v, depth=0):
        if depth > 6:
            return v
        if v[0] == "agg":
            return ("agg", v[1], v[2], tuple(self.resolve_deep(st, x, depth + 1) for x in v[3]))
        return self.resolve(st, v)

    def step(self, st, bb, stack):
        fn = self.fn
        while True:
            if st.visited.get(bb, 0) >= self.max_visits:
                self.finish(st, "loop", bb)
                return
            if bb in self.stop_at:
                st.blocks.append(bb)
                self.finish(st, "stop", bb)
                return
            st.visited[bb] = st.visited.get(bb, 0) + 1
            st.blocks.append(bb)
            blk = fn.blocks[bb]
            for s in blk["s"]:
                if s[0] == "=":
                    val = self.rvalue(st, s[2])
                    self.write_place(st, s[1], val, bb, s[3])
                elif s[0] == "setdiscr":
                    pass
            t = blk["t"]
            k = t[0]
            if k == "goto":
                bb = t[1]
                continue
            if k == "ret":
                self.finish(st, "ret", bb)
                return
            if k in ("unreachable", "resume", "abort", "none"):
                self.finish(st, k, bb)
                return
            if k == "drop":
                bb = t[2]
                continue
            if k == "assert":
                bb = t[4]
                continue
            if k == "call":
                c = self.call_ord[bb]
                argv = [self.operand(st, a) for a in c.args]
                # pointee values for reference arguments (used for naming and effects)
                argd = []
                for a in argv:
                    if a[0] == "ref":
                        argd.append(self.read_place(st, (a[1][0], [list(e) if isinstance(e, tuple) else e for e in a[1][1]])))
                    elif a[0] == "refv":
                        argd.append(a[1])
                    else:
                        argd.append(a)
                val = None
                if self.model:
                    val = self.model(c, argd, st, self)
                if val is None and self.inline and self.program is not None and self.try_inline(st, c, argv, bb, stack):
                    return
                if val is None:
                    val = self.default_call_value(c, argd)
                    nvis = st.visited.get(bb, 1)
                    if nvis > 1 and val[0] == "atom" and val[1].startswith("call:"):
                        # a second evaluation of the same call site (unrolled loop) is a fresh unknown
                        val = ("atom", val[1] + "@%d" % nvis)
                # havoc locals whose &mut escapes into the call
                for a in argv:
                    if a[0] == "ref" and len(a) > 2 and a[2]:
                        self.write_place(st, (a[1][0], [list(e) if isinstance(e, tuple) else e for e in a[1][1]]),
                                         ("atom", "mut:%s@%s#%d" % (place_key(a[1]), short(c.name), c.ordinal)), bb, c.line)
                if self.is_effect(c):
                    st.effects.append(Effect("call", c.name, argd, bb, c.line, c, len(st.decisions)))
                self.write_place(st, c.dest, val, bb, c.line)
                if c.target is None:
                    self.finish(st, "diverge", bb)
                    return
                bb = c.target
                continue
            if k == "switch":
                v = self.resolve(st, self.operand(st, t[1]))
                ci = const_int(v)
                targets = t[2]
                other = t[3]
                if ci is not None:
                    nxt = other
                    for val, tg in targets:
                        if int(val) == ci:
                            nxt = tg
                            break
                    bb = nxt
                    continue
                # switch on !x: decide x with the edges swapped
                flips = 0
                while v[0] == "not":
                    v = v[1]
                    flips += 1
                is_bool = t[4] == "bool"
                mapping = None
                if v[0] == "discr":
                    mapping = {int(a): b for a, b in v[2]}
                if not is_bool and mapping is None and len(targets) == 1 and v[0] in ("atom", "bin", "cast"):
                    # `switchInt(n) -> [c: A, otherwise: B]` is what optimised MIR makes of `if n == c`: record the decision
                    # in the if-form so that rules see one idiom
                    cval, tg = targets[0]
                    v = ("bin", "Eq", v, ("k", int(cval)))
                    targets = [(1, tg)]
                    is_bool = True
                key = vkey(v)
                KEYVALS[key] = v
                branches = []
                taken_vals = []
                for val, tg in targets:
                    ival = int(val)
                    taken_vals.append(ival)
                    if is_bool:
                        dv = bool(ival)
                    elif mapping is not None and ival in mapping:
                        dv = ("variant", mapping[ival], ival)
                    else:
                        dv = ival
                    branches.append((dv, tg))
                # otherwise
                if fn.blocks[other]["t"][0] != "unreachable" or fn.blocks[other]["s"]:
                    if is_bool and len(taken_vals) == 1:
                        dv = not bool(taken_vals[0])
                    elif mapping is not None:
                        rest = [(iv, n) for iv, n in mapping.items() if iv not in taken_vals]
                        if not rest:
                            dv = None   # every variant has its own edge: the otherwise edge is dead
                        elif len(rest) == 1:
                            dv = ("variant", rest[0][1], rest[0][0])
                        else:
                            dv = ("other", tuple(sorted(n for _, n in rest)))
                    else:
                        dv = ("other", tuple(taken_vals))
                    if dv is not None:
                        branches.append((dv, other))
                if flips % 2 == 1 and is_bool:
                    branches = [((not dv) if isinstance(dv, bool) else dv, tg) for dv, tg in branches]
                # an earlier `otherwise` decision on the same value restricts what is feasible now
                prev = st.decided.get(key)
                if isinstance(prev, tuple) and prev and prev[0] == "other" and mapping is not None:
                    feasible = set(prev[1])
                    nb = []
                    for dv, tg in branches:
                        if isinstance(dv, tuple) and dv[0] == "variant":
                            if dv[1] in feasible:
                                nb.append((dv, tg))
                        elif isinstance(dv, tuple) and dv[0] == "other":
                            rest2 = tuple(sorted(set(dv[1]) & feasible))
                            if len(rest2) == 1:
                                iv = [i for i, n_ in mapping.items() if n_ == rest2[0]][0]
                                nb.append((("variant", rest2[0], iv), tg))
                            elif rest2:
                                nb.append((("other", rest2), tg))
                        else:
                            nb.append((dv, tg))
                    branches = nb
                    if not branches:
                        self.finish(st, "infeasible", bb)
                        return
                for i, (dv, tg) in enumerate(branches):
                    s2 = st.fork() if i < len(branches) - 1 else st
                    s2.decisions.append((key, dv))
                    s2.decided[key] = dv
                    stack.append((s2, tg))
                return
            if k == "other":
                succ = t[2]
                if not succ:
                    self.finish(st, "other", bb)
                    return
                bb = succ[0]
                continue
            self.finish(st, "unknown:" + k, bb)
            return

    # -- inlining of small workspace helpers ----------------------------------------------------
    def should_inline(self, c, callee):
        if self.depth >= 2 or callee is self.fn:
            return False
        if self.pure(c) or (self.is_effect(c) and not self.inline_effects):
            return False
        if callable(self.inline):
            return bool(self.inline(c))
        if self.inline == "effects" and not self.is_effect(c):
            return False   # only look inside helpers that the effect predicate would otherwise flag by name
        # 'auto': small, loop-free, non-closure-taking workspace function
        if c.refs:
            return False
        live = [b for b in callee.blocks if not b["c"]]
        if len(live) > 80:
            return False
        try:
            if callee.sccs():
                return False
        except RecursionError:
            return False
        return True

    def try_inline(self, st, c, argv, bb, stack):
        callee = self.program.fns.get(c.resolved or "")
        if callee is None or callee.kind == "Closure" or len(argv) != callee.argc:
            return False
        if not self.should_inline(c, callee):
            return False
        env = {}
        for i, a in enumerate(argv):
            v = a
            if a[0] == "ref":
                v = ("refv", self.read_place(st, (a[1][0], [list(e) if isinstance(e, tuple) else e for e in a[1][1]])))
            env["_%d" % (i + 1)] = v
        sub = Explorer(callee, is_effect=self.is_effect, pure=self.pure, model=self.model, max_paths=self.max_paths,
                       record_stores=self.record_stores, max_visits=1, program=self.program, inline=self.inline,
                       depth=self.depth + 1, inline_effects=self.inline_effects)
        try:
            sub_paths = sub.run(0, env)
        except TooManyPaths:
            return False
        if not sub_paths or any(sp.end in ("loop", "stop") or sp.end.startswith("unknown") for sp in sub_paths):
            return False
        if len(sub_paths) > 64:
            return False
        base_ndec = len(st.decisions)
        forks = []
        for sp in sub_paths:
            if sp.end in ("unreachable", "infeasible", "resume", "abort"):
                continue
            s2 = st.fork()
            feasible = True
            for (k, v) in sp.decisions:
                if k in s2.decided and s2.decided[k] != v:
                    prev = s2.decided[k]
                    if not (isinstance(prev, tuple) and prev and prev[0] == "other"):
                        feasible = False
                        break
                s2.decisions.append((k, v))
                s2.decided[k] = v
            if not feasible:
                continue
            for e in sp.effects:
                s2.effects.append(Effect(e.kind, e.name, e.args, bb, e.line, e.call, base_ndec + e.ndec))
            forks.append((s2, sp))
        if not forks:
            return False
        # havoc locals whose &mut escapes into the call
        for (s2, sp) in forks:
            for a in argv:
                if a[0] == "ref" and len(a) > 2 and a[2]:
                    self.write_place(s2, (a[1][0], [list(e) if isinstance(e, tuple) else e for e in a[1][1]]),
                                     ("atom", "mut:%s@%s#%d" % (place_key(a[1]), short(c.name), c.ordinal)), bb, c.line)
            if sp.end == "ret" and c.target is not None:
                self.write_place(s2, c.dest, sp.ret if sp.ret is not None else ("atom", "ret:" + short(c.name)), bb, c.line)
                stack.append((s2, c.target))
            else:
                self.finish(s2, "diverge", bb)
        return True

    def default_call_value(self, c, argv):
        n = c.name
        if n.endswith("::Try>::branch") or c.declared == "std::ops::Try::branch":
            a0 = argv[0]
            # `?` on a value whose variant is known (it came out of an inlined helper): no fork
            if a0[0] == "agg" and a0[2] in ("Ok", "Some") and len(a0[3]) == 1:
                return ("agg", "adt", "Continue", (a0[3][0],))
            if a0[0] == "agg" and a0[2] in ("Err", "None"):
                return ("agg", "adt", "Break", (a0,))
            if a0[0] == "atom" and a0[1].startswith("residual("):
                return ("agg", "adt", "Break", (a0,))
            return ("atom", "try(%s)" % vkey(argv[0]))
        if c.declared == "std::ops::FromResidual::from_residual":
            return ("atom", "residual(%s)" % vkey(argv[0]))
        if c.declared == "std::ops::Deref::deref" or c.declared == "std::convert::AsRef::as_ref" \
                or c.declared == "std::borrow::Borrow::borrow":
            return ("atom", "%s" % vkey(argv[0])) if argv[0][0] == "atom" else ("atom", "deref(%s)" % vkey(argv[0]))
        if c.declared == "std::ops::Not::not" and argv:
            return self.neg(argv[0])
        if argv and ("From<bool> for " in n and n.endswith("::from")):
            # i32::from(b) / usize::from(b): 0 or 1
            if argv[0][0] == "k" and isinstance(argv[0][1], bool):
                return ("k", int(argv[0][1]))
            return ("atom", "frombool(%s)" % vkey(argv[0]))
        if n.startswith("std::boxed::Box::<T>::new") and c.ga:
            return ("atom", "box<%s>(%s)" % (c.ga[0], ",".join(vkey(a) for a in argv)))
        if self.pure(c):
            name = "%s(%s)" % (short(n), ",".join(vkey(a) for a in argv))
            PURECALLS[name] = (n, tuple(argv))
            return ("atom", name)
        return ("atom", "call:%s#%d%s" % (short(n), c.ordinal, self.site_suffix))


def explore(fn, start=0, env=None, **kw):
    ex = Explorer(fn, **kw)
    return ex.run(start, env)


def variant_name(dv):
    """decision value → readable"""
    if isinstance(dv, tuple) and dv and dv[0] == "variant":
        return dv[1]
    return dv


# ---------------------------------------------------------------------------------------------
# decision-table comparison

def check_table(paths, atom_of, spec, outcome_of, domains):
    """Compare the extracted decision table with a specification.

    atom_of(key, value) -> (atom, value) | None   semantic atom for a decision (None = don't care)
    spec(assign)        -> expected outcome for a *total* assignment of the atoms in `domains`
    outcome_of(path)    -> observed outcome, or None to ignore the path
    domains             -> {atom: [values]}
    Returns dict(deviations=[(assign, expected, got, path, unknown_decisions)], cells=n, uncovered=[assign..])"""
    import itertools
    atoms = sorted(domains)
    covered = set()
    deviations = []
    cells = 0
    for path in paths:
        got0 = outcome_of(path)
        if got0 is None:
            continue
        known = {}
        unknown = []
        contradictory = False
        for key, val in path.decisions:
            m = atom_of(key, val)
            if m is None:
                unknown.append((key, variant_name(val)))
                continue
            a, v = m
            if a in known and known[a] != v:
                contradictory = True
            known[a] = v
        if contradictory:
            continue
        free = [a for a in atoms if a not in known]
        for combo in itertools.product(*[domains[a] for a in free]):
            assign = dict(known)
            assign.update(dict(zip(free, combo)))
            row = tuple(assign[a] for a in atoms)
            covered.add(row)
            cells += 1
            exp = spec(assign)
            got = got0(assign) if callable(got0) else got0
            if exp != got:
                deviations.append((assign, exp, got, path, unknown))
    uncovered = []
    for combo in itertools.product(*[domains[a] for a in atoms]):
        if combo not in covered:
            uncovered.append(dict(zip(atoms, combo)))
    return {"deviations": deviations, "cells": cells, "uncovered": uncovered}


def external_or(names=()):
    """purity predicate for table rules: calls into other crates, Config getters and the listed leaf predicates are named
    atoms; every other workspace function is a candidate for inlining (inline='auto')"""
    def pred(c):
        n = c.name
        if not (n.startswith("rustfmt_nightly::") or n.startswith("<rustfmt_nightly::") or n.startswith("rustfmt::")
                or n.startswith("cargo_fmt::") or n.startswith("rustfmt_format_diff::")):
            return True
        if n.startswith("rustfmt_nightly::config::Config::") or n.startswith("rustfmt_nightly::config::CliConfigSetter") \
                or n.startswith("rustfmt_nightly::config::ConfigSetter"):
            return True
        return any(n.endswith(x) or x in n for x in names)
    return pred


def bool_outcome(v, atom_of):
    """outcome of a bool-returning path for check_table: a constant, or a function of the assignment when the function
    returns one of the table's atoms (or its negation) undecided"""
    if v is None:
        return None
    if v[0] == "k" and isinstance(v[1], bool):
        return v[1]
    neg = False
    while v[0] == "not":
        v = v[1]
        neg = not neg
    m = atom_of(vkey(v), True)
    if m is not None and m[1] is True:
        a = m[0]
        return (lambda assign, _a=a, _n=neg: (not assign[_a]) if _n else assign[_a])
    return "dyn:" + vkey(v)
