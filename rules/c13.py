"""C13 — exactly the reachable, non-excluded files are formatted, each once (partial).

R13-a format_file is fed only from the filtered module list · R13-b should_skip_module table · R13-c recursion gate
R13-d resolver errors are never a guess; fallback only on FileNotFound; FileModMap is an ordered map filled by entry/or_insert
"""
from absint import explore, vkey, variant_name, check_table, TooManyPaths
from common import short, edge_dominates, bool_branches


def run(ctx):
    p, r = ctx.p, ctx.r
    fp = p.fn("rustfmt_nightly::formatting::format_project")
    A = r.rule("R13-a", "format_project: the path/module handed to format_file derive from iterating the Vec collected from "
                        "visit_crate(..)?.into_iter().filter(|..| stdin ∨ ¬should_skip_module(..)); no other call to format_file")
    if fp is None:
        r.undecidable(A, "format_project not found")
    else:
        ff = [c for c in p.all_calls("rustfmt_nightly") if c.name.endswith("::format_file") and "FormatContext" in c.name]
        for c in ff:
            ok = c.fn.id == fp.id
            d = None
            if ok and len(c.args) > 1 and c.args[1][0] != "k":
                d = c.fn.derived_from(c.args[1][1][0])
                names = [x.name for x in d["calls"]]
                has_filter = [x for x in d["calls"] if x.declared == "std::iter::Iterator::filter"]
                has_visit = any(n.endswith("::visit_crate") for n in names)
                has_collect = any(x.declared == "std::iter::Iterator::collect" for x in d["calls"])
                clos_ok = False
                for fl in has_filter:
                    for x in fl.refs:
                        f2 = p.fns.get(x)
                        if f2 and any(cc.name.endswith("formatting::should_skip_module") for cc in f2.calls()):
                            clos_ok = True
                            # closure table: stdin ∨ ¬should_skip_module
                            paths = explore(f2, pure=lambda cc: cc.name.endswith("should_skip_module"))
                            r.paths(A, len(paths))
                            for path in paths:
                                if path.end != "ret" or path.ret is None:
                                    continue
                                dec = [(k, v) for k, v in path.decisions]
                                ret = vkey(path.ret)
                                stdin = [v for k, v in dec if "should_skip_module" not in k and isinstance(v, bool)]
                                if stdin and stdin[0] is True:
                                    okc = ret == "true"
                                else:
                                    okc = ret.startswith("!") and "should_skip_module(" in ret or (
                                        ret in ("true", "false") and any("should_skip_module" in k and v == (ret == "false") for k, v in dec))
                                r.cells(A, 1)
                                if not okc:
                                    r.violation(A, "format_project: filter closure returns %s" % short(ret)[:50],
                                                "the module filter is no longer `input_is_stdin || !should_skip_module(..)`",
                                                ["%s:%d" % (f2.file, f2.line)])
                if not has_visit and not has_filter:
                    # the list is a Vec filled by pushes: follow the elements pushed into it
                    g0 = c.fn
                    made = {x.dest[0] for x in d["calls"] if x.name.rsplit("::", 1)[-1] in ("new", "with_capacity") and "Vec" in x.name and not x.dest[1]}
                    for x in g0.calls():
                        if x.name.endswith("::push") and "Vec" in x.name and len(x.args) > 1 and x.args[0][0] != "k" and x.args[1][0] != "k":
                            rd = g0.single_def(x.args[0][1][0])
                            tgt = rd[2][2][2][0] if rd and rd[1] == "assign" and rd[2][2][0] == "ref" else x.args[0][1][0]
                            if tgt in made and any(y.name.endswith("::visit_crate") for y in g0.derived_from(x.args[1][1][0])["calls"]):
                                has_visit = True
                if has_visit and not has_filter:
                    # loop form: `for (path, module) in visit_crate(..)? { if !stdin && should_skip_module(..) { continue; } files.push(..) }`
                    from common import natural_loops, bool_branches
                    g = c.fn
                    pushes = [x for x in g.calls() if x.name.endswith("::push") and "Vec" in x.name and x in d["calls"] or (
                        x.name.endswith("::push") and "Vec" in x.name and len(x.args) > 1 and x.args[1][0] != "k"
                        and any(y.name.endswith("::visit_crate") for y in g.derived_from(x.args[1][1][0])["calls"]))]
                    skips = [x for x in g.calls() if x.name.endswith("formatting::should_skip_module")]
                    loop_ok = bool(pushes) and bool(skips)
                    for pu in pushes:
                        heads = [h for h, body in natural_loops(g) if pu.bb in body]
                        guarded = False
                        for sk in skips:
                            for sw, tt, t_false_ in bool_branches(g, sk.dest[0]):
                                if tt is not None and pu.bb not in g.reachable(tt, stop_blocks=heads) and sk.bb in g.reachable(heads[0] if heads else 0):
                                    # the skip test itself may only be bypassed on the stdin edge
                                    guarded = True
                        loop_ok = loop_ok and guarded
                    if loop_ok:
                        has_collect = clos_ok = True
                ok = ok and has_visit and has_collect and clos_ok
            r.instance(A, c.key(), "ok" if ok else "violation", c.loc())
            if not ok:
                r.violation(A, "format_file fed outside the filtered module list in %s" % short(c.fn.id),
                            "a file is formatted that did not pass `stdin ∨ ¬should_skip_module` (skip attribute, skip_children, "
                            "ignore list, @generated)", [c.loc()])
        r.floor(A, len(ff), 1, "format_file call sites")

    B = r.rule("R13-b", "decision table of should_skip_module (64 cells): true iff contains_skip ∨ (skip_children ∧ path ≠ main) ∨ "
                        "(¬stdin ∧ ignored) ∨ (¬stdin ∧ ¬format_generated_files ∧ generated)")
    sm = p.fn("rustfmt_nightly::formatting::should_skip_module")
    if sm is None:
        r.undecidable(B, "should_skip_module not found")
    else:
        from absint import external_or
        paths = explore(sm, pure=external_or(("utils::contains_skip", "::ignore_file", "is_generated_file", "Module::<'a>::attrs",
                                              "span_to_file_contents")), program=p, inline="auto")
        r.paths(B, len(paths))

        def atom_of(key, val):
            if not isinstance(val, bool):
                return None
            if "contains_skip(" in key:
                return ("skip", val)
            if "Config::skip_children(" in key:
                return ("sc", val)
            if "::ne(arg5,arg4)" in key or "::ne(arg4,arg5)" in key:
                return ("notmain", val)
            if "::eq(arg5,arg4)" in key or "::eq(arg4,arg5)" in key:
                return ("notmain", not val)
            if key == "arg3":
                return ("stdin", val)
            if "ignore_file(" in key:
                return ("ign", val)
            if "format_generated_files(" in key:
                return ("fgf", val)
            if "is_generated_file(" in key:
                return ("gen", val)
            return None

        def spec(a):
            return a["skip"] or (a["sc"] and a["notmain"]) or (not a["stdin"] and a["ign"]) or \
                (not a["stdin"] and not a["fgf"] and a["gen"])

        from absint import bool_outcome

        def outcome(path):
            if path.end != "ret" or path.ret is None:
                return None
            return bool_outcome(path.ret, atom_of)
        Bv = [False, True]
        res = check_table(paths, atom_of, spec, outcome, {k: Bv for k in ("skip", "sc", "notmain", "stdin", "ign", "fgf", "gen")})
        r.cells(B, res["cells"])
        bad = {}
        for (assign, exp, got, path, unknown) in res["deviations"]:
            bad.setdefault(tuple(sorted(assign.items())), (assign, exp, got, unknown))
        r.instance(B, "should_skip_module table", "ok" if not bad and not res["uncovered"] else "deviates", "%s:%d" % (sm.file, sm.line),
                   "%d cells, %d deviate" % (res["cells"], len(bad)))
        if res["uncovered"]:
            r.undecidable(B, "%d cells not covered" % len(res["uncovered"]))
        for k, (assign, exp, got, unknown) in list(sorted(bad.items()))[:5]:
            r.violation(B, "should_skip_module: %s" % ",".join("%s=%d" % (a, int(v)) for a, v in sorted(assign.items())),
                        "returns %s where the table gives %s%s" % (got, exp, (" under %s" % unknown) if unknown else ""),
                        ["%s:%d" % (sm.file, sm.line)])

    C = r.rule("R13-c", "the resolver is created with recursive = ¬stdin ∧ ¬skip_children, and ModResolver::visit_crate descends "
                        "into children only under `self.recursive`")
    if fp is not None:
        try:
            paths = explore(fp, is_effect=lambda c: "ModResolver" in c.name and c.name.endswith("::new"),
                            pure=lambda c: c.name.endswith("skip_children") or c.name.endswith("PartialEq>::eq")
                            or c.declared in ("std::cmp::PartialEq::eq", "std::cmp::PartialEq::ne"), max_paths=50000)
        except TooManyPaths as e:
            paths = []
            r.undecidable(C, str(e))
        r.paths(C, len(paths))
        seen = {}
        for path in paths:
            for e in path.effects:
                if e.kind != "call" or len(e.args) < 3:
                    continue
                stdin = None
                for k, v in path.decisions:
                    if "file_name" in k and "Stdin" in k and isinstance(v, bool):
                        stdin = v if "::eq(" in k else (not v)
                seen.setdefault(stdin, set()).add(vkey(e.args[2]))
        ok = seen.get(True) == {"false"} and seen.get(False) == {"!config::Config::skip_children(arg2)"}
        r.instance(C, "ModResolver::new(.., recursive)", "ok" if ok else "violation", "%s:%d" % (fp.file, fp.line), str(seen))
        if not ok:
            r.violation(C, "format_project: recursive flag is %s" % seen,
                        "children must not be resolved for stdin input or with skip_children; the flag passed to the resolver is "
                        "no longer ¬stdin ∧ ¬skip_children", ["%s:%d" % (fp.file, fp.line)])
    vc = p.named("visit_crate", within="modules::ModResolver")
    if vc is None:
        r.undecidable(C, "ModResolver::visit_crate not found")
    else:
        from common import switch_origin, switch_true_false
        desc = [c for c in vc.calls() if c.name.endswith("::visit_mod_from_ast") or c.name.endswith("visit_cfg_if")
                or c.name.endswith("visit_cfg_match")]
        ok = False
        for bb in range(len(vc.blocks)):
            o = switch_origin(vc, bb)
            tf = switch_true_false(vc, bb)
            if o and o[0] == "field" and o[2] == "recursive" and tf:
                if desc and all(edge_dominates(vc, (bb, tf[0]), c.bb) for c in desc):
                    ok = True
        r.instance(C, "visit_crate descends only under self.recursive", "ok" if ok else "violation", "%s:%d" % (vc.file, vc.line),
                   "%d descending calls" % len(desc))
        if not ok:
            r.violation(C, "visit_crate descends without the recursive gate",
                        "out-of-line modules are resolved although recursion is switched off (stdin / skip_children)",
                        ["%s:%d" % (vc.file, vc.line)])

    skipped_modules_not_resolved(ctx, "R13-e")
    parse_errors_are_errors(ctx, "R13-f")
    modules_come_from_the_parser(ctx, "R13-g")
    registered_modules_come_from_their_file(ctx, "R13-h")
    ownership_table(ctx, "R13-i")
    resolution_errors_not_overwritten(ctx, "R13-j")
    paths_compared_by_component(ctx, "R13-k")
    only_a_missing_default_file_is_forgiven(ctx, "R13-l")
    relative_offset_is_consumed(ctx, "R13-m")
    macro_bodies_keep_every_module(ctx, "R13-n")
    only_cfg_attr_names_further_files(ctx, "R13-o")
    macro_recognisers_look_at_the_macro_name(ctx, "R13-p")

    D = r.rule("R13-d", "ParseSess::default_submod_path retries in the declaring file's own directory only for "
                        "ModError::FileNotFound with a relative owner, every other error is passed on unchanged; the module map "
                        "is a BTreeMap<FileName, _> filled through entry().or_insert")
    cl = [f for f in p.fns.values() if f.kind == "Closure" and f.root and f.root.endswith("ParseSess::default_submod_path")
          and any(c.name.endswith("rustc_expand::module::default_submod_path") for c in f.calls())]
    ds = p.named("default_submod_path", within="parse::session::ParseSess")
    bodies = cl if cl else ([ds] if ds is not None else [])
    if not bodies:
        r.undecidable(D, "ParseSess::default_submod_path not found")
    else:
        # the body that contains the *retry* (a rustc default_submod_path call with `None` as relative)
        checked = 0
        for f in bodies + ([ds] if ds is not None and ds not in bodies else []):
            retry = [c for c in f.calls() if c.name.endswith("rustc_expand::module::default_submod_path")]
            if not retry:
                continue
            try:
                paths = explore(f, is_effect=lambda c: c.name.endswith("rustc_expand::module::default_submod_path"),
                                pure=lambda c: c.name.endswith("is_some"))
            except TooManyPaths as e:
                r.undecidable(D, str(e))
                continue
            r.paths(D, len(paths))
            for path in paths:
                calls = [e for e in path.effects if e.kind == "call"]
                # a retry is a call whose `relative` argument is the constant None
                retries = [e for e in calls if len(e.args) > 2 and vkey(e.args[2]) == "None"]
                if not retries:
                    continue
                checked += 1
                kinds = [variant_name(v) for k, v in path.decisions if k.startswith("discr(") and not k.endswith("relative)")]
                rel = [v for k, v in path.decisions if "is_some(" in k and isinstance(v, bool)]
                ok = "FileNotFound" in kinds and rel == [True]
                r.instance(D, "fallback path: error kinds %s, relative.is_some=%s" % (kinds, rel), "ok" if ok else "violation",
                           "%s:%d" % (f.file, f.line))
                if not ok:
                    r.violation(D, "default_submod_path: fallback taken for %s" % (kinds or "any error"),
                                "the retry in the declaring file's own directory is reached without the error having been "
                                "decided to be ModError::FileNotFound (decisions: %s): an ambiguous module "
                                "(MultipleCandidates) would be resolved to a guess" % [(k[-30:], variant_name(v)) for k, v in path.decisions],
                                ["%s:%d" % (f.file, f.line)])
        r.floor(D, checked, 1, "fallback paths of default_submod_path")
    # module map type and fill discipline
    mr = p.adts.get("rustfmt_nightly::modules::ModResolver")
    ok = False
    if mr:
        for v in mr["variants"]:
            for (fname, fty) in v["fields"]:
                if fname == "file_map":
                    ok = "BTreeMap<rustfmt_nightly::config::file_lines::FileName" in fty
    r.instance(D, "ModResolver.file_map is a BTreeMap keyed by FileName", "ok" if ok else "violation", "src/modules.rs")
    if not ok:
        r.violation(D, "ModResolver.file_map is not a BTreeMap<FileName, _>",
                    "files could be formatted twice or in hash order", ["src/modules.rs"])
    idx = p.field_index()
    writers = set()
    for (adt, var, field), modes in idx.items():
        if adt == "rustfmt_nightly::modules::ModResolver" and field == "file_map":
            writers |= modes.get("w", set())
    bad = []
    for fid in sorted(writers):
        f = p.fns[fid]
        ins = [c for c in f.calls() if "BTreeMap" in c.name and c.name.rsplit("::", 1)[-1] in ("insert", "extend", "append")]
        ent = [c for c in f.calls() if "BTreeMap" in c.name and c.name.endswith("::entry")]
        root_insert = f.name == "visit_crate" and len(ins) == 1
        if ins and not ent and not root_insert:
            bad.append((f, ins[0]))
        r.instance(D, "file_map written in %s" % short(fid),
                   "exception" if root_insert else ("ok" if not (ins and not ent) else "violation"), "%s:%d" % (f.file, f.line),
                   "entry()×%d insert×%d%s" % (len(ent), len(ins), "; the crate root is inserted once, last, under its own "
                                               "name: if a child path named the root file the root's own module wins, still one entry"
                                               if root_insert else ""), nontrivial=not root_insert)
    for (f, c) in bad:
        r.violation(D, "file_map filled with %s in %s" % (c.name.rsplit("::", 1)[-1], short(f.id)),
                    "a file reached twice replaces its first entry instead of being kept once (entry().or_insert)", [c.loc()])


def skipped_modules_not_resolved(ctx, rid):
    """R13-e / R04-e: a `mod` item carrying a skip attribute is never resolved"""
    import c04
    p, r = ctx.p, ctx.r
    r.rule(rid, "every route to ModResolver::find_external_module / the Internal sub-module result passes a contains_skip test on "
                "the mod item's attributes whose true edge answers `nothing to visit`: the test sits in peek_sub_mod (through which "
                "every visit_sub_mod goes), or else in front of every call of visit_sub_mod")
    pk = p.named("peek_sub_mod", within="modules::ModResolver")
    vs = p.named("visit_sub_mod", within="modules::ModResolver")
    if pk is None or vs is None:
        r.undecidable(rid, "peek_sub_mod / visit_sub_mod not found")
        return
    targets = [c for c in pk.calls() if c.name.endswith("::find_external_module")]
    gs = c04.guards_dominating(pk, targets[0].bb) if targets else []
    central = bool(gs) and any(g.name == c04.CONTAINS_SKIP for (g, sw, t) in gs)
    # peek_sub_mod must be the only way into find_external_module
    fe_callers = {src for (src, kind, c) in p.callers().get(targets[0].resolved, [])} if targets else set()
    if central and fe_callers <= {pk.id}:
        r.instance(rid, "peek_sub_mod: contains_skip dominates find_external_module", "ok", "%s:%d" % (pk.file, pk.line))
        r.floor(rid, 1, 1, "central guard")
        return
    # otherwise every call site of visit_sub_mod must be guarded in its caller
    sites = [(src, c) for (src, kind, c) in p.callers().get(vs.id, []) if c is not None and kind == "direct"]
    n = 0
    for src, c in sites:
        f = p.fns[src]
        ok = bool(c04.guards_dominating(f, c.bb))
        n += 1
        r.instance(rid, "%s: visit_sub_mod #%d" % (short(src), c.ordinal), "ok" if ok else "violation", c.loc())
        if not ok:
            r.violation(rid, "%s resolves a module without a skip test" % short(src),
                        "peek_sub_mod no longer tests #[rustfmt::skip] and this caller of visit_sub_mod has no test of its own: a "
                        "skipped `mod x;` declared here (e.g. inside cfg_if!/cfg_match!) is resolved, parsed and formatted",
                        [c.loc()])
    r.floor(rid, n, 1, "call sites of visit_sub_mod")


def parse_errors_are_errors(ctx, rid):
    """R13-f / R05-h: a module file that fails to parse is an error of the whole root, never swallowed"""
    p, r = ctx.p, ctx.r
    r.rule(rid, "ModResolver::find_external_module and ::find_mods_outside_of_ast: on every path on which "
                "Parser::parse_file_as_module answered Err and ParserError::ParseError has not been excluded, the function returns "
                "Err (a ModuleResolutionError) — it neither returns Ok nor goes round its loop to the next candidate: a syntax "
                "error in a reached file (default location, #[path], #[cfg_attr(path)]) must fail the root before anything is written")
    PURE = ("parse_file_as_module", "is_file_parsed", "submod_path_from_attr", "default_submod_path", "contains_skip", "::is_empty",
            "find_mods_outside_of_ast", "::exists", "::paths", "::clone", "::push")
    total = 0
    for name in ("find_external_module", "find_mods_outside_of_ast"):
        f = p.named(name, within="modules::ModResolver")
        if f is None:
            r.undecidable(rid, "%s not found" % name)
            continue
        try:
            paths = explore(f, pure=lambda c: any(x in c.name for x in PURE), max_paths=200000, program=p, inline="auto")
        except TooManyPaths as e:
            r.undecidable(rid, str(e))
            continue
        r.paths(rid, len(paths))
        n = 0
        for path in paths:
            failed = False
            excluded = False      # the path has established that the error is *not* ParseError
            for k, v in path.decisions:
                if "parse_file_as_module(" not in k:
                    continue
                if k.endswith("as Err.0)"):
                    vn = variant_name(v)
                    if isinstance(vn, tuple) and vn and vn[0] == "other":
                        excluded = "ParseError" not in vn[1]
                    else:
                        excluded = vn != "ParseError"
                elif variant_name(v) == "Err":
                    failed, excluded = True, False
            if not failed:
                continue
            if path.end not in ("ret", "loop"):
                continue
            n += 1
            if path.end == "ret" and path.ret is not None:
                ret = vkey(path.ret)
                ok = ret.startswith("Err(") or ret.startswith("residual(") or excluded
                outcome = ret.split("(")[0]
            else:
                ok = excluded
                outcome = "next iteration"
            r.instance(rid, "%s[parse failed, ParseError %s] → %s" % (name, "excluded" if excluded else "possible", outcome),
                       "ok" if ok else "violation", "%s:%d" % (f.file, f.line))
            if not ok:
                r.violation(rid, "%s swallows a parse error (%s)" % (name, "returns %s" % outcome if path.end == "ret" else "goes on to the next candidate"),
                            "Parser::parse_file_as_module answered Err and the path %s without having excluded "
                            "ParserError::ParseError: a module file with a syntax error lets the run go on, exit 0 and rewrite the "
                            "other files of the crate (decisions: %s)" % (
                                "returns %s" % outcome if path.end == "ret" else "continues with the next path",
                                [(k[-30:], variant_name(v)) for k, v in path.decisions][-4:]),
                            ["%s:%d" % (f.file, f.line)])
        total += n
    r.floor(rid, total, 3, "parse-failure paths of the external-module finders")


def modules_come_from_the_parser(ctx, rid):
    """R13-g: the items of an out-of-line module are what the parser found in its file"""
    p, r = ctx.p, ctx.r
    r.rule(rid, "Parser::parse_file_as_module: every returning path that answers Ok(..) has passed the parser invocation "
                "(catch_unwind around parse_mod) — the resolver discovers the children of a module only in those items, so a "
                "fabricated (empty) module silently removes every file below it from the run")
    f = p.named("parse_file_as_module", within="parse::parser::Parser")
    if f is None:
        r.undecidable(rid, "Parser::parse_file_as_module not found")
        return
    def is_parse(c):
        return c.name == "std::panic::catch_unwind" or c.name.endswith("::parse_mod") or c.name.endswith("new_parser_from_file")
    try:
        def acceptance_helper(c):
            # a private helper of the parser module that turns the parsed value into the Result (it runs no parser itself)
            h = p.fns.get(c.name)
            return h is not None and h.id.startswith("rustfmt_nightly::parse::parser::") and "ParserError" in h.locals[0] \
                and h.id != f.id and not any(is_parse(x) for x in h.calls())
        paths = explore(f, is_effect=is_parse, pure=lambda c: not is_parse(c) and not acceptance_helper(c), max_paths=20000,
                        program=p, inline="auto")
    except TooManyPaths as e:
        r.undecidable(rid, str(e))
        return
    r.paths(rid, len(paths))
    n = 0
    for path in paths:
        if path.end != "ret" or path.ret is None:
            continue
        ret = vkey(path.ret)
        if not ret.startswith("Ok("):
            continue
        n += 1
        ran = any(e.kind == "call" for e in path.effects)
        r.instance(rid, "parse_file_as_module Ok path", "ok" if ran else "violation", "%s:%d" % (f.file, f.line))
        if not ran:
            r.violation(rid, "parse_file_as_module answers Ok without parsing the file",
                        "a path returns %s without having run the parser (decisions: %s): the module's own `mod` declarations are "
                        "never seen, so the files they name are not formatted" % (short(ret)[:60], [(k[-40:], variant_name(v)) for k, v in path.decisions][-3:]),
                        ["%s:%d" % (f.file, f.line)])
    r.floor(rid, n, 1, "Ok-returning paths of parse_file_as_module")


def registered_modules_come_from_their_file(ctx, rid):
    """R13-h / R05-i: what is registered under a path is what was parsed from that path"""
    p, r = ctx.p, ctx.r
    r.rule(rid, "modules::ModResolver::{find_external_module, find_mods_outside_of_ast}: every Module paired with a file path (the "
                "pairs end up in file_map and are written back to that path) is built by Module::new from the result of "
                "Parser::parse_file_as_module; the declaration `sub_mod` received from the parent file is never cloned into such a "
                "pair — its text is the parent's")
    n_new = 0

    def fed_by_parse(g, op, depth=0):
        """the operand derives from Parser::parse_file_as_module — in g, or (g a private helper) at every call site of g"""
        if op[0] == "k":
            return False
        d = g.derived_from(op[1][0])
        if any(x.name.endswith("parse_file_as_module") for x in d["calls"]):
            return True
        if depth >= 2 or g.vis == "pub" or not d["args"]:
            return False
        sites = [(src, c) for (src, kind, c) in p.callers().get(g.id, []) if c is not None]
        if not sites:
            return False
        for (src, c) in sites:
            caller = p.fns[src]
            if not any(k_ - 1 < len(c.args) and fed_by_parse(caller, c.args[k_ - 1], depth + 1) for k_ in d["args"]):
                return False
        return True

    for name in ("find_external_module", "find_mods_outside_of_ast"):
        f = p.named(name, within="modules::ModResolver")
        if f is None:
            r.undecidable(rid, "ModResolver::%s not found" % name)
            continue
        subs = [i for i in range(1, f.argc + 1) if "modules::Module" in f.locals[i]]
        family = [f]
        for c in f.calls():
            h = p.fns.get(c.resolved or "")
            if h is not None and h.crate == f.crate and "modules::" in h.id and h.vis != "pub" and h not in family \
                    and any(cc.name.endswith("modules::Module::<'a>::new") or cc.name.endswith("modules::Module::new") for cc in h.calls()):
                family.append(h)
        for g in family:
            for c in g.calls():
                if c.name.endswith("modules::Module::<'a>::new") or c.name.endswith("modules::Module::new"):
                    from_parse = len(c.args) > 2 and fed_by_parse(g, c.args[2])
                    n_new += 1
                    r.instance(rid, "%s: Module::new from the parsed file" % name, "ok" if from_parse else "violation", c.loc())
                    if not from_parse:
                        r.violation(rid, "%s: Module::new not fed by parse_file_as_module" % name,
                                    "a Module registered under a path is built from something else than the items parsed from that path",
                                    [c.loc()])
        for c in f.calls():
            if c.name.endswith("as std::clone::Clone>::clone") and "modules::Module" in c.name and c.args and c.args[0][0] != "k":
                d = f.derived_from(c.args[0][1][0])
                if any(s_ in d["locals"] or s_ in d["args"] for s_ in subs):
                    r.instance(rid, "%s: clone of the declaration" % name, "violation", c.loc())
                    r.violation(rid, "%s registers the parent's declaration under a file path" % name,
                                "`sub_mod.clone()` (the `mod x;` item of the parent file) is paired with the path of a module file: "
                                "when nothing else was registered for that path (the file is `#![rustfmt::skip]`, or could not be "
                                "parsed) the parent's text is written to it", [c.loc()])
    r.floor(rid, n_new, 1, "Module::new sites in the external-module finders")


def ownership_table(ctx, rid):
    """R13-i: which directory the children of an out-of-line module are looked up in"""
    p, r = ctx.p, ctx.r
    r.rule(rid, "ModResolver::find_external_module, SubModKind::External(path, ownership, _): a module named by #[path] owns its "
                "file's directory outright — ownership = Owned { relative: None } — and a module found at its default location "
                "takes the dir_ownership computed by default_submod_path together with its file_path (the same call): the language's "
                "rules for where `mod b;` inside that file is looked up")
    f = p.named("find_external_module", within="modules::ModResolver")
    if f is None:
        r.undecidable(rid, "find_external_module not found")
        return
    PURE = ("parse_file_as_module", "is_file_parsed", "submod_path_from_attr", "default_submod_path", "contains_skip", "::is_empty",
            "find_mods_outside_of_ast")
    try:
        paths = explore(f, pure=lambda c: any(x in c.name for x in PURE), max_paths=200000, program=p, inline="auto")
    except TooManyPaths as e:
        r.undecidable(rid, str(e))
        return
    r.paths(rid, len(paths))
    n_attr = n_def = 0
    for path in paths:
        v = path.ret
        if path.end != "ret" or v is None:
            continue
        # Ok(Some(External(a, b, c)))
        try:
            inner = v
            for want in ("Ok", "Some"):
                if not (inner[0] == "agg" and inner[2] == want and inner[3]):
                    raise ValueError
                inner = inner[3][0]
            if not (inner[0] == "agg" and inner[2] == "External" and len(inner[3]) >= 2):
                continue
        except (ValueError, IndexError):
            continue
        a, b = vkey(inner[3][0]), vkey(inner[3][1])
        by_attr = any("submod_path_from_attr(" in k and variant_name(val) == "Some" for k, val in path.decisions)
        if by_attr:
            n_attr += 1
            ok = b == "Owned(None)"
            r.instance(rid, "External[#[path]] ownership = %s" % short(b)[:40], "ok" if ok else "violation", "%s:%d" % (f.file, f.line))
            if not ok:
                r.violation(rid, "find_external_module: a #[path] module does not own its directory outright",
                            "the module named by #[path] is given ownership %s instead of Owned { relative: None }: a `mod b;` inside "
                            "that file is looked up in a sub-directory named after the *declaring* file, so a stray file there is "
                            "formatted instead of the module's real file" % short(b)[:80], ["%s:%d" % (f.file, f.line)])
        else:
            n_def += 1
            ok = "default_submod_path(" in a and a.endswith(".file_path") and b == a[:-len(".file_path")] + ".dir_ownership"
            r.instance(rid, "External[default location] ownership from the same resolution", "ok" if ok else "violation",
                       "%s:%d" % (f.file, f.line))
            if not ok:
                r.violation(rid, "find_external_module: default-location module with foreign ownership",
                            "file path %s is paired with ownership %s, not with the dir_ownership default_submod_path computed for it"
                            % (short(a)[-60:], short(b)[-60:]), ["%s:%d" % (f.file, f.line)])
    r.floor(rid, n_attr, 1, "External results of the #[path] branch")
    r.floor(rid, n_def, 1, "External results of the default branch")


def resolution_errors_not_overwritten(ctx, rid):
    """R05-j / R13-j: a module-resolution error is never replaced by a later success"""
    from common import natural_loops, discr_branches
    p, r = ctx.p, ctx.r
    r.rule(rid, "modules::ModResolver: the Result<_, ModuleResolutionError> of every resolver call made inside a loop is consumed at "
                "once — `?`, a match on it, or returned — and is not parked in a variable that a later iteration assigns again: "
                "`result = self.visit_sub_mod(..)` in a loop reports only the last module's outcome, an earlier unresolvable or "
                "unparsable module is forgotten and the run goes on to write files")
    n = 0
    for f in p.by_crate["rustfmt_nightly"]:
        if "modules::ModResolver" not in f.id:
            continue
        loops = natural_loops(f)
        if not loops:
            continue
        in_loop = set()
        for h, body in loops:
            in_loop |= body
        for c in f.calls():
            g = p.fns.get(c.resolved or "")
            if g is None or "ModuleResolutionError" not in g.locals[0] or "Result" not in g.locals[0]:
                continue
            if c.bb not in in_loop or c.dest[1]:
                continue
            n += 1
            from common import _moves_of
            locs = [c.dest[0]] + list(_moves_of(f, c.dest[0]))
            consumed = any(x.declared == "std::ops::Try::branch" and x.args and x.args[0][0] != "k" and x.args[0][1][0] in locs
                           and x.bb in in_loop for x in f.calls())
            consumed = consumed or any(sw in in_loop for l in locs for (sw, m, other) in discr_branches(f, l))
            defs = max((f.defs().get(l, []) for l in locs), key=len)
            parked = len(defs) > 1 and not consumed
            key = "%s: result of %s" % (short(f.id), short(c.name).rsplit("::", 1)[-1])
            r.instance(rid, key, "violation" if parked else "ok", c.loc(), "consumed at once" if consumed else "%d assignments" % len(defs))
            if parked:
                r.violation(rid, "%s overwrites the outcome of %s from one iteration to the next" % (short(f.id), short(c.name).rsplit("::", 1)[-1]),
                            "the Result is assigned to a variable that is also assigned elsewhere and is neither `?`-ed nor matched: "
                            "only the last module visited in the loop decides whether the crate root fails", [c.loc()])
    r.floor(rid, n, 2, "resolver calls inside loops of ModResolver")


def paths_compared_by_component(ctx, rid):
    """R13-k: where modules are looked up is decided on path components, never on the spelling of a whole path"""
    p, r = ctx.p, ctx.r
    r.rule(rid, "in the functions that decide where the children of a file are looked up (Input::to_directory_ownership, "
                "modules::ModResolver, parse::parser) no branch depends on a whole `Path` rendered as text (`Path::to_string_lossy`, "
                "`Path::to_str`, `Path::display`): a textual test cannot tell a component from part of one — `ends_with(\"mod.rs\")` "
                "is also true of `datamod.rs` — and the children of such a root are then looked up in the wrong directory.  "
                "Rendering a single component (`file_stem().to_str()`) into a module name is data, not a decision, and is allowed")
    CONV = ("to_string_lossy", "to_str", "display", "into_os_string")
    n = 0
    for f in p.by_crate["rustfmt_nightly"]:
        sid = short(f.id)
        if not ("to_directory_ownership" in sid or sid.startswith("modules::") or sid.startswith("parse::parser::")):
            continue
        n += 1
        bad = []
        for bb in range(len(f.blocks)):
            t = f.term(bb)
            if t[0] != "switch" or t[1][0] == "k":
                continue
            d = f.derived_from(t[1][1][0])
            for c in d["calls"]:
                if c.name.rsplit("::", 1)[-1] in CONV and ("path::Path::" in c.name or "path::PathBuf::" in c.name):
                    bad.append(c)
        r.instance(rid, "%s" % sid.split("::{closure")[0], "violation" if bad else "ok", "%s:%d" % (f.file, f.line),
                   "%d branches on rendered paths" % len(bad), nontrivial=bool(bad) or "to_directory_ownership" in sid)
        for c in bad[:1]:
            r.violation(rid, "%s branches on the text of a whole path" % sid.split("::{closure")[0],
                        "a decision derives from `%s`: path components are compared as text" % short(c.name).rsplit("::", 1)[-1],
                        [c.loc()])
    r.floor(rid, n, 10, "module-resolution functions")


def only_a_missing_default_file_is_forgiven(ctx, rid):
    """R13-l / R05-m: when cfg_attr paths exist, the only failure of the default-file lookup that is passed over is "not found" """
    from absint import explore, vkey, TooManyPaths
    p, r = ctx.p, ctx.r
    r.rule(rid, "modules::ModResolver::find_external_module: on every path on which `default_submod_path` answered Err and the "
                "function nevertheless returns Ok (the `#[cfg_attr(.., path = ..)]` alternatives are taken instead), the error has "
                "been identified as `ModError::FileNotFound`.  Two candidates for the default file (`m.rs` and `m/mod.rs`), a module "
                "in a block, a circular inclusion are errors whatever alternatives exist: rustc rejects the crate, and a run that "
                "passes them over formats the other files and exits 0")
    f = p.named("find_external_module", within="modules::ModResolver")
    if f is None:
        r.undecidable(rid, "ModResolver::find_external_module not found")
        return
    try:
        paths = explore(f, pure=lambda c: True, max_paths=50000, program=p)
    except TooManyPaths as e:
        r.undecidable(rid, str(e))
        return
    n = 0
    bad = []
    for pa in paths:
        if pa.end != "ret" or pa.ret is None or not vkey(pa.ret).startswith("Ok("):
            continue
        def direct(k):
            return k.startswith("discr(") and k[6:].split("(", 1)[0].endswith("default_submod_path")
        failed = [k for k, v in pa.decisions if direct(k) and isinstance(v, tuple) and v[1] == "Err" and " as Err" not in k]
        if not failed:
            continue
        n += 1
        kinds = [v for k, v in pa.decisions if direct(k) and k.endswith(" as Err.0)") and isinstance(v, tuple)]
        ok = any(v[0] == "variant" and v[1] == "FileNotFound" for v in kinds)
        if not ok:
            bad.append(kinds)
    r.instance(rid, "find_external_module: Ok after a failed default lookup only for FileNotFound", "violation" if bad else "ok",
               "%s:%d" % (f.file, f.line), "%d such paths" % n)
    if bad:
        r.violation(rid, "find_external_module passes over a failure of the default-file lookup other than FileNotFound",
                    "a path returns Ok although default_submod_path failed and the error was %s" %
                    ("never examined" if not bad[0] else [v[1] for v in bad[0]]), ["%s:%d" % (f.file, f.line)])
    r.floor(rid, n, 1, "Ok-returning paths of find_external_module after a failed default lookup")


def relative_offset_is_consumed(ctx, rid):
    """R13-m: entering an inline module uses up the `relative` offset of the enclosing file"""
    p, r = ctx.p, ctx.r
    r.rule(rid, "ModResolver::push_inline_mod_directory: when the directory path is extended by the `relative` name of the current "
                "ownership (`x/y.rs` ⇒ children live under `x/y/`), that name is *taken* out of the ownership "
                "(`relative.take()`, or the ownership is overwritten) — the pushed component derives from `Option::take`, not from "
                "a copy of the field.  A copy leaves the offset in force for the modules nested inside: `mod a { mod b { mod c; } }` "
                "is then looked up under `…/a/y/b/y/c.rs`, and with one level of nesting a stray file there is formatted in place "
                "of the real one")
    f = p.named("push_inline_mod_directory", within="modules::ModResolver")
    if f is None:
        r.undecidable(rid, "ModResolver::push_inline_mod_directory not found")
        return
    n = 0
    for c in f.calls():
        if not c.name.endswith("PathBuf::push") or len(c.args) < 2 or c.args[1][0] == "k":
            continue
        d = f.derived_from(c.args[1][1][0])
        from_rel = any(str(x[2]) == "relative" for x in d["fields"])
        if not from_rel:
            continue
        n += 1
        taken = any(x.name.endswith("Option::<T>::take") or x.name.endswith("mem::take") or x.name.endswith("mem::replace") for x in d["calls"])
        r.instance(rid, "push_inline_mod_directory pushes the relative offset", "ok" if taken else "violation", c.loc(),
                   "taken out of the ownership" if taken else "copied, the ownership keeps it")
        if not taken:
            r.violation(rid, "push_inline_mod_directory pushes the relative offset without consuming it",
                        "the component pushed onto the directory path is a copy of `ownership.relative`; the field is not emptied, "
                        "so nested inline modules apply the offset again", [c.loc()])
    r.floor(rid, n, 1, "pushes of the relative offset in push_inline_mod_directory")


def macro_bodies_keep_every_module(ctx, rid):
    """R13-n: the module items of a cfg_if! / cfg_match! body are kept whatever kind of module they are"""
    import re
    from common import unit_with_private_helpers
    p, r = ctx.p, ctx.r
    r.rule(rid, "parse::macros::cfg_if::parse_cfg_if_inner and cfg_match::parse_cfg_match_inner collect the `mod` items of the "
                "macro body for the module resolver. They select by `ItemKind::Mod` alone: neither (with its closures and "
                "private helpers) reads the discriminant of `ModKind`, `Inline` or the item list of a loaded module. An inline "
                "module (`mod imp { mod unix; }`) has out-of-line children of its own; a collector that keeps only "
                "`ModKind::Unloaded` never shows them to the resolver — their files are not formatted, and a missing one is "
                "not reported")
    n = 0
    for nm in ("cfg_if::parse_cfg_if_inner", "cfg_match::parse_cfg_match_inner"):
        f = p.fns.get("rustfmt_nightly::parse::macros::" + nm)
        if f is None:
            r.undecidable(rid, "parse::macros::%s not found" % nm)
            continue
        unit = unit_with_private_helpers(p, [f])
        pushes = [c for g in unit for c in g.calls() if c.name.endswith("Vec::<T, A>::push") and "rustc_ast::Item" in " ".join(
            g.locals[a[1][0]] for a in c.args if a[0] != "k")]
        n += len(pushes)
        looks = []
        for g in unit:
            for bb, i, st in g.stmts():
                if st[0] == "=" and st[2][0] == "discr" and len(st[2]) > 2 and re.search(r"rustc_ast::(ModKind|Inline)$", str(st[2][2])):
                    looks.append("%s:%d" % (g.file, st[3]))
            for (a, v, fl, m, bb, ln) in g.field_accesses():
                if a and a.endswith("rustc_ast::ModKind"):
                    looks.append("%s:%d" % (g.file, ln))
        ok = not looks and bool(pushes)
        r.instance(rid, "%s keeps module items by ItemKind::Mod alone" % nm, "ok" if ok else "violation", "%s:%d" % (f.file, f.line),
                   "%d push(es) of items, ModKind looked at: %s" % (len(pushes), sorted(set(looks))[:3]))
        if looks:
            r.violation(rid, "%s selects the modules of a macro body by their ModKind" % nm,
                        "the collector distinguishes loaded (inline) from unloaded modules: `cfg_if! { if #[cfg(unix)] { mod imp "
                        "{ mod unix; } } }` no longer leads the resolver to imp/unix.rs", sorted(set(looks))[:2])
    r.floor(rid, n, 2, "pushes of items in the two collectors")


def only_cfg_attr_names_further_files(ctx, rid):
    """R13-o: the path collector looks into cfg_attr attributes only"""
    from common import bool_branches, edge_dominates
    p, r = ctx.p, ctx.r
    r.rule(rid, "modules::visitor::PathVisitor collects every `path = \"..\"` name-value it is shown, at any depth; the files so "
                "named are parsed, formatted and written. The language gives that meaning to `#[path]` (handled by the "
                "resolver proper) and to `cfg_attr(predicate, path = \"..\")` only, so every call that starts the collector on "
                "an attribute (MetaVisitor::visit_meta_item on a PathVisitor, outside the visitor itself) is dominated by the "
                "true edge of `has_name(sym::cfg_attr)` on that attribute. Shown every attribute, it takes "
                "`#[cfg(path = \"other.rs\")] mod m;` for a declaration of other.rs — a file that is not part of the crate is "
                "rewritten")
    n = 0
    for f in p.by_crate["rustfmt_nightly"]:
        if "::modules::visitor::" in f.id or "::attr::" in f.id:
            continue
        for c in f.calls():
            if not (c.declared or c.name).endswith("MetaVisitor::visit_meta_item") or not c.args or c.args[0][0] == "k":
                continue
            if "PathVisitor" not in f.locals[c.args[0][1][0]] and not any("PathVisitor" in f.locals[l] for l in f.derived_from(c.args[0][1][0])["locals"]):
                continue
            n += 1
            ok = False
            for g in f.calls():
                if g.name.endswith("::has_name") and len(g.args) > 1 and not g.dest[1]:
                    a = g.args[1]
                    named = a[2].get("named") if a[0] == "k" and isinstance(a[2], dict) else None
                    if named is None and a[0] != "k":
                        o = operand_origin_named(f, a)
                        named = o
                    if not (named or "").endswith("sym::cfg_attr"):
                        continue
                    for sw, tt, ff in bool_branches(f, g.dest[0]):
                        if tt is not None and edge_dominates(f, (sw, tt), c.bb):
                            ok = True
            if not ok and len(c.args) > 1 and c.args[1][0] != "k":
                # the attributes may have been selected beforehand: `.filter(|attr| attr.has_name(sym::cfg_attr))` on the way
                for fc in f.derived_from(c.args[1][1][0])["calls"]:
                    if not fc.name.endswith("Iterator::filter"):
                        continue
                    for gid in fc.refs:
                        g = p.fns.get(gid)
                        if g is None:
                            continue
                        for hn in g.derived_from(0)["calls"]:
                            if hn.name.endswith("::has_name") and len(hn.args) > 1:
                                a = hn.args[1]
                                named = a[2].get("named") if a[0] == "k" and isinstance(a[2], dict) else operand_origin_named(g, a)
                                if (named or "").endswith("sym::cfg_attr"):
                                    ok = True
            r.instance(rid, "%s starts the path collector" % short(f.root or f.id), "ok" if ok else "violation", c.loc(),
                       "under has_name(cfg_attr): %s" % ok)
            if not ok:
                r.violation(rid, "%s shows every attribute to the path collector" % short(f.root or f.id),
                            "PathVisitor::visit_meta_item is reached without `has_name(sym::cfg_attr)` having answered true: "
                            "`path = \"..\"` inside `cfg(..)`, `doc(..)` or any other attribute is taken for a module file",
                            [c.loc()])
    r.floor(rid, n, 1, "starts of the path collector")


def operand_origin_named(f, a):
    """name of the unevaluated constant an operand was copied from, if any"""
    seen = 0
    l = a[1][0]
    while seen < 4:
        d = f.single_def(l)
        if d is None or d[1] != "assign" or isinstance(d[2], Call):
            return None
        rv = d[2][2]
        if rv[0] == "use" and rv[1][0] == "k":
            return rv[1][2].get("named") if isinstance(rv[1][2], dict) else None
        if rv[0] == "use" and rv[1][0] != "k":
            l = rv[1][1][0]
            seen += 1
            continue
        return None
    return None


def macro_recognisers_look_at_the_macro_name(ctx, rid):
    """R13-p: cfg_if! / cfg_match! are recognised by the last segment of the macro path, at all four places"""
    import re
    p, r = ctx.p, ctx.r
    r.rule(rid, "sibling agreement: modules::is_cfg_if, modules::is_cfg_match and the two visitors that collect their bodies "
                "(CfgIfVisitor / CfgMatchVisitor::visit_mac_inner) decide from one segment of the macro's path whether the call "
                "is theirs. The macro is named by the *last* segment (`::cfg_if::cfg_if!`, `macros::cfg_if!`); the first "
                "segment is a crate or module name (`cfg_if::other_macro!` is not cfg_if!). All four take `segments.last()`: "
                "a recogniser that takes the first segment does not see `mod x;` inside `::cfg_if::cfg_if! { .. }`, and the "
                "file is not formatted")
    want = ("modules::is_cfg_if", "modules::is_cfg_match", "modules::visitor::CfgIfVisitor::<'a>::visit_mac_inner",
            "modules::visitor::CfgMatchVisitor::<'a>::visit_mac_inner")
    n = 0
    for w in want:
        fs = [g for g in p.by_crate["rustfmt_nightly"] if short(g.id) == w]
        if len(fs) != 1:
            r.undecidable(rid, "%s not found" % w)
            continue
        f = fs[0]
        acc = []
        for c in f.calls():
            last = re.sub(r"<.*?>", "", c.name).rsplit("::", 1)[-1]
            tys = " ".join(f.locals[a[1][0]] for a in c.args if a[0] != "k")
            if last in ("first", "last", "get", "index", "split_first", "split_last", "first_mut") and "PathSegment" in tys + " ".join(c.ga):
                if last in ("get", "index"):
                    # only a constant 0 names the first segment
                    k = c.args[1] if len(c.args) > 1 else None
                    if not (k and k[0] == "k" and k[2] == 0 and not isinstance(k[2], bool)):
                        continue
                    last = last + "(0)"
                acc.append(last)
        n += 1
        # a recogniser that reaches the segment some other way (a slice pattern `[.., last]`, `iter().next_back()`) is not judged
        ok = not any(a in ("first", "split_first", "first_mut", "get(0)", "index(0)") for a in acc)
        r.instance(rid, "%s looks at segments.%s" % (w, "/".join(acc) or "?"), "ok" if ok else "violation", "%s:%d" % (f.file, f.line))
        if not ok:
            r.violation(rid, "%s does not decide by the last segment of the macro path (%s)" % (w, "/".join(acc) or "none found"),
                        "the name of an invoked macro is the last segment of its path; `::cfg_if::cfg_if! { if #[cfg(a)] { mod x; } }` "
                        "is not recognised by a test of the first segment, and x.rs is not formatted", ["%s:%d" % (f.file, f.line)])
    r.floor(rid, n, 4, "recognisers of cfg_if! / cfg_match!")
