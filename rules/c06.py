"""C06 — check mode is read-only and exact; emit modes agree.

R06-a who-may-write + EmitMode→emitter table · R06-b exit-code truth tables · R06-c --check forces Diff ·
R06-d has_diff faithful · R06-e single feed point · R06-f inequality guards fs::write
"""
import re
import effects
from absint import explore, vkey, variant_name, check_table, TooManyPaths
from common import short, match_name, switch_origin, switch_true_false

EMITTER_SPEC = {
    ("Files", True): "files_with_backup::FilesWithBackupEmitter",
    ("Files", False): "files::FilesEmitter",
    ("Stdout", None): "stdout::StdoutEmitter",
    ("Coverage", None): "stdout::StdoutEmitter",
    ("Json", None): "json::JsonEmitter",
    ("ModifiedLines", None): "modified_lines::ModifiedLinesEmitter",
    ("Checkstyle", None): "checkstyle::CheckstyleEmitter",
    ("Diff", None): "diff::DiffEmitter",
}
GETTERS = {"has_operational_errors": "op", "has_parsing_errors": "parse", "has_diff": "diff", "has_check_errors": "chk"}


def _getter_atom(key, val):
    if not isinstance(val, bool):
        return None
    for g, a in GETTERS.items():
        if ("::%s(" % g) in key and key.startswith("Session"):
            return (a, val)
    if key.endswith(".check") and key.startswith("arg"):
        return ("check", val)
    return None


def exit_code_tables(ctx, rid):
    """R06-b / R05-f: returned code of `format` and `format_string`"""
    p, r = ctx.p, ctx.r
    r.rule(rid, "exit-code truth tables by abstract evaluation of the loop-free tail: format: 1 iff op ∨ parse ∨ "
                "((diff ∨ check_err) ∧ check) (32 rows); format_string (stdin): 1 iff op ∨ parse (4 rows)")
    specs = {
        "rustfmt::format": (
            {"op": [False, True], "parse": [False, True], "diff": [False, True], "chk": [False, True],
             "check": [False, True]},
            lambda a: 1 if (a["op"] or a["parse"] or ((a["diff"] or a["chk"]) and a["check"])) else 0),
        "rustfmt::format_string": (
            {"op": [False, True], "parse": [False, True]},
            lambda a: 1 if (a["op"] or a["parse"]) else 0),
    }
    for fid, (domains, spec) in specs.items():
        f = p.fns.get(fid)
        if f is None:
            r.undecidable(rid, "%s not found" % fid)
            continue
        param_map = {}
        cs = [c for c in f.calls() if any(c.name.endswith("::" + g) for g in GETTERS) and "Session" in c.name]
        if not cs:
            # the decision may have been moved into a helper whose result `f` returns: follow direct callees (depth ≤ 2)
            helper = None
            frontier = [f]
            for _ in range(2):
                nxt = []
                for g in frontier:
                    for c in g.calls():
                        h = p.fns.get(c.resolved or "")
                        if h is None or h.crate != f.crate or h is f:
                            continue
                        if any(any(cc.name.endswith("::" + gt) for gt in GETTERS) and "Session" in cc.name for cc in h.calls()):
                            helper = (h, c, g)
                        nxt.append(h)
                frontier = nxt
                if helper:
                    break
            if helper and helper[2] is f:
                h, hc, _g = helper
                # `f` must return Ok(<result of the helper>) on every path after the helper call
                linked = True
                try:
                    for pa in explore(f, start=hc.bb):
                        if pa.end == "ret" and pa.ret is not None:
                            k = vkey(pa.ret)
                            if not (k.startswith("Ok(call:%s#" % short(h.id)) or k.startswith("residual(")):
                                linked = False
                except TooManyPaths:
                    linked = False
                if linked:
                    r.instance(rid, "%s delegates its exit code to %s" % (fid, short(h.id)), "ok", hc.loc(), nontrivial=False)
                    # bind the helper's parameters to the caller's argument values (e.g. a `check: bool` parameter)
                    try:
                        for pa in explore(f, is_effect=lambda c, _bb=hc.bb: c.bb == _bb, max_paths=50000):
                            for e in pa.effects:
                                if e.kind == "call":
                                    for i, a in enumerate(e.args):
                                        param_map.setdefault("arg%d" % (i + 1), vkey(a))
                    except TooManyPaths:
                        pass
                    f = h
                    cs = [c for c in f.calls() if any(c.name.endswith("::" + g) for g in GETTERS) and "Session" in c.name]
        if not cs:
            r.violation(rid, "%s: exit code ignores the session's error flags" % fid,
                        "no call to Session::has_operational_errors / has_parsing_errors / has_diff / has_check_errors",
                        ["%s:%d" % (f.file, f.line)])
            continue
        dom = f.dominators()
        starts = [c for c in cs if all(c.bb in dom.get(o.bb, ()) for o in cs)]
        if starts:
            start_bb = starts[0].bb
        else:
            # no getter comes first on every path (`check && (diff || ..)` tests an option first): start at the deepest
            # block that dominates all of them
            common = None
            for c in cs:
                common = set(dom.get(c.bb, ())) if common is None else (common & set(dom.get(c.bb, ())))
            common = [b for b in (common or ()) if f.blocks[b]["t"][0] != "unreachable"]
            if not common:
                r.undecidable(rid, "%s: no single entry of the exit-code decision region" % fid)
                continue
            start_bb = max(common, key=lambda b: len(dom.get(b, ())))
        try:
            paths = explore(f, start=start_bb,
                            pure=lambda c: any(c.name.endswith("::" + g) for g in GETTERS))
        except TooManyPaths as e:
            r.undecidable(rid, str(e))
            continue
        r.paths(rid, len(paths))
        if any(pa.end == "loop" for pa in paths):
            r.undecidable(rid, "%s: the exit-code region is not loop-free" % fid)
            continue

        def outcome(path):
            if path.end != "ret" or path.ret is None:
                return None
            v = path.ret
            if v[0] == "agg" and v[2] == "Ok" and v[3] and v[3][0][0] == "k":
                return v[3][0][1]
            if v[0] == "k" and isinstance(v[1], int) and not isinstance(v[1], bool):
                return v[1]     # a helper returning the code itself
            if v[0] == "atom" and v[1].startswith("residual("):
                return None
            # `Ok(i32::from(flag))` where flag is one of the table's atoms left undecided (the last operand of `a || b`)
            inner = v[3][0] if (v[0] == "agg" and v[2] == "Ok" and v[3]) else v
            if inner[0] == "atom" and inner[1].startswith("frombool(") and inner[1].endswith(")"):
                m = atom(inner[1][len("frombool("):-1].lstrip("!"), True)
                negd = inner[1][len("frombool("):].startswith("!")
                if m is not None and m[1] is True:
                    return (lambda assign, _a=m[0], _n=negd: int((not assign[_a]) if _n else assign[_a]))
            return "dyn:" + vkey(v)

        def atom(key, val, _pm=param_map):
            return _getter_atom(_pm.get(key, key), val)
        res = check_table(paths, atom, spec, outcome, domains)
        r.cells(rid, res["cells"])
        rows_bad = {}
        for (assign, exp, got, path, unknown) in res["deviations"]:
            k = tuple(sorted(assign.items()))
            rows_bad.setdefault(k, (assign, exp, got, unknown))
        n_rows = 1
        for d in domains.values():
            n_rows *= len(d)
        ok_rows = n_rows - len(rows_bad) - len(res["uncovered"])
        r.instance(rid, "%s exit table" % fid, "ok" if not rows_bad and not res["uncovered"] else "deviates",
                   "%s:%d" % (f.file, f.line), "%d/%d rows agree" % (ok_rows, n_rows))
        r.oblige(rid, "%s: all %d rows of the exit-code table agree with the specification" % (fid, n_rows),
                 not rows_bad and not res["uncovered"])
        if res["uncovered"]:
            r.undecidable(rid, "%s: %d rows of the exit table not covered by any path" % (fid, len(res["uncovered"])))
        soft = []
        for k, (assign, exp, got, unknown) in sorted(rows_bad.items()):
            if got == 1 and exp == 0 and unknown:
                # an additional condition makes the run fail: possibly a new error class — not a proven violation
                soft.append((assign, unknown))
                continue
            r.violation(rid, "%s: exit code for %s" % (fid, ",".join("%s=%d" % (a, int(v)) for a, v in sorted(assign.items()))),
                        "exit code is %s where the specification gives %s for %s%s" % (
                            got, exp, assign, (" under extra conditions %s" % unknown) if unknown else ""),
                        ["%s:%d" % (f.file, f.line)])
        if soft:
            r.undecidable(rid, "%s: exit code 1 under conditions outside the table: %s" % (fid, soft[:3]))


def emitter_table(ctx, rid):
    p, r = ctx.p, ctx.r
    ce = p.fn("rustfmt_nightly::create_emitter")
    if ce is None:
        r.undecidable(rid, "create_emitter not found")
        return
    paths = explore(ce, pure=lambda c: c.name.startswith("rustfmt_nightly::config::Config::"))
    r.paths(rid, len(paths))
    seen = set()
    for path in paths:
        if path.end == "loop":
            r.undecidable(rid, "create_emitter is not loop-free")
            return
        if path.end != "ret":
            continue
        dec = {k: variant_name(v) for k, v in path.decisions}
        mode = mb = None
        extra = []
        for k, v in dec.items():
            if "Config::emit_mode(" in k and k.startswith("discr("):
                mode = v
            elif "Config::make_backup(" in k:
                mb = v
            else:
                extra.append((k, v))
        ret = vkey(path.ret) if path.ret else ""
        got = ret[len("box<"):].split(">")[0] if ret.startswith("box<") else ret
        modes = [mode] if not (isinstance(mode, tuple) and mode and mode[0] == "other") else list(mode[1])
        for m in modes:
            exp = EMITTER_SPEC.get((m, mb)) or EMITTER_SPEC.get((m, None))
            if exp is None and (m, True) in EMITTER_SPEC and mb is None:
                exp = "<depends on make_backup>"
            ok = exp is not None and got.endswith(exp)
            seen.add((m, mb))
            r.cells(rid, 1)
            r.instance(rid, "create_emitter[%s,make_backup=%s]" % (m, mb), "ok" if ok else "violation",
                       "%s:%d" % (ce.file, ce.line), short(got))
            r.oblige(rid, "create_emitter row (%s, make_backup=%s) ↦ %s" % (m, mb, exp), ok)
            if not ok:
                r.violation(rid, "create_emitter: %s/make_backup=%s ↦ %s" % (m, mb, short(got)),
                            "emit mode %s (make_backup=%s) selects %s, specification says %s" % (m, mb, short(got), exp),
                            ["%s:%d" % (ce.file, ce.line)])
    need = {("Files", True), ("Files", False), ("Stdout", None), ("Coverage", None), ("Json", None),
            ("ModifiedLines", None), ("Checkstyle", None), ("Diff", None)}
    missing = need - seen
    if missing:
        r.undecidable(rid, "create_emitter rows not found: %s" % sorted(map(str, missing)))


def run(ctx):
    p, r = ctx.p, ctx.r
    import c05
    r.rule("R06-a", "who-may-write (as R05-a) + EmitMode→emitter table of create_emitter extracted row by row: "
                    "only Files selects an emitter that writes")
    calls = c05.who_may_write(ctx, "R06-a")
    for c in calls:
        r.oblige("R06-a", "fs-mutating call %s is in the allow table" % c.key(), True)
    for v in r.violations:
        if v["rule"] == "R06-a":
            r.oblige("R06-a", "unlisted writer %s" % v["key"], False)
    r.floor("R06-a", len(calls), 6, "fs-mutating call sites")
    emitter_table(ctx, "R06-a")
    # the emitters other than the two file emitters reach no fs-mutating call
    writers = {c.fn.root or c.fn.id for c in calls}
    for f in p.fns.values():
        if f.id.endswith("::emit_formatted_file") and f.impl and (f.impl.get("trait") or "").endswith("::Emitter"):
            reach = p.reach_from([f.id])
            w = sorted(x for x in reach if x in writers)
            is_file = "FilesEmitter" in f.id or "FilesWithBackupEmitter" in f.id
            ok = is_file or not w
            r.instance("R06-a", "emitter %s reaches writer" % short(f.id), "ok" if ok else "violation",
                       "%s:%d" % (f.file, f.line), str([short(x) for x in w]))
            r.oblige("R06-a", "%s reaches no fs-mutating function" % short(f.id) if not is_file else
                     "%s is a designated writer" % short(f.id), ok)
            if not ok:
                r.violation("R06-a", "emitter %s can write files" % short(f.id),
                            "a read-only emitter reaches the fs-mutating function(s) %s" % [short(x) for x in w],
                            ["%s:%d" % (f.file, f.line)])

    exit_code_tables(ctx, "R06-b")
    # the emitter of a session is built once: the json emitter collects the mismatches of all inputs until the footer, so an
    # emitter replaced between two inputs reports only the later ones (session-state write discipline, shared with C15)
    import c15
    c15.session_state(ctx, "R06-g")
    check_forces_diff(ctx, "R06-c")
    has_diff_faithful(ctx, "R06-d")
    single_feed(ctx, "R06-e")
    files_guard(ctx, "R06-f")
    original_text_lookup_ignores_the_kind_of_input(ctx, "R06-h")
    import c12
    c12.every_report_comes_from_the_line_diff(ctx, "R06-i")    # shared with C12: the reports of json / checkstyle / modified-lines imply the formatted text only if they carry diff::lines' end-of-text record


# ---------------------------------------------------------------------------------------------

def _is_emit_mode_setter(c):
    return "ConfigSetter" in c.name and c.name.endswith("::emit_mode")


def _may_set_any_option(c):
    return c.name.endswith("Config::override_value") or c.name.endswith("::fill_from_parsed_config")


def check_forces_diff(ctx, rid):
    p, r = ctx.p, ctx.r
    r.rule(rid, "--check ⇒ the last write to emit_mode on every path of apply_to / format_string is emit_mode(Diff); "
                "from_matches stores --emit only on the ¬check edge")
    for fid in ("<rustfmt::GetOptsOptions as rustfmt_nightly::CliOptions>::apply_to", "rustfmt::format_string"):
        f = p.fns.get(fid)
        if f is None:
            r.undecidable(rid, "%s not found" % fid)
            continue
        try:
            # every loop is unrolled once (max_visits=2) so that writes inside a loop body and after it are both seen
            # a helper whose whole effect is `emit_mode(Diff)` (`force_diff_emit_mode(config)`) counts as that write
            diff_helpers = set()
            for c0 in f.calls():
                h = p.fns.get(c0.resolved or "")
                if h is None or h.crate != f.crate or h.kind == "Closure" or not any(_is_emit_mode_setter(d) for d in h.calls()):
                    continue
                try:
                    hp = explore(h, is_effect=lambda c: _is_emit_mode_setter(c) or _may_set_any_option(c), max_paths=2000)
                except TooManyPaths:
                    continue
                rets = [x for x in hp if x.end == "ret"]
                if rets and all(len([e for e in x.effects if e.kind == "call"]) == 1 and _is_emit_mode_setter(x.effects[-1].call)
                                and len(x.effects[-1].args) > 1 and vkey(x.effects[-1].args[1]) == "Diff" for x in rets):
                    diff_helpers.add(h.id)
            paths = explore(f, is_effect=lambda c: _is_emit_mode_setter(c) or _may_set_any_option(c) or (c.resolved or "") in diff_helpers,
                            max_paths=200000, max_visits=2)
        except TooManyPaths as e:
            r.undecidable(rid, str(e))
            continue
        r.paths(rid, len(paths))
        n_check = 0
        bad = {}
        for path in paths:
            chk = None
            for k, v in path.decisions:
                if k.endswith(".check") and k.startswith("arg") and isinstance(v, bool):
                    chk = v
            if chk is not True:
                continue
            if path.end != "ret":
                continue
            n_check += 1
            effs = path.effects
            # position of the last Diff setter
            last_diff = -1
            for i, e in enumerate(effs):
                if e.kind == "call" and (e.call.resolved or "") in diff_helpers:
                    last_diff = i
                if e.kind == "call" and _is_emit_mode_setter(e.call):
                    a = e.args[1] if len(e.args) > 1 else None
                    if a and vkey(a) == "Diff":
                        last_diff = i
            if last_diff < 0:
                if path.end == "ret":
                    bad.setdefault("no-diff", (path, None))
                continue
            later = [e for e in effs[last_diff + 1:] if e.kind == "call"]
            if later:
                bad.setdefault(short(later[0].name), (path, later[0]))
        ok = not bad and n_check > 0
        r.instance(rid, "%s: check ⇒ Diff last" % short(fid), "ok" if ok else "violation", "%s:%d" % (f.file, f.line),
                   "%d check-paths" % n_check)
        r.oblige(rid, "%s: on all %d paths with check=true the final emit_mode write is Diff" % (short(fid), n_check), ok)
        if n_check == 0:
            r.undecidable(rid, "%s: no path decides the `check` flag" % fid)
        for k, (path, eff) in bad.items():
            if eff is None:
                r.violation(rid, "%s: --check does not set emit_mode(Diff)" % short(fid),
                            "a path with check=true returns without emit_mode(Diff)", ["%s:%d" % (f.file, f.line)])
            else:
                r.violation(rid, "%s: emit_mode written after --check's Diff by %s" % (short(fid), k),
                            "with --check, %s runs after emit_mode(Diff) was set and can replace the emit mode "
                            "(e.g. --config emit_mode=files makes check mode write files)" % k,
                            ["%s:%d" % (f.file, eff.line)])
    # from_matches: --emit stored only when ¬check
    fm = p.fn("rustfmt::GetOptsOptions::from_matches")
    if fm is None:
        r.undecidable(rid, "from_matches not found")
        return
    writes = []
    for (adt, var, field, mode, bb, line) in fm.field_accesses():
        if field == "emit_mode" and adt.endswith("GetOptsOptions") and mode == "w":
            writes.append((bb, line))
    dom = fm.dominators()
    for (bb, line) in writes:
        ok = False
        for d in dom.get(bb, ()):
            o = switch_origin(fm, d)
            tf = switch_true_false(fm, d)
            if o and o[0] == "field" and o[2] == "check" and tf and bb not in fm.reachable(tf[0]):
                ok = True
        r.instance(rid, "from_matches: store to emit_mode", "ok" if ok else "violation", "%s:%d" % (fm.file, line))
        r.oblige(rid, "from_matches: emit_mode stored only on the ¬check edge (line %d)" % line, ok)
        if not ok:
            r.violation(rid, "from_matches: --emit accepted together with --check",
                        "options.emit_mode is stored on a path where options.check may be true",
                        ["%s:%d" % (fm.file, line)])
    r.floor(rid, len(writes), 1, "stores to GetOptsOptions.emit_mode in from_matches")


def has_diff_faithful(ctx, rid):
    p, r = ctx.p, ctx.r
    r.rule(rid, "handle_formatted_file calls add_diff iff the emitter result's has_diff; Diff/Json/ModifiedLines emitters "
                "return has_diff = ¬mismatch.is_empty() (Diff: ∨ original≠formatted)")
    hf = [f for f in p.fns.values() if f.id.endswith("::handle_formatted_file") and "Session" in f.id]
    if len(hf) != 1:
        r.undecidable(rid, "Session::handle_formatted_file not found uniquely (%d)" % len(hf))
    else:
        f = hf[0]
        paths = explore(f, is_effect=lambda c: c.name.endswith("FormatReport::add_diff"),
                        pure=lambda c: c.name.endswith("source_file::write_file"), program=p, inline="auto")
        r.paths(rid, len(paths))
        for path in paths:
            if path.end != "ret":
                continue
            hd = None
            res = None
            for k, v in path.decisions:
                if k.endswith(".has_diff") and isinstance(v, bool):
                    hd = v
                if k.startswith("discr(") and "write_file" in k:
                    res = variant_name(v)
            n = len(path.effects)
            if res == "Ok":
                ok = (hd is True and n == 1) or (hd is False and n == 0)
                r.instance(rid, "handle_formatted_file[Ok,has_diff=%s]" % hd, "ok" if ok else "violation",
                           "%s:%d" % (f.file, f.line), "add_diff×%d" % n)
                r.oblige(rid, "handle_formatted_file: has_diff=%s ⇒ add_diff called %d×" % (hd, n), ok)
                if not ok:
                    r.violation(rid, "handle_formatted_file: add_diff×%d when has_diff=%s" % (n, hd),
                                "the report's diff flag does not follow the emitter's has_diff", ["%s:%d" % (f.file, f.line)])
            elif n:
                r.violation(rid, "handle_formatted_file: add_diff without Ok result", str(path.decisions),
                            ["%s:%d" % (f.file, f.line)])
    spec = {
        "diff::DiffEmitter": "empty_or_ne",
        "json::JsonEmitter": "empty",
        "modified_lines::ModifiedLinesEmitter": "empty",
    }
    PURE = ("make_diff", "::is_empty", "::ne", "::eq", "print_misformatted_file_names")
    # `ModifiedLines::from(mismatches)` makes one chunk per mismatch when its body is into_iter → map → collect and nothing else:
    # then `chunks.is_empty()` is `mismatches.is_empty()` and the conversion may stand between make_diff and the test
    conv = [g for g in p.fns.values() if g.kind != "Closure" and "ModifiedLines as std::convert::From<" in g.id and g.id.endswith("::from")]
    one_to_one = False
    if len(conv) == 1:
        its = [re.sub(r"<.*?>", "", c.name).rsplit("::", 1)[-1] for c in conv[0].calls()
               if "Iterator" in c.name or "IntoIterator" in c.name or (c.declared or "").startswith("std::iter::")]
        one_to_one = bool(its) and set(its) <= {"into_iter", "map", "collect"} and its.count("collect") == 1 \
            and not any(c.name.rsplit("::", 1)[-1] in ("push", "extend", "retain", "truncate", "pop", "remove", "insert", "dedup")
                        for c in conv[0].calls())
        if one_to_one:
            PURE = PURE + (conv[0].id,)
    for em, kind in spec.items():
        fs = [f for f in p.fns.values() if f.id.endswith("::emit_formatted_file") and em in f.id]
        if len(fs) != 1:
            r.undecidable(rid, "%s::emit_formatted_file not found" % em)
            continue
        f = fs[0]
        try:
            paths = explore(f, pure=lambda c: any(c.name.endswith(x) for x in PURE))
        except TooManyPaths as e:
            r.undecidable(rid, str(e))
            continue
        r.paths(rid, len(paths))
        n = 0
        for path in paths:
            if path.end == "loop":
                # loops (json: per mismatch) do not return; the zero-iteration path covers the suffix
                continue
            if path.end != "ret" or path.ret is None:
                continue
            v = path.ret
            if not (v[0] == "agg" and v[2] == "Ok"):
                continue
            inner = v[3][0]
            if not (inner[0] == "agg" and inner[3]):
                r.undecidable(rid, "%s: returned EmitterResult not an aggregate (%s)" % (em, vkey(inner)))
                continue
            hv = inner[3][0]
            empty = ne = None
            for k, val in path.decisions:
                if "::is_empty(" in k and "make_diff(" in k and isinstance(val, bool):
                    empty = val
                if ("::ne(" in k or "::eq(" in k) and "original_text" in k and "formatted_text" in k and isinstance(val, bool):
                    ne = val if "::ne(" in k else (not val)
            got = vkey(hv)
            if hv[0] == "k":
                if kind == "empty":
                    exp = None if empty is None else (not empty)
                else:
                    exp = None
                    if empty is False:
                        exp = True
                    elif empty is True and ne is not None:
                        exp = ne
                ok = exp is not None and hv[1] == exp
            else:
                # undecided on this path: must be the symbolic ¬is_empty(make_diff(original, formatted))
                ok = got.startswith("!") and "::is_empty(" in got and "make_diff(arg3.original_text,arg3.formatted_text" in got \
                    and kind == "empty"
                if ok and "::from(" in got:
                    # only through the one-to-one conversion, and only its `chunks`
                    ok = one_to_one and re.search(r"is_empty\(<rustfmt_diff::ModifiedLines as std::convert::From<[^()]*>>::from\("
                                                  r"[^()]*make_diff\([^()]*\)\)\.chunks\)$", got) is not None
            n += 1
            r.instance(rid, "%s[empty=%s,ne=%s]" % (em, empty, ne), "ok" if ok else "violation",
                       "%s:%d" % (f.file, f.line), "has_diff=%s" % got)
            r.oblige(rid, "%s: has_diff=%s when mismatch.is_empty()=%s, original≠formatted=%s" % (em, got, empty, ne), ok)
            if not ok:
                r.violation(rid, "%s: has_diff=%s for empty=%s ne=%s" % (em, got, empty, ne),
                            "the emitter reports has_diff=%s although mismatch.is_empty()=%s and (original≠formatted)=%s"
                            % (got, empty, ne), ["%s:%d" % (f.file, f.line)])
        r.floor(rid, n, 1, "Ok-returning paths of %s" % em)


def single_feed(ctx, rid):
    p, r = ctx.p, ctx.r
    r.rule(rid, "Emitter::emit_formatted_file is called only from source_file::write_file, which builds the FormattedFile "
                "from its own formatted_text parameter; Config::emit_mode is read only by create_emitter and "
                "coverage::transform_missing_snippet, the latter being the identity for every mode but Coverage")
    def is_emitter_method(fid):
        g = p.fns.get(fid or "")
        return g is not None and g.impl is not None and (g.impl.get("trait") or "").endswith("::Emitter")
    sites = [c for c in p.all_calls() if (c.declared or "").endswith("Emitter::emit_formatted_file")
             or ((c.resolved or "").endswith("::emit_formatted_file") and is_emitter_method(c.resolved))]
    for c in sites:
        ok = c.fn.id.startswith("rustfmt_nightly::source_file::write_file")
        r.instance(rid, c.key(), "ok" if ok else "violation", c.loc())
        r.oblige(rid, "emit_formatted_file call site in %s" % short(c.fn.id), ok)
        if not ok:
            r.violation(rid, "emit_formatted_file called from %s" % short(c.fn.id),
                        "an emitter is fed outside source_file::write_file: the modes may see different text", [c.loc()])
    r.floor(rid, len(sites), 1, "emit_formatted_file call sites")
    wf = p.fn("rustfmt_nightly::source_file::write_file")
    if wf is None:
        r.undecidable(rid, "write_file not found")
    else:
        aggs = [(bb, s) for bb, i, s in wf.stmts() if s[0] == "=" and s[2][0] == "agg" and isinstance(s[2][1], list)
                and s[2][1][0] == "adt" and s[2][1][1].endswith("emitter::FormattedFile")]
        for bb, s in aggs:
            ops = s[2][2]
            ok = False
            detail = ""
            if len(ops) == 3 and ops[2][0] in ("c", "m"):
                d = wf.derived_from(ops[2][1][0])
                ok = d["args"] == {3} and not d["calls"]
                detail = "derives from args %s, calls %s" % (sorted(d["args"]), [short(c.name) for c in d["calls"]])
            r.instance(rid, "write_file: FormattedFile.formatted_text", "ok" if ok else "violation",
                       "%s:%d" % (wf.file, s[3]), detail)
            r.oblige(rid, "write_file passes its formatted_text parameter unchanged", ok)
            if not ok:
                r.violation(rid, "write_file: formatted_text not passed through",
                            "FormattedFile.formatted_text is not exactly write_file's formatted_text parameter (%s)" % detail,
                            ["%s:%d" % (wf.file, s[3])])
        r.floor(rid, len(aggs), 1, "FormattedFile constructions in write_file")
    readers = [c for c in p.all_calls() if c.name == "rustfmt_nightly::config::Config::emit_mode"]
    allowed = ("rustfmt_nightly::create_emitter", "rustfmt_nightly::coverage::transform_missing_snippet",
               "rustfmt::format_string", "rustfmt::GetOptsOptions::from_matches")
    for c in readers:
        owner = c.fn.root or c.fn.id
        ok = owner in allowed[:2]
        r.instance(rid, c.key(), "ok" if ok else "violation", c.loc())
        r.oblige(rid, "Config::emit_mode read in %s" % short(owner), ok)
        if not ok:
            r.violation(rid, "emit_mode read in %s" % short(owner),
                        "formatting code branches on the emit mode: the text may differ between modes", [c.loc()])
    tm = p.fn("rustfmt_nightly::coverage::transform_missing_snippet")
    if tm is not None:
        paths = explore(tm, pure=lambda c: c.name.endswith("Config::emit_mode") or "std::convert::From<" in c.name
                        or c.declared in ("std::convert::Into::into", "std::convert::From::from"))
        r.paths(rid, len(paths))
        n_id = 0
        for path in paths:
            if path.end not in ("ret", "loop"):
                continue
            mode = None
            for k, v in path.decisions:
                if "Config::emit_mode(" in k:
                    mode = variant_name(v)
            names = []
            if isinstance(mode, tuple) and mode[0] == "other":
                names = list(mode[1])
            elif mode is not None:
                names = [mode]
            if names == ["Coverage"]:
                continue
            if path.end == "loop":
                ok = False
                ret = "<loop>"
            else:
                ret = vkey(path.ret) if path.ret else ""
                # identity: a pure conversion of the `string` argument and nothing else
                ok = (ret.endswith("::from(arg2)") or ret.endswith("::into(arg2)") or ret == "Borrowed(arg2)") \
                    and ret.count("(") == 1
            n_id += len(names) if names else 1
            r.cells(rid, max(1, len(names)))
            r.instance(rid, "transform_missing_snippet%s" % names, "ok" if ok else "violation",
                       "%s:%d" % (tm.file, tm.line), short(ret)[-60:])
            r.oblige(rid, "transform_missing_snippet: identity for modes %s" % names, ok)
            if not ok:
                r.violation(rid, "transform_missing_snippet: not identity for %s" % names,
                            "snippets are transformed for emit modes %s (returns %s)" % (names, short(ret)),
                            ["%s:%d" % (tm.file, tm.line)])
        r.floor(rid, n_id, 6, "non-Coverage emit modes covered by transform_missing_snippet's identity arm")


def files_guard(ctx, rid):
    p, r = ctx.p, ctx.r
    r.rule(rid, "FilesEmitter: original_text != formatted_text is decided true on every path that calls fs::write")
    import c05
    f = p.fns.get(c05.FILES_EMIT)
    if f is None:
        r.undecidable(rid, "FilesEmitter::emit_formatted_file not found")
        return
    paths = explore(f, is_effect=effects.is_fs_mutating,
                    pure=lambda c: c.declared in ("std::cmp::PartialEq::ne", "std::cmp::PartialEq::eq")
                    or c.name.endswith("ensure_real_path"))
    r.paths(rid, len(paths))
    import c20
    n = 0
    for path in paths:
        if path.end != "ret":
            continue
        g = c20.guard_holds(path)
        if path.effects:
            n += 1
            ok = g is True
            tgt = vkey(path.effects[0].args[0]) if path.effects[0].args else ""
            content = vkey(path.effects[0].args[1]) if len(path.effects[0].args) > 1 else ""
            ok2 = "ensure_real_path(arg3.filename)" in tgt and content == "arg3.formatted_text"
            r.instance(rid, "FilesEmitter write path", "ok" if ok and ok2 else "violation", "%s:%d" % (f.file, f.line),
                       "write(%s, %s) guard=%s" % (tgt, content, g))
            r.oblige(rid, "fs::write guarded by inequality", ok)
            r.oblige(rid, "fs::write(ensure_real_path(filename), formatted_text)", ok2)
            if not ok:
                r.violation(rid, "FilesEmitter: unguarded write",
                            "fs::write is reachable without original_text != formatted_text (mtime changes on unchanged files)",
                            ["%s:%d" % (f.file, path.effects[0].line)])
            if not ok2:
                r.violation(rid, "FilesEmitter: write operands", "fs::write(%s, %s)" % (tgt, content),
                            ["%s:%d" % (f.file, path.effects[0].line)])
        elif g is True:
            r.violation(rid, "FilesEmitter: changed text not written", "text differs but no write on a success path",
                        ["%s:%d" % (f.file, f.line)])
    r.floor(rid, n, 1, "writing paths in FilesEmitter")


def original_text_lookup_ignores_the_kind_of_input(ctx, rid):
    """R06-h: what the emit modes compare against is found the same way for a file and for standard input"""
    p, r = ctx.p, ctx.r
    r.rule(rid, "ParseSess::first_newline_was_crlf and ParseSess::get_original_snippet (the two functions that recover, from the "
                "source map, what the input looked like before rustc normalised it) hand the FileName they are given to the "
                "source-map lookup as it is: neither they nor a private helper of theirs branches on the *variant* of that "
                "FileName.  Standard input is registered in the source map like a file; an answer that differs for "
                "`FileName::Stdin` makes `rustfmt < x.rs` and `rustfmt --emit stdout x.rs` print different bytes (CRLF detection) or "
                "report a difference that files mode would not write")
    n = 0
    for nm in ("first_newline_was_crlf", "get_original_snippet"):
        f = p.named(nm, within="parse::session::ParseSess")
        if f is None:
            r.undecidable(rid, "ParseSess::%s not found" % nm)
            continue
        n += 1
        unit = [f]
        for c in f.calls():
            h = p.fns.get(c.resolved or "")
            if h is not None and h.crate == f.crate and h.id.startswith("rustfmt_nightly::parse::session::") and h not in unit:
                unit.append(h)
        unit += [g for g in p.by_crate["rustfmt_nightly"] if any(g.id.startswith(u.id + "::{closure") for u in unit)]
        bad = []
        for g in unit:
            for bb, i, st in g.stmts():
                if st[0] == "=" and st[2][0] == "discr" and str(st[2][2]).endswith("file_lines::FileName"):
                    bad.append((g, st[3]))
        r.instance(rid, "ParseSess::%s treats every kind of FileName alike" % nm, "violation" if bad else "ok", "%s:%d" % (f.file, f.line),
                   "%d bodies" % len(unit))
        if bad:
            r.violation(rid, "ParseSess::%s answers differently depending on the kind of FileName" % nm,
                        "a `match` / `let … else` on the variant of the file name decides the answer before the source map is asked: "
                        "standard input gets another answer than the same bytes in a file", ["%s:%d" % (bad[0][0].file, bad[0][1])])
    r.floor(rid, n, 2, "functions recovering the un-normalised input")
