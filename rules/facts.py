"""Fact extraction (runs the rfx driver over a source tree) and loading.

Facts are a pure function of the analysed sources + driver + flags, so they are cached under
/verif/.cache/facts-<sha256>.  At most three cache entries are kept.
"""
import fcntl
import glob
import hashlib
import json
import os
import shutil
import subprocess
import sys
import tempfile
import time

VERIF = os.path.dirname(os.path.dirname(os.path.abspath(__file__)))
DRIVER_DIR = os.path.join(VERIF, "driver")
DRIVER = os.path.join(DRIVER_DIR, "target", "release", "rfx")
CACHE = os.path.join(VERIF, ".cache")
EXPECTED_CRATES = ["rustfmt_nightly", "rustfmt", "cargo_fmt", "rustfmt_format_diff", "git_rustfmt"]
TOOLCHAIN_FILE = "rust-toolchain"


def _env_offline(env):
    env = dict(env)
    env["CARGO_NET_OFFLINE"] = "true"
    return env


def ensure_driver():
    """Build the driver if the binary is missing or older than its sources."""
    srcs = glob.glob(os.path.join(DRIVER_DIR, "src", "*.rs")) + [os.path.join(DRIVER_DIR, "Cargo.toml")]
    need = not os.path.exists(DRIVER)
    if not need:
        m = os.path.getmtime(DRIVER)
        need = any(os.path.getmtime(s) > m for s in srcs)
    if need:
        lock = open(os.path.join(DRIVER_DIR, ".build.lock"), "w")
        fcntl.flock(lock, fcntl.LOCK_EX)
        try:
            r = subprocess.run(["cargo", "build", "--release", "--offline"], cwd=DRIVER_DIR,
                               env=_env_offline(os.environ), stdout=subprocess.PIPE, stderr=subprocess.STDOUT)
            if r.returncode != 0:
                sys.stderr.write(r.stdout.decode(errors="replace"))
                raise SystemExit("rfx driver failed to build")
        finally:
            fcntl.flock(lock, fcntl.LOCK_UN)
    return DRIVER


def sysroot(repo):
    r = subprocess.run(["rustc", "--print", "sysroot"], cwd=repo, stdout=subprocess.PIPE, check=True)
    return r.stdout.decode().strip()


def tree_hash(repo, mir_opt, features):
    h = hashlib.sha256()
    files = []
    for root in ("src", "config_proc_macro"):
        for dp, dn, fn in os.walk(os.path.join(repo, root)):
            dn[:] = [d for d in dn if d not in ("target",)]
            for f in fn:
                files.append(os.path.join(dp, f))
    for f in ("Cargo.toml", "Cargo.lock", "build.rs", TOOLCHAIN_FILE):
        files.append(os.path.join(repo, f))
    for f in sorted(files):
        if not os.path.isfile(f):
            continue
        h.update(os.path.relpath(f, repo).encode())
        h.update(b"\0")
        with open(f, "rb") as fh:
            h.update(fh.read())
        h.update(b"\0")
    with open(ensure_driver(), "rb") as fh:
        h.update(hashlib.sha256(fh.read()).digest())
    h.update(("mir-opt=%s;features=%s" % (mir_opt, features)).encode())
    return h.hexdigest()[:24]


def extract(repo="/repo", mir_opt="0", features="default", verbose=True):
    """Return the directory holding one <crate>.jsonl per workspace crate for the current tree."""
    os.makedirs(CACHE, exist_ok=True)
    key = tree_hash(repo, mir_opt, features)
    dest = os.path.join(CACHE, "facts-" + key)
    lock = open(os.path.join(CACHE, ".lock"), "w")
    fcntl.flock(lock, fcntl.LOCK_EX)
    try:
        if os.path.isdir(dest) and all(os.path.exists(os.path.join(dest, c + ".jsonl")) for c in EXPECTED_CRATES):
            os.utime(dest, None)
            return dest
        t0 = time.time()
        tgt = tempfile.mkdtemp(prefix="rfx-tgt-")
        out = tempfile.mkdtemp(prefix="rfx-out-")
        try:
            env = _env_offline(os.environ)
            sr = sysroot(repo)
            env["LD_LIBRARY_PATH"] = os.path.join(sr, "lib") + ":" + env.get("LD_LIBRARY_PATH", "")
            flags = "-Awarnings"
            if mir_opt is not None:
                flags = "-Zmir-opt-level=%s -Awarnings" % mir_opt
            env["RUSTFLAGS"] = flags
            env["RUSTC_WORKSPACE_WRAPPER"] = DRIVER
            env["RFX_OUT"] = out
            env["CARGO_TARGET_DIR"] = tgt
            env.pop("RUSTC_WRAPPER", None)
            cmd = ["cargo", "check", "--offline", "--lib", "--bins"]
            if features == "none":
                cmd.append("--no-default-features")
            elif features != "default":
                cmd += ["--features", features]
            r = subprocess.run(cmd, cwd=repo, env=env, stdout=subprocess.PIPE, stderr=subprocess.STDOUT)
            if r.returncode != 0:
                sys.stderr.write(r.stdout.decode(errors="replace")[-6000:])
                raise SystemExit("fact extraction: cargo check failed on %s (the tree does not compile?)" % repo)
            tmpdest = dest + ".tmp%d" % os.getpid()
            shutil.rmtree(tmpdest, ignore_errors=True)
            os.makedirs(tmpdest)
            found = []
            for f in glob.glob(os.path.join(out, "*.jsonl")):
                crate = os.path.basename(f).split(".")[0]
                shutil.copy(f, os.path.join(tmpdest, crate + ".jsonl"))
                found.append(crate)
            expected = EXPECTED_CRATES if features == "default" else ["rustfmt_nightly", "rustfmt", "git_rustfmt"]
            missing = [c for c in expected if c not in found]
            if missing:
                raise SystemExit("fact extraction: no facts for crates %s (wrapper skipped?)" % missing)
            with open(os.path.join(tmpdest, "META.json"), "w") as fh:
                json.dump({"key": key, "repo": repo, "mir_opt": mir_opt, "features": features,
                           "crates": sorted(found), "extract_s": round(time.time() - t0, 1)}, fh)
            shutil.rmtree(dest, ignore_errors=True)
            os.rename(tmpdest, dest)
        finally:
            shutil.rmtree(tgt, ignore_errors=True)
            shutil.rmtree(out, ignore_errors=True)
        # prune old cache entries
        ents = sorted(glob.glob(os.path.join(CACHE, "facts-*")), key=os.path.getmtime, reverse=True)
        for e in ents[40:]:
            shutil.rmtree(e, ignore_errors=True)
        if verbose:
            sys.stderr.write("[facts] extracted %s in %.1fs -> %s\n" % (repo, time.time() - t0, dest))
        return dest
    finally:
        fcntl.flock(lock, fcntl.LOCK_UN)
