"""C05 — a failing run never damages source files.

R05-a who may write · R05-b parse+resolve dominate the first emit · R05-c version check first ·
R05-d per-input loop has no escaping exit · R05-e only formatted_text is written · R05-f exit status / containment (shared)
"""
import effects
from common import (short, result_edges, edge_dominates, loops_of, bool_branches, match_name,
                    switch_origin)

FILES_EMIT = "<rustfmt_nightly::emitter::files::FilesEmitter as rustfmt_nightly::emitter::Emitter>::emit_formatted_file"
BACKUP_EMIT = ("<rustfmt_nightly::emitter::files_with_backup::FilesWithBackupEmitter as "
               "rustfmt_nightly::emitter::Emitter>::emit_formatted_file")


def who_may_write(ctx, rid):
    """R05-a / R06-a.  Returns the list of fs-mutating calls."""
    p, r = ctx.p, ctx.r
    tab = ctx.table("writers").get("allowed", [])
    allowed = {t["fn"]: t for t in tab}
    calls = [c for c in p.all_calls() if effects.is_fs_mutating(c)]
    for c in calls:
        api = effects.strip_generics(c.name)
        owner = c.fn.id
        # closures inherit their root's entry
        root = c.fn.root or owner
        ent = allowed.get(owner) or allowed.get(root)
        if ent is None:
            # a private helper that only ever runs on behalf of one allowed function (every caller chain ends in it)
            ent = _sole_allowed_ancestor(p, root, allowed)
        ok = ent is not None and api in ent["apis"]
        r.instance(rid, c.key(), "allowed" if ok else "violation", c.loc(),
                   ent["reason"] if ok else "not in tables/writers.toml")
        if not ok:
            chain = None
            for rootfn in ("rustfmt_nightly::Session::<'b, T>::format", "rustfmt::main", "cargo_fmt::main"):
                if rootfn in p.fns:
                    chain = p.call_chain(rootfn, lambda f: f == owner)
                    if chain:
                        break
            r.violation(rid, "fs-write: %s calls %s" % (owner, api),
                        "%s calls the file-system-mutating API %s; only the two file emitters (and the config dump of the "
                        "binary) may write" % (short(owner), api), [c.loc()] + (chain or []))
    return calls


def _sole_allowed_ancestor(p, fid, allowed, depth=4):
    """table entry E such that fid is effectively private and every chain of callers of fid (≤ depth) ends in E's function"""
    f = p.fns.get(fid)
    if f is None or f.vis == "pub":
        return None
    cs = p.callers()
    found = set()
    seen = set()
    work = [(fid, 0)]
    while work:
        x, d = work.pop()
        if x in seen:
            continue
        seen.add(x)
        callers = {src for (src, kind, c) in cs.get(x, [])}
        if not callers or d >= depth:
            return None
        for src in callers:
            g = p.fns.get(src)
            rootg = (g.root or src) if g is not None else src
            if rootg in allowed:
                found.add(rootg)
            elif g is not None and g.vis != "pub":
                work.append((rootg, d + 1))
            else:
                return None
    return allowed[next(iter(found))] if len(found) == 1 else None


def emit_reachers(p):
    """functions from which an emitter's emit_formatted_file (any impl) is reachable"""
    targets = [f.id for f in p.fns.values() if f.id.endswith("::emit_formatted_file")]
    return p.can_reach(targets), targets


def run(ctx):
    p, r = ctx.p, ctx.r
    r.rule("R05-a", "who-may-write: every call to a file-system-mutating API (effects.FS_MUTATING) in all workspace crates "
                    "is made by a function listed in tables/writers.toml")
    calls = who_may_write(ctx, "R05-a")
    r.floor("R05-a", len(calls), 6, "fs-mutating call sites (4 in the emitters, 2 in the binary)")

    # R05-b -----------------------------------------------------------------------------------
    r.rule("R05-b", "in format_project every call that can reach an emitter is dominated by the Ok edge of "
                    "Parser::parse_crate and by the Continue edge of ModResolver::visit_crate(..)?; their error edges "
                    "reach the return without such a call")
    fp = p.fn("rustfmt_nightly::formatting::format_project")
    if fp is None:
        r.undecidable("R05-b", "format_project not found")
    else:
        reachers, targets = emit_reachers(p)
        ecalls = [c for c in fp.calls() if any(t in reachers for (t, k) in p.call_targets(c))]
        r.floor("R05-b", len(ecalls), 1, "emit-reaching calls in format_project")
        for gname in ("parse_crate", "visit_crate"):
            gs = [c for c in fp.calls() if c.name.endswith("::" + gname)]
            if len(gs) != 1:
                r.undecidable("R05-b", "expected exactly one call to %s in format_project, found %d" % (gname, len(gs)))
                continue
            g = gs[0]
            edges = result_edges(fp, g)
            if not edges:
                r.violation("R05-b", "format_project: result of %s not tested" % gname,
                            "the Result of %s is never matched or `?`-propagated" % gname, [g.loc()])
                continue
            for e in edges:
                for y in ecalls:
                    if y.bb == g.bb:
                        continue
                    dom = e["ok"] is not None and edge_dominates(fp, (e["sw"], e["ok"]), y.bb)
                    err_clean = e["err"] is None or y.bb not in fp.reachable(e["err"])
                    ok = dom and err_clean
                    r.instance("R05-b", "%s ⇒ %s" % (gname, y.key()), "ok" if ok else "violation", y.loc(),
                               "ok-edge bb%s→bb%s dominates bb%d; error edge bb%s cannot reach it" % (
                                   e["sw"], e["ok"], y.bb, e["err"]))
                    if not ok:
                        r.violation("R05-b", "format_project: %s reachable without successful %s" % (short(y.name), gname),
                                    "%s (which can reach a file emitter) is %s" % (
                                        short(y.name),
                                        "not dominated by the success edge of %s" % gname if not dom else
                                        "reachable from the error edge of %s" % gname),
                                    [g.loc(), y.loc()])

    # R05-c -----------------------------------------------------------------------------------
    r.rule("R05-c", "format_input_inner: Config::version_meets_requirement is tested before any other call and its "
                    "false edge returns Err(VersionMismatch) without reaching format_project")
    fi = p.named("format_input_inner", within="rustfmt_nightly::formatting::")
    if fi is None:
        r.undecidable("R05-c", "format_input_inner not found")
    else:
        vs = [c for c in fi.calls() if c.name.endswith("::version_meets_requirement")]
        if len(vs) != 1:
            r.violation("R05-c", "format_input_inner: version check missing",
                        "expected exactly one call to Config::version_meets_requirement, found %d" % len(vs),
                        ["%s:%d" % (fi.file, fi.line)])
        else:
            v = vs[0]
            br = bool_branches(fi, v.dest[0])
            reachers, _ = emit_reachers(p)
            others = [c for c in fi.calls() if c is not v and any(t in p.fns for (t, k) in p.call_targets(c))]
            if not br:
                r.violation("R05-c", "format_input_inner: version check result unused",
                            "the result of version_meets_requirement does not decide a branch", [v.loc()])
            for (sw, t_true, t_false) in br:
                bad = [c for c in others if not edge_dominates(fi, (sw, t_true), c.bb)]
                from_false = fi.reachable(t_false)
                bad2 = [c for c in fi.calls() if c.bb in from_false and
                        any(t in reachers for (t, k) in p.call_targets(c))]
                ok = not bad and not bad2
                r.instance("R05-c", "version_meets_requirement gate", "ok" if ok else "violation", v.loc(),
                           "%d workspace calls all dominated by the true edge" % len(others))
                if bad:
                    r.violation("R05-c", "format_input_inner: %s before version check" % short(bad[0].name),
                                "%s is reachable without the version requirement having been met" % short(bad[0].name),
                                [v.loc(), bad[0].loc()])
                if bad2:
                    r.violation("R05-c", "format_input_inner: formatting on version mismatch",
                                "the mismatch edge reaches %s" % short(bad2[0].name), [v.loc(), bad2[0].loc()])

    # R05-d -----------------------------------------------------------------------------------
    check_input_loop(ctx, "R05-d")

    # R05-e -----------------------------------------------------------------------------------
    r.rule("R05-e", "the content operand of every fs::write in the emitters derives from the formatted_text field of "
                    "the FormattedFile parameter and from nothing else")
    n = 0
    benign = ("as_bytes", "as_ref", "deref", "as_str", "borrow")

    def content_ok(f, op):
        """(ok, description): op derives from FormattedFile.formatted_text and nothing else (in emitter f)"""
        if op[0] == "k":
            return False, "a constant"
        d = f.derived_from(op[1][0])
        fields = {x[2] for x in d["fields"] if x[0] and x[0].endswith("FormattedFile")}
        for e in op[1][1]:
            if isinstance(e, (list, tuple)) and e[0] == "f" and e[2] and e[2].endswith("FormattedFile"):
                fields.add(e[4])
        other_calls = [cc for cc in d["calls"] if not any(cc.name.endswith("::" + b_) for b_ in benign)]
        ok = fields == {"formatted_text"} and not other_calls and not d["consts"]
        return ok, "fields %s, calls %s, constants %d" % (sorted(fields), [short(x.name) for x in other_calls], len(d["consts"]))

    for fid in (FILES_EMIT, BACKUP_EMIT):
        f = p.fns.get(fid)
        if f is None:
            r.undecidable("R05-e", "%s not found" % fid)
            continue
        for c in f.calls():
            h = p.fns.get(c.resolved or "")
            if h is not None and h.crate == f.crate and h is not f and h.vis != "pub":
                # a private helper doing the write on the emitter's behalf: the written operand must be one of its
                # parameters, and the emitter must pass formatted_text for it
                for hc in h.calls():
                    if effects.strip_generics(hc.name) != "std::fs::write":
                        continue
                    n += 1
                    op = hc.args[1]
                    okh = False
                    desc = "not a parameter of the helper"
                    if op[0] != "k":
                        dh = h.derived_from(op[1][0])
                        others = [cc for cc in dh["calls"] if not any(cc.name.endswith("::" + b_) for b_ in benign)]
                        if len(dh["args"]) == 1 and not others and not dh["consts"]:
                            k = next(iter(dh["args"]))
                            okh, desc = content_ok(f, c.args[k - 1])
                    r.instance("R05-e", hc.key(), "ok" if okh else "violation", hc.loc(), desc)
                    if not okh:
                        r.violation("R05-e", "%s: written content" % hc.key(),
                                    "the bytes written by helper %s derive from %s — expected formatted_text only" % (short(h.id), desc),
                                    [hc.loc()])
            if effects.strip_generics(c.name) == "std::fs::write":
                n += 1
                op = c.args[1]
                if op[0] == "k":
                    r.violation("R05-e", "%s: constant content" % c.key(), "fs::write of a constant", [c.loc()])
                    continue
                d = f.derived_from(op[1][0])
                fields = {x[2] for x in d["fields"] if x[0] and x[0].endswith("FormattedFile")}
                benign = ("as_bytes", "as_ref", "deref", "as_str", "borrow")
                other_calls = [cc for cc in d["calls"] if not any(cc.name.endswith("::" + b) for b in benign)]
                ok = fields == {"formatted_text"} and not other_calls and not d["consts"]
                r.instance("R05-e", c.key(), "ok" if ok else "violation", c.loc(), "derives from fields %s" % sorted(fields))
                if not ok:
                    r.violation("R05-e", "%s: written content" % c.key(),
                                "the written bytes derive from fields %s, calls %s, constants %s — expected formatted_text only"
                                % (sorted(fields), [short(x.name) for x in other_calls], len(d["consts"])), [c.loc()])
    r.floor("R05-e", n, 2, "fs::write sites in the emitters")

    reset_flag_pairing(ctx, "R05-g")
    import c13
    c13.parse_errors_are_errors(ctx, "R05-h")
    parsed_text_accepted_only_without_errors(ctx, "R05-k")
    module_tree_is_always_resolved(ctx, "R05-l")
    c13.only_a_missing_default_file_is_forgiven(ctx, "R05-m")
    import c15
    c15.session_state(ctx, "R05-n")     # shared with C06 / C15: the exit status is computed from the Session's accumulated flags; a flag that is overwritten forgets an earlier input's failure
    c13.registered_modules_come_from_their_file(ctx, "R05-i")
    c13.resolution_errors_not_overwritten(ctx, "R05-j")

    # R05-f (shared) ----------------------------------------------------------------------------
    import c06
    import c16
    c06.exit_code_tables(ctx, "R05-f")
    c16.parser_containment(ctx, "R05-f", only_root_open=True)


def check_input_loop(ctx, rid):
    """R05-d / R15-e: no edge leaves the per-input loop of the binary's `format` except the iterator's end."""
    p, r = ctx.p, ctx.r
    r.rule(rid, "bin `format`: the loop over the input files is left only through the iterator's None edge "
                "(no `?`/return/break inside the loop body)")
    f = p.fn("rustfmt::format")
    if f is None:
        r.undecidable(rid, "rustfmt::format not found")
        return
    found = 0
    for lp in loops_of(f):
        blocks = lp["blocks"]
        # the per-input loop is the one that formats: contains a call reaching Session::format
        body_calls = [c for c in f.calls() if c.bb in blocks]
        if not any(c.name.endswith("format_and_emit_report") or "Session" in c.name and c.name.endswith("::format")
                   or c.name.endswith("::override_config") for c in body_calls):
            continue
        found += 1
        nexts = [c for c in body_calls if c.declared == "std::iter::Iterator::next"]
        legit = set()
        for nx in nexts:
            for e in result_edges(f, nx):
                if e["err"] is not None:
                    legit.add((e["sw"], e["err"]))
        for (u, v) in lp["exits"]:
            if (u, v) in legit:
                r.instance(rid, "loop exit bb%d→bb%d" % (u, v), "ok", "%s:%d" % (f.file, f.line), "iterator exhausted")
                continue
            # name the construct: nearest call whose result decides u
            what = "edge bb%d→bb%d" % (u, v)
            culprit = None
            o = switch_origin(f, u)
            if o and o[0] == "discr":
                base = o[2]
                if base and base[0] == "call":
                    culprit = base[1]
                    if culprit.declared == "std::ops::Try::branch":
                        inner = culprit.args[0]
                        from common import op_local, local_origin
                        lo = local_origin(f, op_local(inner)) if op_local(inner) is not None else None
                        if lo and lo[0] == "call":
                            culprit = lo[1]
            cname = short(culprit.name) if culprit is not None else "?"
            r.instance(rid, "loop exit via %s" % cname, "violation", culprit.loc() if culprit else f.file)
            r.violation(rid, "input-loop: early exit via %s" % cname,
                        "the per-input loop of `format` can be left through %s (%s): an error for one input aborts the run, "
                        "and whether the other roots are formatted depends on argument order" % (cname, what),
                        [culprit.loc() if culprit else "%s:%d" % (f.file, f.line)])
    r.floor(rid, found, 1, "per-input loops in rustfmt::format")


def reset_flag_pairing(ctx, rid):
    """R05-g: parser errors of a non-ignored file can never be reset"""
    from absint import explore, vkey, TooManyPaths
    p, r = ctx.p, ctx.r
    r.rule(rid, "SilentOnIgnoredFilesEmitter keeps the invariant has_non_ignorable_parser_errors ⇒ ¬can_reset: every path that "
                "sets the flag also stores false into can_reset, and can_reset is stored true only on a path that decided the "
                "flag false (otherwise Parser::parse_file_as_module resets the errors of a broken module and formats it)")
    fns = [f for f in p.by_crate["rustfmt_nightly"] if "SilentOnIgnoredFilesEmitter" in f.id and f.kind != "Closure"]
    n_set = n_store = 0
    for f in fns:
        def eff(c, _f=f):
            if c.name.endswith("AtomicBool::store") and c.args and c.args[0][0] != "k":
                fields = {x[2] for x in _f.derived_from(c.args[0][1][0])["fields"]}
                for e in c.args[0][1][1]:
                    if isinstance(e, (list, tuple)) and e[0] == "f":
                        fields.add(e[4])
                return "can_reset" in fields
            return False
        try:
            paths = explore(f, is_effect=eff, max_paths=20000)
        except TooManyPaths as e:
            r.undecidable(rid, str(e))
            continue
        r.paths(rid, len(paths))
        for path in paths:
            if path.end not in ("ret",):
                continue
            sets = [e for e in path.effects if e.kind == "store" and e.name.endswith("has_non_ignorable_parser_errors")
                    and vkey(e.args[0]) == "true"]
            stores = [e for e in path.effects if e.kind == "call"]
            flag = None
            for k, v in path.decisions:
                if k.endswith("has_non_ignorable_parser_errors") and isinstance(v, bool):
                    flag = v
            if sets:
                n_set += 1
                ok = any(vkey(e.args[1]) == "false" for e in stores if len(e.args) > 1)
                r.instance(rid, "%s: sets the flag" % short(f.id), "ok" if ok else "violation", "%s:%d" % (f.file, sets[0].line))
                if not ok:
                    r.violation(rid, "%s sets has_non_ignorable_parser_errors without clearing can_reset" % short(f.id),
                                "after an error in a non-ignored file can_reset may still be true (set by an earlier error in an "
                                "ignored file): the errors are then reset and a module that failed to parse is formatted from its "
                                "recovered syntax tree", ["%s:%d" % (f.file, sets[0].line)])
            for e in stores:
                if len(e.args) < 2:
                    continue
                v = vkey(e.args[1])
                if v == "false":
                    continue
                n_store += 1
                # `true` under a test that the flag is false, or the value ¬flag itself (false whenever the flag is set)
                ok = (v == "true" and flag is False) or v == "!arg1.has_non_ignorable_parser_errors"
                r.instance(rid, "%s: can_reset.store(%s) with flag=%s" % (short(f.id), v, flag), "ok" if ok else "violation",
                           "%s:%d" % (f.file, e.line))
                if not ok:
                    r.violation(rid, "%s stores %s into can_reset" % (short(f.id), v),
                                "can_reset may become true only on a path that has just tested has_non_ignorable_parser_errors "
                                "to be false (and every later setter of the flag must clear it again)", ["%s:%d" % (f.file, e.line)])
    r.floor(rid, n_set + n_store, 2, "flag updates in SilentOnIgnoredFilesEmitter")


def parsed_text_accepted_only_without_errors(ctx, rid):
    """R05-k: the two parse entry points hand back a tree only if the session recorded no error (or only ignorable ones)"""
    from absint import explore, vkey
    p, r = ctx.p, ctx.r
    r.rule(rid, "Parser::parse_crate and Parser::parse_file_as_module: on every path that returns Ok(tree), "
                "`ParseSess::has_errors()` answered false or `ParseSess::can_reset_errors()` answered true *in that function, after "
                "the parse*.  rustc's lexer reports some errors (unknown escapes, stray characters) and goes on; the parser then "
                "succeeds on the recovered tokens.  Only the session's error state knows, and a file accepted in spite of it is "
                "rewritten from a tree that is not its text, with exit status 0.  Any other acceptance test (a flag computed inside "
                "the parsing closure, a count compared with a baseline taken after the file was lexed) is reported")
    n = 0
    for nm in ("parse_file_as_module", "parse_crate"):
        f = p.named(nm, within="parse::parser::Parser")
        if f is None:
            r.undecidable(rid, "parse::parser::Parser::%s not found" % nm)
            continue
        def acceptance_helper(c, _f=f):
            # a private helper of the parser module that decides acceptance from the session's error state
            h = p.fns.get(c.name)
            return h is not None and h.id.startswith("rustfmt_nightly::parse::parser::") and "ParserError" in h.locals[0] \
                and h.id != _f.id and any(x.name.endswith("ParseSess::has_errors") or x.name.endswith("ParseSess::can_reset_errors")
                                          for x in h.calls()) and not any(x.name == "std::panic::catch_unwind" for x in h.calls())
        for path in explore(f, pure=lambda c: not acceptance_helper(c), max_paths=2000, program=p, inline="auto"):
            if path.end != "ret" or path.ret is None or not vkey(path.ret).startswith("Ok("):
                continue
            n += 1
            ok = any(("ParseSess::has_errors(" in k and v is False) or ("ParseSess::can_reset_errors(" in k and v is True)
                     for k, v in path.decisions)
            r.instance(rid, "%s ↦ Ok after %s" % (nm, [("%s=%s" % (k.rsplit("::", 1)[-1][:28], v if not isinstance(v, tuple) else v[1]))
                                                        for k, v in path.decisions][-2:]),
                       "ok" if ok else "violation", "%s:%d" % (f.file, f.line))
            if not ok:
                r.violation(rid, "Parser::%s returns a tree on a path that never consulted the session's error state" % nm,
                            "decisions on the path: %s" % [k[-40:] for k, v in path.decisions], ["%s:%d" % (f.file, f.line)])
    r.floor(rid, n, 4, "Ok-returning paths of the parse entry points")


def module_tree_is_always_resolved(ctx, rid):
    """R05-l: whether the out-of-line modules are looked up depends on stdin / skip_children and on nothing else"""
    from absint import explore, vkey, TooManyPaths
    p, r = ctx.p, ctx.r
    r.rule(rid, "formatting::format_project: the `recursive` argument of ModResolver::new is `false` for standard input and "
                "`!config.skip_children()` otherwise — on every path, whatever else was decided before.  Resolving the module tree "
                "is the only step that notices a child module that is missing, ambiguous or does not parse; a run that skips it for "
                "some other reason (a line selection confined to the root file, a cache, an option) rewrites the root and exits 0 "
                "where the full run reports the error and writes nothing")
    f = p.fn("rustfmt_nightly::formatting::format_project")
    if f is None:
        r.undecidable(rid, "formatting::format_project not found")
        return
    try:
        paths = explore(f, is_effect=lambda c: "ModResolver" in c.name and c.name.endswith("::new"), pure=lambda c: True, max_paths=50000)
    except TooManyPaths as e:
        r.undecidable(rid, str(e))
        return
    groups = {}
    n = 0
    for pa in paths:
        for e in pa.effects:
            if e.kind != "call" or len(e.args) < 3:
                continue
            n += 1
            stdin = [v for k, v in pa.decisions[:e.ndec] if "Stdin" in k and isinstance(v, bool)]
            groups.setdefault(stdin[-1] if stdin else None, set()).add(vkey(e.args[2]))
    bad = []
    for sd, vals in groups.items():
        for v in vals:
            core = v.replace("!", "").strip()
            if sd is True and v != "false":
                bad.append((sd, v))
            elif sd is not True and not (core.endswith("Config::skip_children(arg2)") or core.endswith("skip_children(arg2)")) :
                bad.append((sd, v))
            elif sd is not True and not v.startswith("!"):
                bad.append((sd, v))
        if len(vals) > 1:
            bad.append((sd, sorted(vals)))
    r.instance(rid, "format_project: recursive = !stdin ∧ !skip_children", "violation" if bad else "ok", "%s:%d" % (f.file, f.line),
               str({str(k): sorted(v) for k, v in groups.items()})[:160])
    if bad:
        r.violation(rid, "format_project resolves the module tree only under a further condition",
                    "the `recursive` flag handed to ModResolver::new takes the values %s (stdin = %s): it depends on more than "
                    "standard input and skip_children" % (bad[0][1], bad[0][0]), ["%s:%d" % (f.file, f.line)])
    r.floor(rid, n, 2, "paths of format_project that build the module resolver")
