"""C11 — reordering is a deterministic permutation (partial).

R11-a only stable sorts on import / item lists · R11-b rank table of UseSegment::cmp · R11-c partial_cmp ≡ Some(cmp)
R11-d ReorderableItemKind::from table
"""
import itertools

from absint import explore, vkey, variant_name, TooManyPaths
from common import short

KINDS = ["Slf", "Super", "Crate", "Ident", "Glob", "List"]
RANK = {k: i for i, k in enumerate(KINDS)}
ELEM_RX = ("imports::UseTree", "rustc_ast::Item", "lists::ListItem", "imports::UseSegment")


def run(ctx):
    p, r = ctx.p, ctx.r
    A = r.rule("R11-a", "every sort whose element type mentions UseTree / UseSegment / ast::Item / ListItem is a stable one "
                        "(slice::sort, sort_by, sort_by_key, sort_by_cached_key): equal-ranked elements keep their order")
    n = 0
    for c in p.all_calls("rustfmt_nightly"):
        last = c.name.rsplit("::", 1)[-1]
        if not (last.startswith("sort") or last.startswith("select_nth") or last in ("binary_heap", "into_sorted_vec")):
            continue
        ga = " ".join(c.ga)
        if not any(x in ga for x in ELEM_RX):
            continue
        n += 1
        stable = last in ("sort", "sort_by", "sort_by_key", "sort_by_cached_key", "sorted", "sorted_by", "sorted_by_key")
        r.instance(A, "%s: %s<%s>" % (short(c.fn.id), last, short(c.ga[0])[:50] if c.ga else ""), "ok" if stable else "violation", c.loc())
        if not stable:
            r.violation(A, "unstable sort of %s in %s" % (short(c.ga[0])[:40] if c.ga else "?", short(c.fn.root or c.fn.id)),
                        "%s is not a stable sort: imports / items that compare equal (same path, different alias or attributes) "
                        "may change their relative order depending on the arrangement of the rest" % last, [c.loc()])
    r.floor(A, n, 5, "sorts over import / item lists")

    B = r.rule("R11-b", "rank table of <UseSegment as Ord>::cmp: all 30 off-diagonal (kind, kind) cells are the constants induced by "
                        "self < super < crate < ident < glob < list (antisymmetric, transitive)")
    f = p.fns.get("<rustfmt_nightly::imports::UseSegment as std::cmp::Ord>::cmp")
    if f is None:
        r.undecidable(B, "<UseSegment as Ord>::cmp not found")
    else:
        try:
            paths = explore(f, pure=lambda c: True, max_paths=200000)
        except TooManyPaths as e:
            r.undecidable(B, str(e))
            paths = []
        r.paths(B, len(paths))
        cells = {}
        for path in paths:
            sets = {}
            for k, v in path.decisions:
                if k in ("discr(arg1.kind)", "discr(arg2.kind)"):
                    v = variant_name(v)
                    s = set(v[1]) if isinstance(v, tuple) and v[0] == "other" else {v}
                    sets[k] = sets.get(k, set(KINDS)) & s
            ka = sets.get("discr(arg1.kind)", set(KINDS))
            kb = sets.get("discr(arg2.kind)", set(KINDS))
            out = vkey(path.ret) if (path.end == "ret" and path.ret is not None) else "<%s>" % path.end
            for a, b in itertools.product(ka, kb):
                if a != b:
                    cells.setdefault((a, b), set()).add(out)
        bad = 0
        for a, b in itertools.permutations(KINDS, 2):
            want = "Less" if RANK[a] < RANK[b] else "Greater"
            got = cells.get((a, b), set())
            ok = got == {want}
            r.cells(B, 1)
            if not ok:
                bad += 1
                r.violation(B, "UseSegment::cmp(%s, %s) = %s" % (a, b, sorted(got)),
                            "comparing a `%s` segment with a `%s` segment yields %s, expected %s: the ranking of segment kinds "
                            "is no longer the strict order self < super < crate < ident < glob < list" % (a, b, sorted(got), want),
                            ["%s:%d" % (f.file, f.line)])
        r.instance(B, "UseSegment::cmp rank table", "ok" if not bad else "violation", "%s:%d" % (f.file, f.line),
                   "30 off-diagonal cells, %d deviate" % bad)

    C = r.rule("R11-c", "PartialOrd::partial_cmp ≡ Some(Ord::cmp) for UseSegment and UseTree")
    for ty in ("UseSegment", "UseTree"):
        g = p.fns.get("<rustfmt_nightly::imports::%s as std::cmp::PartialOrd>::partial_cmp" % ty)
        if g is None:
            r.undecidable(C, "partial_cmp of %s not found" % ty)
            continue
        paths = explore(g, pure=lambda c: True)
        rets = {vkey(pa.ret) for pa in paths if pa.end == "ret" and pa.ret is not None}
        ok = len(rets) == 1 and next(iter(rets)).startswith("Some(<imports::%s as std::cmp::Ord>::cmp(arg1,arg2))" % ty)
        r.instance(C, "%s::partial_cmp" % ty, "ok" if ok else "violation", "%s:%d" % (g.file, g.line), str(sorted(rets))[:100])
        if not ok:
            r.violation(C, "%s::partial_cmp is not Some(cmp)" % ty, "partial order and total order of %s disagree: %s" % (ty, sorted(rets)),
                        ["%s:%d" % (g.file, g.line)])

    D = r.rule("R11-d", "ReorderableItemKind::from: #[macro_use] ∨ skip ↦ Other before any kind test; ExternCrate ↦ ExternCrate; "
                        "Mod ∧ is_mod_decl ↦ Mod; Use ↦ Use; everything else ↦ Other")
    g = p.named("from", within="ReorderableItemKind")
    if g is None:
        r.undecidable(D, "ReorderableItemKind::from not found")
    else:
        paths = explore(g, pure=lambda c: True)
        r.paths(D, len(paths))
        for path in paths:
            if path.end != "ret" or path.ret is None:
                continue
            dec = [(k, variant_name(v)) for k, v in path.decisions]
            ret = vkey(path.ret)
            guard = None
            kind = None
            decl = None
            guard, nguard = pin_guard(p, dec)
            for k, v in dec:
                if k == "discr(arg1.kind)":
                    kind = v
                elif "is_mod_decl(arg1)" in k:
                    decl = v
            first_is_guard = nguard > 0 and not any(k == "discr(arg1.kind)" or "is_mod_decl(arg1)" in k for k, v in dec[:nguard])
            if guard is True:
                want = "Other"
            elif kind == "ExternCrate":
                want = "ExternCrate"
            elif kind == "Use":
                want = "Use"
            elif kind == "Mod":
                want = "Mod" if decl else "Other"
            else:
                want = "Other"
            ok = ret == want and first_is_guard and guard is not None
            r.cells(D, 1)
            r.instance(D, "from[guard=%s,kind=%s,decl=%s]" % (guard, kind if not isinstance(kind, tuple) else "other", decl),
                       "ok" if ok else "violation", "%s:%d" % (g.file, g.line), ret)
            if not ok:
                r.violation(D, "ReorderableItemKind::from[macro_use|skip=%s, kind=%s, mod decl=%s] = %s" % (
                    guard, kind if not isinstance(kind, tuple) else "other", decl, ret),
                    "expected %s; a #[macro_use] or skipped item must never be reordered, and only extern crate / mod "
                    "declarations / use items are reorderable" % want, ["%s:%d" % (g.file, g.line)])
    numeric_chunks_are_numbers(ctx, "R11-e")
    macro_use_barrier_by_name(ctx, "R11-f")
    equality_is_finer_than_the_order(ctx, "R11-g")
    names_are_ordered_by_their_text(ctx, "R11-h")


def numeric_chunks_are_numbers(ctx, rid):
    """R11-e: the chunk iterator of the version sort never hands a run of digits on as text"""
    from absint import explore, vkey, TooManyPaths
    p, r = ctx.p, ctx.r
    r.rule(rid, "sort::VersionChunkIter::parse_numeric_chunk returns Some(VersionChunk::Number{..}) on every path — never another "
                "chunk kind, never the end of the iteration: version_sort orders "
                "Number against Number by value and everything else by text, which is a consistent preorder only while no text "
                "chunk starts with a digit (a digit run compared as text against `2` and `10` gives 1000… < 2 < 10 < 1000…)")
    f = p.named("parse_numeric_chunk", within="sort::VersionChunkIter")
    if f is None:
        r.undecidable(rid, "VersionChunkIter::parse_numeric_chunk not found")
        return
    try:
        paths = explore(f, pure=lambda c: True, max_paths=20000, max_visits=2)
    except TooManyPaths as e:
        r.undecidable(rid, str(e))
        return
    r.paths(rid, len(paths))
    n = 0
    for path in paths:
        if path.end != "ret" or path.ret is None:
            continue
        ret = vkey(path.ret)
        if ret.startswith("residual(") or ret == "None":
            # the iterator ends here: everything after the digit run is ignored by version_sort, so names that differ only
            # after it rank equal and keep their input order (the output then depends on the permutation)
            n += 1
            r.instance(rid, "parse_numeric_chunk → end of iteration", "violation", "%s:%d" % (f.file, f.line))
            r.violation(rid, "parse_numeric_chunk can end the chunk iteration",
                        "a path returns %s (a digit run that does not parse): version_sort stops comparing there, "
                        "`a999…9b` and `a999…9a` rank equal and every permutation of them formats to itself" % short(ret)[:40],
                        ["%s:%d" % (f.file, f.line)])
            continue
        n += 1
        ok = ret.startswith("Some(Number(") or ret.startswith("Number(")
        r.instance(rid, "parse_numeric_chunk → %s" % ret.split("(")[0 if not ret.startswith("Some(") else 1], "ok" if ok else "violation",
                   "%s:%d" % (f.file, f.line))
        if not ok:
            r.violation(rid, "parse_numeric_chunk yields a chunk that is not a Number",
                        "a run of digits is returned as %s: compared as text against ordinary numbers while those are compared by "
                        "value among themselves, the 2024 ordering is no longer transitive and the sorted output depends on the "
                        "input order" % short(ret)[:50], ["%s:%d" % (f.file, f.line)])
    r.floor(rid, n, 1, "value-returning paths of parse_numeric_chunk")


def macro_use_barrier_by_name(ctx, rid):
    """R11-f: every spelling of #[macro_use] stops reordering"""
    from common import expr_key, false_answer_implies_false
    p, r = ctx.p, ctx.r
    r.rule(rid, "reorder::contains_macro_use_attr decides which `extern crate` items are barriers that nothing is moved across.  "
                "`#[macro_use]` and `#[macro_use(a, b)]` both make later items depend on the position of the crate, so the test is a "
                "test of the attribute *name*: the function either returns `rustc_ast::attr::contains_name(attrs, sym::macro_use)` "
                "unchanged, or every predicate it is built from answers false only on paths on which `has_name(.., sym::macro_use)` "
                "answered false — a predicate that looks at the form of the attribute first (word / list / name-value) lets the "
                "list form through and the import order changes the meaning of the program")
    def names_macro_use(c):
        return any(a[0] == "k" and isinstance(a[2], dict) and str(a[2].get("named", "")).endswith("sym::macro_use") for a in c.args)

    f = p.named("contains_macro_use_attr", within="reorder")
    if f is None:
        # renamed or merged into another predicate: the barrier test is whichever function of reorder.rs names sym::macro_use
        cands = [g for g in p.by_crate["rustfmt_nightly"] if short(g.id).startswith("reorder::") and any(names_macro_use(c) for c in g.calls())]
        roots = sorted({g.id.split("::{closure")[0] for g in cands})
        f = p.fns.get(roots[0]) if len(roots) == 1 else None
    if f is None:
        r.undecidable(rid, "no single function of reorder.rs tests the name macro_use")
        return

    direct = [c for c in f.calls() if c.name.endswith("attr::contains_name") and names_macro_use(c)]
    rets = {expr_key(f, ["m", [0, []]])}
    if direct and all(any(k.startswith(d.name + "(") for d in direct) for k in rets):
        r.instance(rid, "contains_macro_use_attr returns attr::contains_name(attrs, sym::macro_use)", "ok", "%s:%d" % (f.file, f.line))
        r.floor(rid, 1, 1, "macro_use barrier predicates")
        return
    # own implementation: follow closures and workspace helpers
    seen, work, preds = set(), [f], []
    while work:
        g = work.pop()
        if g.id in seen:
            continue
        seen.add(g.id)
        if any(names_macro_use(c) for c in g.calls()):
            preds.append(g)
        for h in p.by_crate["rustfmt_nightly"]:
            if h.id.startswith(g.id + "::{closure"):
                work.append(h)
        for c in g.calls():
            h = p.fns.get(c.resolved or "")
            if h is not None and h.crate == f.crate and len(seen) < 40:
                work.append(h)
            for cl in (getattr(c, "fn_refs", None) or []):
                h = p.fns.get(cl)
                if h is not None and h.crate == f.crate:
                    work.append(h)
    if not preds:
        r.instance(rid, "contains_macro_use_attr: own implementation", "violation", "%s:%d" % (f.file, f.line))
        r.violation(rid, "contains_macro_use_attr never tests the name macro_use", "no call in it or in its helpers names sym::macro_use",
                    ["%s:%d" % (f.file, f.line)])
        return
    for g in preds:
        ok = false_answer_implies_false(p, g, ["sym::macro_use)"])
        r.instance(rid, "%s answers false only when the name is not macro_use" % short(g.id), "ok" if ok else "violation",
                   "%s:%d" % (g.file, g.line))
        if not ok:
            r.violation(rid, "%s can answer false for an attribute named macro_use" % short(g.id),
                        "there is a path to `false` on which has_name(.., sym::macro_use) was not asked or not answered false — the "
                        "answer depends on the form of the attribute (`#[macro_use(a, b)]`), and such an extern crate is reordered",
                        ["%s:%d" % (g.file, g.line)])
    r.floor(rid, len(preds), 1, "macro_use barrier predicates")


def pin_guard(p, dec):
    """The `#[macro_use] ∨ skip` guard of ReorderableItemKind::from among a path's decisions, in whatever form it is written:
    `a | b` (one decision), `a || b` (two decisions), or a helper predicate h(item) whose false answer implies both are false.
    Returns (True | False | None, number of leading decisions that belong to the guard)."""
    from common import false_answer_implies_false
    skip = mac = None
    n = 0
    for k, v in dec:
        is_skip = "contains_skip(" in k and "arg1" in k.split("contains_skip(", 1)[1]
        is_mac = ("contains_macro_use_attr(" in k and "arg1" in k.split("contains_macro_use_attr(", 1)[1]) or (
            "contains_name(" in k and "macro_use" in k)
        if (is_skip or is_mac) and "BitAnd" not in k and "!" not in k:
            n += 1
            if v is True and not (is_skip and is_mac and "BitOr" not in k):
                return True, n
            if v is False:
                if is_skip:
                    skip = False
                if is_mac:
                    mac = False
            continue
        if k.endswith("(arg1)") and isinstance(v, bool):
            name = k[:-len("(arg1)")]
            hs = [h for h in p.by_crate["rustfmt_nightly"] if h.id.endswith(name) and h.kind != "Closure"]
            if len(hs) == 1 and false_answer_implies_false(p, hs[0], ["contains_skip("]) and (
                    false_answer_implies_false(p, hs[0], ["contains_macro_use_attr("])
                    or false_answer_implies_false(p, hs[0], ["macro_use"])):
                n += 1
                if v is True:
                    return True, n
                skip = mac = False
                continue
        break
    if skip is False and mac is False:
        return False, n
    return None, n


def equality_is_finer_than_the_order(ctx, rid):
    """R11-g: two imports that merely *rank* equal are not the same import"""
    p, r = ctx.p, ctx.r
    r.rule(rid, "the order on use trees deliberately ignores aliases (`use a::b as c;` and `use a::b;` rank equal, so a stable sort "
                "keeps them as written); their *equality* — what de-duplication and merging ask — does not: "
                "`<UseTree as PartialEq>::eq` compares the `path` fields (segments with their aliases) and is not defined through "
                "`Ord::cmp` / `partial_cmp`.  Equality by rank makes `imports_granularity = Item` drop `use std::io::Write as _;` "
                "next to `use std::io::Write;`: the output is no longer a permutation of the input")
    eq = None
    for f in p.by_crate["rustfmt_nightly"]:
        if f.impl and f.impl.get("self") == "rustfmt_nightly::imports::UseTree" and f.impl.get("trait") == "std::cmp::PartialEq" \
                and f.id.endswith("::eq"):
            eq = f
    if eq is None:
        r.undecidable(rid, "<UseTree as PartialEq>::eq not found")
        return
    fields = {str(fld) for (adt, var, fld, mode, bb, line) in eq.field_accesses() if (adt or "").endswith("imports::UseTree")}
    by_rank = [c for c in eq.calls() if (c.declared or c.name).rsplit("::", 1)[-1] in ("cmp", "partial_cmp")
               and any("imports::UseTree" in g for g in c.ga)]
    ok = "path" in fields and not by_rank
    r.instance(rid, "<UseTree as PartialEq>::eq reads %s" % sorted(fields), "ok" if ok else "violation", "%s:%d" % (eq.file, eq.line),
               "via Ord" if by_rank else "field comparison")
    if not ok:
        r.violation(rid, "equality of use trees is defined by their rank, not by their paths",
                    "`eq` %s: imports that differ only in an alias compare equal and one of them is dropped as a duplicate"
                    % ("calls cmp on the trees" if by_rank else "does not compare `path`"), ["%s:%d" % (eq.file, eq.line)])


def names_are_ordered_by_their_text(ctx, rid):
    """R11-h: no ordering on rustc_span::Symbol"""
    import re
    p, r = ctx.p, ctx.r
    r.rule(rid, "who-may-call: `rustc_span::Symbol` (and `Ident` through it) implements Ord by the *index* the interner gave "
                "the string — the order in which the names were first lexed — not by its text. An order of declarations that "
                "consults it depends on what else the file (or an earlier file of the session) mentions, not on the elements "
                "alone: two permutations of one group come out differently. No function of the library calls "
                "`<Symbol as Ord / PartialOrd>::{cmp, partial_cmp, lt, le, gt, ge, max, min}` or instantiates a sort, "
                "a BTreeMap / BTreeSet or a min/max adaptor with a Symbol key; names are compared through `as_str()`")
    n_text = 0
    hits = []
    for c in p.all_calls():
        if c.fn.crate != "rustfmt_nightly":
            continue
        if c.name.endswith("Symbol::as_str") or c.name.endswith("Ident::as_str"):
            n_text += 1
        direct = re.search(r"<rustc_span::(symbol::)?(Symbol|Ident) as std::cmp::(Ord|PartialOrd)(<[^>]*>)?>::", c.name) is not None
        ga = " ".join(c.ga)
        keyed = re.search(r"(sort|BTreeMap|BTreeSet|max_by_key|min_by_key|::max$|::min$|binary_search)", c.name) is not None and \
            re.search(r"\brustc_span::(symbol::)?Symbol\b", ga) is not None and "as_str" not in ga
        if direct or keyed:
            hits.append(c)
    for c in hits:
        r.instance(rid, "%s orders by Symbol" % short(c.fn.root or c.fn.id), "violation", c.loc(), short(c.name)[:80])
        r.violation(rid, "%s orders names by rustc_span::Symbol" % short(c.fn.root or c.fn.id),
                    "`%s` compares interner indices: the order of the declarations follows the order in which the names first "
                    "appeared anywhere in the input, not their text" % short(c.name)[:90], [c.loc()])
    r.instance(rid, "orderings on Symbol in the library", "ok" if not hits else "violation", "",
               "%d found; %d name comparisons go through as_str()" % (len(hits), n_text))
    r.floor(rid, n_text, 20, "calls of Symbol::as_str / Ident::as_str in the library (names compared or printed by their text)")
