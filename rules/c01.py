"""C01 — formatting preserves the meaning of the program (partial: structural necessary conditions).

R01-a AST field coverage · R01-b verbatim fallback · R01-c no defaulted sub-rewrite
"""
import re
from common import short, Call, correlated_reach

POS_T = ("rustc_span::Span", "rustc_ast::NodeId", "rustc_ast::AttrId", "rustc_ast::tokenstream::LazyAttrTokenStream",
         "rustc_ast::tokenstream::DelimSpan", "rustc_span::ErrorGuaranteed", "rustc_ast::tokenstream::DelimSpacing",
         "rustc_ast::Recovered")
POS_N = ("is_placeholder", "tokens", "id", "span")


def positional(fname, fty):
    t = fty
    for w in ("std::option::Option<", "std::result::Result<(), "):
        if t.startswith(w):
            t = t[len(w):-1]
    return fname in POS_N or any(t == x for x in POS_T)


def run(ctx):
    p, r = ctx.p, ctx.r
    tab = ctx.table("C01")
    exc = {e["field"]: e["reason"] for e in tab.get("unread", [])}
    A = r.rule("R01-a", "AST field coverage: for every rustc_ast struct / enum variant of which the workspace reads at least one "
                        "field, every token-bearing field (everything but spans, node ids, token caches, recovery flags) is read "
                        "by some workspace function or listed in tables/C01.toml with the reason its tokens cannot be lost; a "
                        "variant none of whose fields is read is opaque (emitted from its source snippet)")
    idx = p.field_index()
    asts = [a for a in p.adts.values() if a["crate"] == "rustc_ast"]
    read_adts = {k[0] for k in idx if idx[k].get("r")}
    n_univ = n_read = n_opaque = 0
    used_exc = set()
    for a in asts:
        if a["id"] not in read_adts:
            continue
        for v in a["variants"]:
            fs = [(fn, ft) for (fn, ft) in v["fields"] if not positional(fn, ft)]
            if not fs:
                continue
            unread = [(fn, ft) for (fn, ft) in fs if not idx.get((a["id"], v["name"], fn), {}).get("r")]
            n_univ += len(fs)
            n_read += len(fs) - len(unread)
            if not unread:
                continue
            if len(unread) == len(fs) and a["kind"] == "enum":
                n_opaque += 1
                r.instance(A, "%s::%s" % (a["id"], v["name"]), "opaque-variant", "", "never destructured: emitted from its snippet",
                           nontrivial=False)
                continue
            for (fn, ft) in unread:
                key = "%s::%s.%s" % (a["id"], v["name"], fn)
                if key in exc:
                    used_exc.add(key)
                    r.instance(A, key, "exception", "", exc[key], nontrivial=False)
                    continue
                readers = sorted({short(x) for f2 in v["fields"] for x in idx.get((a["id"], v["name"], f2[0]), {}).get("r", ())})[:4]
                r.instance(A, key, "violation", "", "type %s" % ft)
                r.violation(A, "unread AST field: %s" % key,
                            "rustfmt destructures %s::%s (e.g. in %s) but no workspace function ever reads its field `%s: %s`: two "
                            "programs that differ only there format to the same text, so the tokens it stands for are dropped "
                            "or invented" % (a["id"], v["name"], readers, fn, ft), readers)
    stale = set(exc) - used_exc
    for k in sorted(stale):
        r.instance(A, k, "stale-exception", "", "field is read now (or no longer exists): entry can be removed", nontrivial=False)
    r.cells(A, n_univ)
    r.instance(A, "coverage", "ok", "", "%d token-bearing fields in destructured nodes, %d read, %d opaque variants, %d table exceptions"
               % (n_univ, n_read, n_opaque, len(used_exc)))
    r.floor(A, n_read, 380, "AST fields read by the workspace")

    B = r.rule("R01-b", "verbatim fallback: FmtVisitor::push_rewrite_inner pushes the source snippet of the span when the rewrite is "
                        "None; macros::return_macro_parse_failure_fallback builds its Ok result from the snippet / the re-indented "
                        "source lines only")
    pr = p.named("push_rewrite_inner", within="visitor::FmtVisitor")
    if pr is None:
        r.undecidable(B, "push_rewrite_inner not found")
    else:
        from absint import explore, vkey, variant_name
        paths = explore(pr, is_effect=lambda c: c.name.endswith("::push_str") and "FmtVisitor" in c.name,
                        pure=lambda c: c.name.endswith("::snippet") or c.name.endswith("FmtVisitor::<'a>::snippet")
                        or c.name.endswith("str>::trim") or c.name.endswith("::trim_start") or c.name.endswith("::trim_end"))
        r.paths(B, len(paths))
        n = 0
        for path in paths:
            if path.end != "ret":
                continue
            rw = None
            for k, v in path.decisions:
                if k == "discr(arg3)":
                    rw = variant_name(v)
            pushed = [vkey(e.args[1]) for e in path.effects if e.kind == "call" and len(e.args) > 1]
            if rw == "None":
                n += 1
                ok = len(pushed) >= 1 and all("snippet(" in x and "arg2" in x for x in pushed)
                r.instance(B, "push_rewrite_inner[None]", "ok" if ok else "violation", "%s:%d" % (pr.file, pr.line), str(pushed)[:80])
                if not ok:
                    r.violation(B, "push_rewrite_inner: failed rewrite is not replaced by the source snippet",
                                "when a rewrite fails the visitor pushes %s instead of self.snippet(span)" % pushed,
                                ["%s:%d" % (pr.file, pr.line)])
            elif rw == "Some":
                ok = len(pushed) == 1 and "arg3 as Some.0" in pushed[0]
                r.instance(B, "push_rewrite_inner[Some]", "ok" if ok else "violation", "%s:%d" % (pr.file, pr.line), str(pushed)[:80])
                if not ok:
                    r.violation(B, "push_rewrite_inner[Some] pushes %s" % pushed, "the rewritten text is not what is pushed",
                                ["%s:%d" % (pr.file, pr.line)])
        r.floor(B, n, 1, "None-paths of push_rewrite_inner")
    fb = p.named("return_macro_parse_failure_fallback", within="rustfmt_nightly::macros")
    if fb is None:
        r.undecidable(B, "return_macro_parse_failure_fallback not found")
    else:
        # every Ok aggregate derives from context.snippet(span) (possibly through trim/lines/join helpers), never from a rewriter
        n = 0
        for (bb, kind, pl) in fb.defs().get(0, []):
            if isinstance(pl, Call):
                continue
            rv = pl[2]
            if rv[0] == "agg" and isinstance(rv[1], list) and rv[1][2] == "Ok":
                n += 1
                op = rv[2][0]
                d = fb.derived_from(op[1][0]) if op[0] != "k" else {"calls": []}
                has_snip = any(c.name.endswith("::snippet") for c in d["calls"])
                rewriters = [c for c in d["calls"] if (c.declared or "").startswith("rustfmt_nightly::rewrite::Rewrite::")
                             or c.name.rsplit("::", 1)[-1].startswith("rewrite_") or c.name.rsplit("::", 1)[-1].startswith("format_")]
                rewriters = [c for c in rewriters if not c.name.startswith("std::") and not c.name.startswith("alloc::")
                             and "fmt::format" not in c.name]
                ok = has_snip and not rewriters
                r.instance(B, "macro fallback Ok@bb%d" % bb, "ok" if ok else "violation", "%s:%d" % (fb.file, pl[3]),
                           "snippet=%s rewriters=%s" % (has_snip, [short(c.name) for c in rewriters]))
                if not ok:
                    r.violation(B, "macro parse-failure fallback returns rewritten text",
                                "the fallback for unparsable macro arguments must hand back the source (snippet=%s, rewriters=%s)"
                                % (has_snip, [short(c.name) for c in rewriters]), ["%s:%d" % (fb.file, pl[3])])
        r.floor(B, n, 1, "Ok results of return_macro_parse_failure_fallback")

    placeholder_guard(ctx, "R01-d")
    float_dot_siblings(ctx, "R01-e")
    singleton_tuple_comma(ctx, "R01-f")
    special_macro_parsers_check_tokens(ctx, "R01-g")
    block_unwrappers_look_at_the_label(ctx, "R01-h")
    synthesised_operators_respect_precedence(ctx, "R01-i")
    token_bindings_are_consumed(ctx, "R01-j", tab)
    variant_printers_read_the_keyword(ctx, "R01-k")
    attribute_rewrites_are_consumed(ctx, "R01-l")
    paren_peelers_look_at_attributes(ctx, "R01-m")
    token_strings_are_consumed(ctx, "R01-n")
    none_means_one_thing(ctx, "R01-o")
    macro_parsers_skip_only_tested_tokens(ctx, "R01-p")
    stream_parsers_reach_end_of_input(ctx, "R01-q", tab)
    sibling_switches_separate_the_same_variants(ctx, "R01-r", tab)
    path_name_tests_look_at_generic_arguments(ctx, "R01-t", tab)
    loop_bodies_keep_their_inner_attributes(ctx, "R01-u", tab)
    import c03
    c03.doc_openers_are_recognised_as_the_lexer_does(ctx, "R01-v")     # shared with C03: a plain comment rewritten as `///` adds a doc comment
    import c10
    c10.visibility_tables(ctx, "R01-s")      # shared with C10: a visibility that compares equal to a different one is rewritten into it
    C = r.rule("R01-c", "no defaulted sub-rewrite: a RewriteResult / Option<String> returned by a Rewrite method is never turned into "
                        "an empty string (unwrap_or_default, unwrap_or(String::new()), unwrap_or_else(|_| String::new()))")
    latent = {e["fn"]: e["reason"] for e in tab.get("defaulted", [])}
    n = 0
    for f in p.by_crate["rustfmt_nightly"]:
        for c in f.calls():
            last = c.name.rsplit("::", 1)[-1]
            if last not in ("unwrap_or_default", "unwrap_or", "unwrap_or_else"):
                continue
            ga = " ".join(c.ga)
            if "std::string::String" not in ga:
                continue
            if not (c.name.startswith("std::result::Result") or c.name.startswith("std::option::Option")):
                continue
            if c.args[0][0] == "k":
                continue
            d = f.derived_from(c.args[0][1][0])
            from_rewrite = [x for x in d["calls"] if (x.declared or "").startswith("rustfmt_nightly::rewrite::Rewrite::rewrite")
                            or x.name.endswith("::rewrite_result") or x.name.endswith("::rewrite")]
            if not from_rewrite:
                continue
            empty_default = last == "unwrap_or_default"
            if last == "unwrap_or" and len(c.args) > 1:
                dd = f.derived_from(c.args[1][1][0]) if c.args[1][0] != "k" else {"calls": []}
                empty_default = any(x.name.endswith("String::new") for x in dd["calls"])
            if last == "unwrap_or_else":
                for x in c.refs:
                    g = p.fns.get(x)
                    if g and any(cc.name.endswith("String::new") or cc.name.endswith("Default>::default") for cc in g.calls()):
                        empty_default = True
            if not empty_default:
                continue
            n += 1
            owner = f.root or f.id
            key = "%s: %s of %s" % (short(owner), last, short(from_rewrite[0].name)[:60])
            if owner in latent:
                r.instance(C, key, "exception", c.loc(), latent[owner], nontrivial=False)
                continue
            r.instance(C, key, "violation", c.loc())
            r.violation(C, "defaulted sub-rewrite in %s" % short(owner),
                        "the result of %s is replaced by an empty string when the rewrite fails: the tokens of that sub-node are "
                        "silently dropped instead of the enclosing node falling back to its source" % short(from_rewrite[0].name),
                        [c.loc()])
    r.rules[C]["floor"] = 0
    r.note("R01-c: %d defaulted sub-rewrites found" % n)


def placeholder_guard(ctx, rid):
    """R01-d: the collision guard of the macro-variable un-substitution sees the same text the replacement touches"""
    p, r = ctx.p, ctx.r
    r.rule(rid, "MacroBranch::rewrite: placeholders are put back with a whole-text str::replace, so the guard that bails out on a "
                "placeholder already present must be str::contains on the *whole* original body: its receiver derives from the "
                "same trimmed snippet that was handed to replace_names, not from a filtered copy; and the guard dominates the replace")
    f = p.fn("rustfmt_nightly::macros::MacroBranch::rewrite")
    if f is None:
        r.undecidable(rid, "MacroBranch::rewrite not found")
        return
    rn = [c for c in f.calls() if c.name.endswith("macros::replace_names")]
    co = [c for c in f.calls() if c.name.endswith("str>::contains")]
    rp = [c for c in f.calls() if c.name.endswith("str>::replace")]
    if not rn or not rp:
        r.undecidable(rid, "replace_names / str::replace not found in MacroBranch::rewrite")
        return
    body_src = f.derived_from(rn[0].args[0][1][0]) if rn[0].args[0][0] != "k" else {"locals": set(), "calls": []}
    ok = False
    detail = "no contains() guard"
    for c in co:
        if c.args[0][0] == "k":
            continue
        d = f.derived_from(c.args[0][1][0])
        filtered = [x for x in d["calls"] if x.declared in ("std::iter::Iterator::filter", "std::iter::Iterator::collect",
                                                           "std::iter::Iterator::filter_map", "std::iter::Iterator::map")
                    or x.name.endswith("CharClasses::<T>::new") or x.name.endswith("LineClasses::<'a>::new")]
        same_src = any(x.name.endswith("::snippet") for x in d["calls"]) and (d["locals"] & body_src["locals"])
        from common import bool_branches
        dom = False
        for (sw, t_true, t_false) in bool_branches(f, c.dest[0]):
            from common import edge_dominates
            if all(edge_dominates(f, (sw, t_false), x.bb) or x.bb not in f.reachable(t_true, stop_blocks=[c.bb]) for x in rp):
                dom = all(x.bb not in f.reachable(t_true, stop_blocks=[c.bb]) for x in rp)
        if same_src and not filtered and dom:
            ok = True
        detail = "contains() receiver: snippet-derived=%s, filtered through %s, bails before replace=%s" % (
            bool(same_src), [short(x.name)[-30:] for x in filtered], dom)
    r.instance(rid, "MacroBranch::rewrite placeholder collision guard", "ok" if ok else "violation", "%s:%d" % (f.file, f.line), detail)
    if not ok:
        r.violation(rid, "MacroBranch::rewrite: placeholder guard does not cover the text the replacement rewrites",
                    "%s — a `z<name>` occurring in a string literal or comment of the macro body is turned into `$<name>`" % detail,
                    ["%s:%d" % (f.file, (co[0].line if co else f.line))])


def float_dot_siblings(ctx, rid):
    """R01-e: the printer of float literals and the predictor `float_lit_ends_in_dot` decide with the same predicates"""
    p, r = ctx.p, ctx.r
    r.rule(rid, "sibling agreement: rewrite_float_lit decides how a float literal is printed and float_lit_ends_in_dot predicts "
                "whether that text ends in `.` (so that chains / ranges add parentheses or a space); both must derive the "
                "`fractional part is zero` fact from the same functions (parse_float_symbol, is_fractional_part_zero) — a "
                "prediction computed differently lets `1_000.000_000.f()` print as `1_000..f()`")
    a = p.fn("rustfmt_nightly::expr::rewrite_float_lit")
    b = p.fn("rustfmt_nightly::expr::float_lit_ends_in_dot")
    if a is None or b is None:
        r.undecidable(rid, "rewrite_float_lit / float_lit_ends_in_dot not found")
        return
    def preds(f):
        out = set()
        for x in p.body_family(f):
            for c in x.calls():
                n = c.name
                if n.startswith("rustfmt_nightly::expr::") and ("float" in n.lower() or "FloatSymbolParts" in n):
                    out.add(short(n))
        return out
    pa, pb = preds(a), preds(b)
    core = {x for x in pa if "is_fractional_part_zero" in x or "parse_float_symbol" in x}
    missing = core - pb
    ok = bool(core) and not missing
    r.instance(rid, "float printer / predictor predicates", "ok" if ok else "violation", "%s:%d" % (b.file, b.line),
               "printer uses %s; predictor uses %s" % (sorted(pa), sorted(pb)))
    if not core:
        r.undecidable(rid, "rewrite_float_lit no longer uses parse_float_symbol / is_fractional_part_zero")
    elif missing:
        r.violation(rid, "float_lit_ends_in_dot does not use %s" % sorted(missing),
                    "the text predicted for a float literal is computed differently from the text printed: the two can "
                    "disagree (digit separators, exponents), and a literal printed with a trailing `.` then fuses with a "
                    "following `.method()` or `..` into other tokens", ["%s:%d" % (b.file, b.line), "%s:%d" % (a.file, a.line)])


def singleton_tuple_comma(ctx, rid):
    from absint import explore, vkey, TooManyPaths
    """R01-f: a one-element tuple keeps the comma that makes it a tuple"""
    p, r = ctx.p, ctx.r
    r.rule(rid, "expr::rewrite_tuple / rewrite_tuple_in_visual_indent_style: on every returning path on which the parameter "
                "is_singleton_tuple is true (outside macros, where the source text decides), the text is produced with a forced "
                "trailing separator — rewrite_with_parens(.., Some(SeparatorTactic::Always)), the `({},)` format, or a "
                "ListFormatting with trailing_separator(Always); `(x)` is a parenthesised expression, not a tuple")
    rt = p.named("rewrite_tuple", within="rustfmt_nightly::expr")
    rv = p.named("rewrite_tuple_in_visual_indent_style", within="rustfmt_nightly::expr")
    if rt is None:
        r.undecidable(rid, "expr::rewrite_tuple not found")
        return
    n = 0
    for f in [x for x in (rt, rv) if x is not None]:
        names = {}
        try:
            paths = explore(f, pure=lambda c: True, max_paths=20000)
        except TooManyPaths as e:
            r.undecidable(rid, str(e))
            return
        r.paths(rid, len(paths))
        # which parameter is the flag: the bool one
        flag = ["arg%d" % i for i in range(1, f.argc + 1) if f.locals[i] == "bool"]
        if len(flag) != 1:
            r.undecidable(rid, "%s: cannot identify the is_singleton_tuple parameter (%s)" % (short(f.id), flag))
            return
        flag = flag[0]
        for path in paths:
            if path.end != "ret" or path.ret is None:
                continue
            d = {k: v for k, v in path.decisions}
            if d.get(flag) is not True:
                continue
            if any("inside_macro(" in k and v is True for k, v in path.decisions):
                continue
            ret = vkey(path.ret)
            if ret.startswith("residual("):
                continue
            n += 1
            forced = False
            if "rewrite_with_parens(" in ret and ret.rstrip(")").endswith("Some(Always"):
                forced = True
            if "rewrite_tuple_in_visual_indent_style(" in ret and ret.rstrip(")").endswith(flag):
                forced = True        # delegated with the flag intact; the callee is checked on its own
            if "trailing_separator(" in ret and "Always" in ret:
                forced = True
            if "Result::<T, E>::map(" in ret or "Option::<T>::map(" in ret:
                for g in p.closures_of(f):
                    try:
                        for gp in explore(g, pure=lambda c: True, max_paths=200):
                            if gp.ret is not None and ',)"' in vkey(gp.ret):
                                forced = True
                    except TooManyPaths:
                        pass
            if ',)"' in ret:
                forced = True
            key = "%s[singleton] → %s" % (short(f.id), "forced comma" if forced else "no forced comma")
            r.instance(rid, key, "ok" if forced else "violation", "%s:%d" % (f.file, f.line))
            if not forced:
                r.violation(rid, "%s: a singleton tuple can be written without its comma" % short(f.id),
                            "on a path with is_singleton_tuple = true (%s) the result is %s: nothing forces the trailing comma, "
                            "so `(x,)` / `(T,)` can come out as `(x)` / `(T)` — a different expression / type"
                            % ([(k[-40:], v) for k, v in path.decisions if "tracing" not in k and "Level" not in k][:4], short(ret)[:120]),
                            ["%s:%d" % (f.file, f.line)])
    r.floor(rid, n, 2, "singleton paths of the tuple rewriters")


def special_macro_parsers_check_tokens(ctx, rid):
    """R01-g: a special-cased macro body is re-printed from parsed pieces only if every token the printer will emit was there"""
    from common import bool_branches
    p, r = ctx.p, ctx.r
    r.rule(rid, "parse::macros::lazy_static::parse_lazy_static: the bool result of every Parser::eat_keyword / Parser::eat feeds a "
                "branch (a missing `static`, `ref`, `:` or `=` rejects the special case) — the only result that may be discarded is "
                "that of the last eat of an item, its terminating `;`; format_lazy_static prints all of these tokens unconditionally, "
                "so an unchecked one is *added* to the program")
    f = p.named("parse_lazy_static")
    if f is None:
        r.undecidable(rid, "parse_lazy_static not found")
        return
    EAT = ("eat", "eat_keyword", "eat_keyword_noexpect", "check", "check_keyword")
    eats = [c for c in f.calls() if c.name.startswith("rustc_parse::parser::Parser") and c.name.rsplit("::", 1)[-1] in EAT]
    if not eats:
        # the per-item part may have been moved into a helper that is handed the parser
        for c in f.calls():
            h = p.fns.get(c.resolved or "")
            if h is not None and h.crate == f.crate and any("parser::Parser" in t for t in h.locals[1:h.argc + 1]) and any(
                    d.name.startswith("rustc_parse::parser::Parser") and d.name.rsplit("::", 1)[-1] in EAT for d in h.calls()):
                f = h
                eats = [d for d in f.calls() if d.name.startswith("rustc_parse::parser::Parser") and d.name.rsplit("::", 1)[-1] in EAT]
                break
    dom = f.dominators()
    unused = [c for c in eats if not bool_branches(f, c.dest[0])]
    last = [c for c in eats if all(o.bb in dom.get(c.bb, ()) for o in eats)]
    bad = [c for c in unused if c not in last]
    r.instance(rid, "parse_lazy_static: %d token tests, %d discarded" % (len(eats), len(unused)), "ok" if not bad else "violation",
               "%s:%d" % (f.file, f.line))
    for c in bad:
        r.violation(rid, "parse_lazy_static discards the result of %s" % c.name.rsplit("::", 1)[-1],
                    "whether the token was present is ignored, but the printer emits it: `lazy_static! { pub FOO: u32 = 1; }` "
                    "comes out as `pub static ref FOO: u32 = 1;`", [c.loc()])
    r.floor(rid, len(eats), 4, "Parser::eat* calls in parse_lazy_static")


def block_unwrappers_look_at_the_label(ctx, rid):
    """R01-h: a block expression is replaced by its contents only when it has no label"""
    p, r = ctx.p, ctx.r
    r.rule(rid, "every function whose *result* derives from the block of an `ExprKind::Block(block, label)` — it hands the contents "
                "on in place of the block expression (matches::block_can_be_flattened, closures::get_inner_expr, …) — also reads "
                "the label: `'l: { break 'l v }` without its braces loses the label that `break 'l` names")
    n = 0
    for f in p.by_crate["rustfmt_nightly"]:
        fields = set()
        for (adt, var, field, mode, bb, line) in f.field_accesses():
            if adt and adt.endswith("ast::ExprKind") and var == "Block":
                fields.add(str(field))
        if "0" not in fields:
            continue
        d = f.derived_from(0)
        from_block = any(x[0] and x[0].endswith("ast::ExprKind") and x[1] == "Block" and str(x[2]) == "0" for x in d["fields"])
        ret_ty = f.locals[0]
        if not from_block or not any(t in ret_ty for t in ("ast::Block", "ast::Expr", "Block>", "Expr>")):
            continue
        n += 1
        ok = "1" in fields
        r.instance(rid, "%s hands on the contents of a block expression" % short(f.id), "ok" if ok else "violation", "%s:%d" % (f.file, f.line),
                   "reads label: %s" % ok)
        if not ok:
            r.violation(rid, "%s unwraps a block expression without looking at its label" % short(f.id),
                        "the function returns (part of) the block of `ExprKind::Block(block, label)` and never reads `label`: a "
                        "labeled block body `'l: { .. break 'l v .. }` is flattened and the label is lost (the output does not compile)",
                        ["%s:%d" % (f.file, f.line)])
    r.floor(rid, n, 2, "functions returning the contents of a block expression")


def synthesised_operators_respect_precedence(ctx, rid):
    """R01-i: an operator node that rustfmt builds itself gets an operand that cannot be re-associated"""
    p, r = ctx.p, ctx.r
    r.rule(rid, "rustfmt synthesises one kind of operator expression — `ExprKind::Try(operand)` for a `try!(operand)` under "
                "use_try_shorthand — around an operand of arbitrary precedence; either the constructor wraps the operand in "
                "`ExprKind::Paren` after consulting `Expr::precedence`, or the chain code that prints the operand (the construction "
                "of `ChainItemKind::Parent { parens, .. }`) derives `parens` from `Expr::precedence`: `try!(a + b)` must not come "
                "out as `a + b?`.  Any other synthesised operator node is reported as unknown to this rule")
    OPS = ("Try", "Unary", "Binary", "Cast", "AddrOf", "Field", "MethodCall", "Index", "Await", "Range", "Assign", "AssignOp")
    makers = []
    for f in p.by_crate["rustfmt_nightly"]:
        for bb, i, s in f.stmts():
            if s[0] == "=" and s[2][0] == "agg" and isinstance(s[2][1], list) and s[2][1][0] == "adt" \
                    and s[2][1][1] == "rustc_ast::ExprKind" and s[2][1][2] in OPS:
                makers.append((f, s[2][1][2], s[3], bb))
    n = 0
    for f, kind, line, bb in makers:
        n += 1
        if kind != "Try":
            r.instance(rid, "%s builds ExprKind::%s" % (short(f.id), kind), "violation", "%s:%d" % (f.file, line))
            r.violation(rid, "%s synthesises an ExprKind::%s node" % (short(f.id), kind),
                        "a new synthesised operator node: nothing establishes that its operand keeps its grouping when printed",
                        ["%s:%d" % (f.file, line)])
            continue
        own = any(c.name.endswith("Expr::precedence") for c in f.calls()) and any(
            s[0] == "=" and s[2][0] == "agg" and isinstance(s[2][1], list) and s[2][1][0] == "adt" and s[2][1][1] == "rustc_ast::ExprKind"
            and s[2][1][2] == "Paren" for bb2, i2, s in f.stmts())
        printer = False
        for g in p.by_crate["rustfmt_nightly"]:
            if "chains::" not in g.id:
                continue
            for bb2, i2, s in g.stmts():
                if s[0] == "=" and s[2][0] == "agg" and isinstance(s[2][1], list) and s[2][1][0] == "adt" \
                        and s[2][1][1].endswith("chains::ChainItemKind") and s[2][1][2] == "Parent":
                    for op in s[2][2]:
                        if op[0] != "k":
                            d = g.derived_from(op[1][0])
                            if any(c.name.endswith("Expr::precedence") for c in d["calls"]):
                                printer = True
        ok = own or printer
        r.instance(rid, "%s builds ExprKind::Try" % short(f.id), "ok" if ok else "violation", "%s:%d" % (f.file, line),
                   "operand parenthesised by %s" % ("the constructor" if own else "the chain printer" if printer else "nobody"))
        if not ok:
            r.violation(rid, "the operand of a synthesised `?` is printed without regard to its precedence",
                        "convert_try_mac turns `try!(e)` into `e?` for any `e`, and neither it nor the chain code that prints the "
                        "operand consults Expr::precedence: `try!(a + b)` becomes `a + b?`, `try!(-x)` becomes `-x?`", ["%s:%d" % (f.file, line)])
    r.floor(rid, n, 1, "synthesised operator nodes")


TOKEN_TYPES = ("rustc_ast::Defaultness", "rustc_ast::Safety", "rustc_ast::Const", "rustc_ast::ImplPolarity", "rustc_ast::Visibility",
               "rustc_ast::Mutability", "rustc_ast::CoroutineKind", "rustc_ast::BoundPolarity", "rustc_ast::BoundConstness",
               "rustc_ast::BoundAsyncness", "rustc_ast::Extern")


def _token_type(t):
    t = t.replace("&", "").replace("mut ", "").strip()
    for lt in ("'a ", "'_ ", "'b ", "'c "):
        t = t.replace(lt, "")
    for x in TOKEN_TYPES:
        if t == x or t == "std::option::Option<%s>" % x:
            return x.rsplit("::", 1)[-1]
    return None


def _reads_of(f, l):
    """blocks in which local l is read: operand or place base of an assignment, call argument, switch operand"""
    from common import rvalue_operands, rvalue_places
    out = set()
    for bb, i, s in f.stmts():
        if s[0] == "=":
            for op in rvalue_operands(s[2]):
                if op[0] != "k" and op[1][0] == l:
                    out.add(bb)
            for pl in rvalue_places(s[2]):
                if pl[0] == l:
                    out.add(bb)
    for c in f.calls():
        for a in c.args:
            if a[0] != "k" and a[1][0] == l:
                out.add(c.bb)
    for bb in range(len(f.blocks)):
        t = f.term(bb)
        if t[0] == "switch" and t[1][0] != "k" and t[1][1][0] == l:
            out.add(bb)
    return out


def token_bindings_are_consumed(ctx, rid, tab):
    """R01-j: a modifier keyword that a rewriter holds in a variable reaches the output on every path that prints the node"""
    import c17
    p, r = ctx.p, ctx.r
    r.rule(rid, "a binding of a token-bearing AST type (%s, or an Option of one) — a parameter, or a local initialised from a field "
                "of an AST node — is the only way its keyword reaches the output of the function that holds it.  On every path "
                "from the binding to a non-error return on which a rewriter is called (the node is being printed), the binding or a "
                "copy / borrow of it is read (passed on, matched, formatted).  A path that prints the node and never looks at the "
                "binding prints the node without the keyword: `default fn f();`, `pub default type X;`.  Exceptions — a path on "
                "which the node kind has no such token — are listed in tables/C01.toml [[token_binding_exception]] by function "
                "and variable name" % ", ".join(t.rsplit("::", 1)[-1] for t in TOKEN_TYPES))
    exc = {(e["function"], e["variable"]): e["reason"] for e in tab.get("token_binding_exception", [])}
    used_exc = set()
    n = 0
    for f in p.by_crate["rustfmt_nightly"]:
        if f.kind == "Closure":
            continue
        cands = []
        for l in range(1, f.argc + 1):
            ty = _token_type(f.locals[l])
            if ty:
                cands.append((l, 0, "parameter", ty))
        for l, lty in enumerate(f.locals):
            ty = _token_type(lty)
            if l <= f.argc or not ty:
                continue
            d = f.single_def(l)
            if not d or d[1] != "assign" or d[2][2][0] not in ("use", "ref", "cfd"):
                continue
            rv = d[2][2]
            pl = None
            if rv[0] == "use" and rv[1][0] != "k":
                pl = rv[1][1]
            elif rv[0] == "ref":
                pl = rv[2]
            elif rv[0] == "cfd":
                pl = rv[1]
            if pl and any(isinstance(e, list) and e[0] == "f" for e in pl[1]):
                cands.append((l, d[0], "field binding", ty))
        if not cands:
            continue
        fmt_bbs = {c.bb for c in f.calls() if c17.formatter(c) or c.name.endswith("push_str")}
        errb = {c.bb for c in f.calls() if (c.declared or "") == "std::ops::FromResidual::from_residual"} | {
            bb for bb, i, st in f.stmts() if st[0] == "=" and st[1][0] == 0 and st[2][0] == "agg" and isinstance(st[2][1], list)
            and st[2][1][0] == "adt" and st[2][1][2] in ("Err", "None")}
        for (l, start, kind, ty) in cands:
            name = f.local_names.get(l)
            if not name:
                continue        # compiler temporaries: their reads are the reads of the named binding they copy
            u = _reads_of(f, l)
            work, seen = [l], {l}
            while work:
                x = work.pop()
                for bb, i, s in f.stmts():
                    if s[0] == "=" and s[2][0] in ("use", "ref", "cfd") and not s[1][1] and s[1][0] != 0:
                        src = s[2][1] if s[2][0] == "use" else (["c", s[2][2]] if s[2][0] == "ref" else ["c", s[2][1]])
                        if src[0] != "k" and src[1][0] == x and not src[1][1] and s[1][0] not in seen:
                            seen.add(s[1][0])
                            work.append(s[1][0])
                            u |= _reads_of(f, s[1][0])
            n += 1
            label = "%s: %s `%s` (%s)" % (short(f.id), kind, name, ty)
            bad = []
            if start not in u:
                reach = correlated_reach(f, start, avoid_blocks=u | errb)
                if any(b in reach for b in f.returns()):
                    bad = sorted({short(c.name).rsplit("::", 1)[-1] for c in f.calls() if c.bb in fmt_bbs and c.bb in reach})
            key = (short(f.id), name)
            if bad and key in exc:
                used_exc.add(key)
                r.instance(rid, label, "ok", "%s:%d" % (f.file, f.line), "exception: %s" % exc[key])
                continue
            r.instance(rid, label, "violation" if bad else "ok", "%s:%d" % (f.file, f.line),
                       "read on every printing path" if not bad else "unread on a path calling %s" % ", ".join(bad[:4]))
            if bad:
                r.violation(rid, "%s prints the node on a path that never reads `%s` (%s)" % (short(f.id), name, ty),
                            "there is a path from the binding to a successful return that calls %s and reads neither `%s` nor a copy "
                            "of it: the %s keyword of the node is not printed on that path" % (", ".join(bad[:4]), name, ty),
                            ["%s:%d" % (f.file, f.line)])
    for key in exc:
        if key not in used_exc:
            r.note("%s: exception %s / %s in tables/C01.toml is no longer needed" % ((rid,) + key))
    r.floor(rid, n, 20, "named token-bearing bindings")


def variant_printers_read_the_keyword(ctx, rid):
    """R01-k: per printer, not per program: whoever prints an enum variant that carries a modifier keyword reads the keyword"""
    import c17
    p, r = ctx.p, ctx.r
    r.rule(rid, "R01-a asks that every token-bearing field is read by *some* function; this rule asks it of every printer.  For "
                "every rustc_ast enum variant with a field of token-bearing type (ItemKind::Mod's Safety, ExprKind::AddrOf's and "
                "PatKind::Ref's Mutability, SelfKind::*, ByRef::Yes, visit::FnKind::Fn's Visibility) and every workspace function "
                "that destructures the variant and calls a rewriter or pushes text, the function — or a callee within three calls "
                "that is handed the node (a parameter of the enum's or its parent node's type) — reads that field.  A second "
                "printer that matches `Mod(_, ident, _)` prints `unsafe mod a;` as `mod a;` while the first keeps R01-a satisfied")
    tokf = {}
    for a in p.adts.values():
        if a["crate"] != "rustc_ast" or a["kind"] != "enum":
            continue
        for v in a["variants"]:
            for fl in v["fields"]:
                ty = _token_type(fl[1])
                if ty:
                    tokf.setdefault((a["id"], v["name"]), []).append((str(fl[0]), ty))

    def printer(f):
        return any((c17.formatter(c) and "modules::" not in c.name) or c.name.endswith("push_str") for c in f.calls())

    def reads(f, adt, var, field, depth, seen):
        if f.id in seen:
            return False
        seen.add(f.id)
        for (a, v, fld, mode, bb, line) in f.field_accesses():
            if a == adt and v == var and str(fld) == field:
                return True
        if depth <= 0:
            return False
        parent = adt[:-4] if adt.endswith("Kind") else adt
        for c in f.calls():
            h = p.fns.get(c.resolved or "")
            if h is not None and h.crate == f.crate and any(adt in t or parent in t for t in h.locals[1:h.argc + 1]):
                if reads(h, adt, var, field, depth - 1, seen):
                    return True
        return False

    n = 0
    for f in p.by_crate["rustfmt_nightly"]:
        acc = {}
        for (adt, var, field, mode, bb, line) in f.field_accesses():
            if (adt, var) in tokf:
                acc.setdefault((adt, var), set()).add(str(field))
        if not acc or not printer(f):
            continue
        for k in sorted(acc):
            for fld, ty in tokf[k]:
                n += 1
                ok = reads(f, k[0], k[1], fld, 3, set())
                label = "%s prints %s::%s" % (short(f.id), k[0].rsplit("::", 1)[-1], k[1])
                r.instance(rid, "%s: field %s (%s)" % (label, fld, ty), "ok" if ok else "violation", "%s:%d" % (f.file, f.line))
                if not ok:
                    r.violation(rid, "%s without reading its %s (field %s)" % (label, ty, fld),
                                "the function destructures the variant, produces output, and neither it nor a callee it hands the "
                                "node to reads the %s field: the keyword is missing from what this printer emits" % ty,
                                ["%s:%d" % (f.file, f.line)])
    r.floor(rid, n, 6, "(printer, token-bearing variant field) pairs")


_PURE_READS = ("Try>::branch", "Deref>::deref", "::is_empty", "::contains", "::len", "::as_str", "::starts_with", "::ends_with",
               "::as_ref", "Borrow", "first_line_width", "last_line_width", "is_single_line", "::lines", "::count", "::is_ok",
               "::is_err", "::is_some", "::is_none")
_CARRIERS = ("Try>::branch", "Deref>::deref", "::as_str", "::as_ref", "Borrow")


def attribute_rewrites_are_consumed(ctx, rid):
    """R01-l: the text of a node's attributes, once rewritten, is part of what the function returns on every successful path"""
    from common import rvalue_operands, rvalue_places, bool_branches
    p, r = ctx.p, ctx.r
    r.rule(rid, "every call of `<[ast::Attribute] as Rewrite>::rewrite(_result)` outside the trait's own forwarding methods: on "
                "every path from the call to a non-error return, the rewritten text (followed through `?`, borrows and copies) "
                "is handed to another function or flows into the return value — merely measuring it (`contains`, `is_empty`, "
                "`len`, …) is not consumption, except that the path on which `is_empty()` answered true has nothing to emit.  A "
                "branch that returns only the rest of the node (`self.ty.rewrite_result(..)`) prints `fn(#[a] u8)` as `fn(u8)`")
    n = 0
    for f in p.by_crate["rustfmt_nightly"]:
        for c in f.calls():
            if "Rewrite for [rustc_ast::Attribute]>::rewrite" not in c.name or not c.dest or c.dest[1]:
                continue
            if "Rewrite for [rustc_ast::Attribute]>::rewrite" in f.id:
                continue
            n += 1
            t = {c.dest[0]}
            changed = True
            while changed:
                changed = False
                for bb, i, st in f.stmts():
                    if st[0] == "=" and st[1][0] not in t and st[1][0] != 0:
                        ops = [op[1][0] for op in rvalue_operands(st[2]) if op[0] != "k"] + [pl[0] for pl in rvalue_places(st[2])]
                        if any(o in t for o in ops):
                            t.add(st[1][0])
                            changed = True
                for d in f.calls():
                    if d.dest and d.dest[0] not in t and any(a[0] != "k" and a[1][0] in t for a in d.args) \
                            and any(x in d.name for x in _CARRIERS):
                        t.add(d.dest[0])
                        changed = True
            cons, empty_edges = set(), set()
            for d in f.calls():
                if d is c or not any(a[0] != "k" and a[1][0] in t for a in d.args):
                    continue
                if d.name.endswith("::is_empty") and d.dest and not d.dest[1]:
                    for sw, tt, ff in bool_branches(f, d.dest[0]):
                        if tt is not None:
                            empty_edges.add((sw, tt))
                if not any(x in d.name for x in _PURE_READS):
                    cons.add(d.bb)
            for bb, i, st in f.stmts():
                if st[0] == "=" and st[1][0] == 0:
                    ops = [op[1][0] for op in rvalue_operands(st[2]) if op[0] != "k"] + [pl[0] for pl in rvalue_places(st[2])]
                    if any(o in t for o in ops):
                        cons.add(bb)
            errb = {d.bb for d in f.calls() if (d.declared or "") == "std::ops::FromResidual::from_residual"} | {
                bb for bb, i, st in f.stmts() if st[0] == "=" and st[1][0] == 0 and st[2][0] == "agg" and isinstance(st[2][1], list)
                and st[2][1][0] == "adt" and st[2][1][2] in ("Err", "None")}
            reach = correlated_reach(f, c.bb, avoid_blocks=cons | errb, avoid_edges=empty_edges)
            bad = any(b in reach for b in f.returns())
            label = "%s rewrites the attributes of its node" % short(f.id)
            r.instance(rid, label, "violation" if bad else "ok", "%s:%d" % (f.file, c.line),
                       "%d consuming sites" % len(cons))
            if bad:
                r.violation(rid, "%s returns successfully on a path that never uses the rewritten attributes" % short(f.id),
                            "the attribute text is computed and a successful return is reachable on which it is handed to nobody "
                            "and is not part of the result: the attributes of the node are missing from that output",
                            ["%s:%d" % (f.file, c.line)])
    r.floor(rid, n, 10, "attribute-list rewrites")


def paren_peelers_look_at_attributes(ctx, rid):
    """R01-m: an expression is replaced by the operand of its parentheses only after looking at its attributes"""
    from common import rvalue_operands, rvalue_places
    p, r = ctx.p, ctx.r
    r.rule(rid, "a function that peels parentheses in place — a variable of type `&ast::Expr` that is re-assigned from field 0 of "
                "its own `ExprKind::Paren` — reads `Expr::attrs`: the peeled expression may carry attributes (`(#[a] (x))`) which "
                "the operand does not")
    n = 0
    for f in p.by_crate["rustfmt_nightly"]:
        fa = list(f.field_accesses())
        if not any(a and a.endswith("ast::ExprKind") and v == "Paren" and str(fl) == "0" for (a, v, fl, m, bb, ln) in fa):
            continue
        peeled = []
        for l, ty in enumerate(f.locals):
            if "rustc_ast::Expr" not in ty or not ty.lstrip().startswith("&") or "ExprKind" in ty:
                continue
            ndefs = len(f.defs().get(l, [])) + (1 if 1 <= l <= f.argc else 0)
            if ndefs < 2:
                continue
            for bb, kind, st in f.defs().get(l, []):
                if kind != "assign":
                    continue
                srcs = {op[1][0] for op in rvalue_operands(st[2]) if op[0] != "k"} | {pl[0] for pl in rvalue_places(st[2])}
                for src in srcs:
                    d = f.derived_from(src) if src != l else {"locals": {l}, "fields": []}
                    own = [(e[2], e[3], e[4]) for op in rvalue_operands(st[2]) if op[0] != "k" for e in op[1][1]
                           if isinstance(e, list) and e[0] == "f"] + [(e[2], e[3], e[4]) for pl in rvalue_places(st[2]) for e in pl[1]
                                                                      if isinstance(e, list) and e[0] == "f"]
                    if l in d["locals"] and any(x[0] and x[0].endswith("ast::ExprKind") and x[1] == "Paren" and str(x[2]) == "0"
                                                for x in list(d["fields"]) + own):
                        peeled.append(l)
        if not peeled:
            continue
        n += 1
        ok = any(a and a.endswith("rustc_ast::Expr") and str(fl) == "attrs" for (a, v, fl, m, bb, ln) in fa)
        r.instance(rid, "%s peels nested parentheses" % short(f.id), "ok" if ok else "violation", "%s:%d" % (f.file, f.line),
                   "reads Expr::attrs: %s" % ok)
        if not ok:
            r.violation(rid, "%s peels parentheses without looking at the attributes of the peeled expression" % short(f.id),
                        "`(#[a] (x))` is printed as `(x)`", ["%s:%d" % (f.file, f.line)])
    r.floor(rid, n, 1, "in-place parenthesis peelers")


_GENERIC_PATH_HOLDERS = (("ast::ExprKind", "Path"), ("ast::TyKind", "Path"), ("ast::PatKind", "Path"), ("ast::PatKind", "TupleStruct"),
                         ("ast::PatKind", "Struct"), ("ast::ExprKind", "Struct"), ("ast::StructExpr", "StructExpr"),
                         ("ast::ExprKind", "MethodCall"), ("ast::MethodCall", "MethodCall"), ("ast::TraitRef", "TraitRef"))


def path_name_tests_look_at_generic_arguments(ctx, rid, tab):
    """R01-t: who reads the name of a path segment of an expression / type / pattern path also reads its generic arguments"""
    p, r = ctx.p, ctx.r
    r.rule(rid, "a path segment of an expression, type or pattern path is a name *and* its generic arguments (`parse::<u32>`). A "
                "function (with its closures) that takes a path out of ExprKind::Path / TyKind::Path / PatKind::{Path, TupleStruct, "
                "Struct} / a struct literal / a method call — itself, or as an argument a caller takes out of one — and reads "
                "`PathSegment::ident` to decide or print something also reads `PathSegment::args`: a test on the name alone "
                "treats `f: f::<T>` as `f: f` (use_field_init_shorthand then prints `f`, and the turbofish is gone). Readers of "
                "attribute, macro, visibility and `use` paths — which have no arguments — are outside the rule; exceptions by "
                "function in tables/C01.toml [[segment_name_exception]]")
    exc = {e["fn"]: e["reason"] for e in tab.get("segment_name_exception", [])}
    fam = {}
    for f in p.by_crate["rustfmt_nightly"]:
        fam.setdefault(f.root or f.id, []).append(f)

    def holder(a, v):
        return any(a and a.endswith(x) and v == y for (x, y) in _GENERIC_PATH_HOLDERS)
    n = readers = 0
    for root, fs in sorted(fam.items()):
        acc = [(a, v, str(fl), f, ln) for f in fs for (a, v, fl, m, bb, ln) in f.field_accesses() if m == "r"]
        ident = [x for x in acc if x[0] and x[0].endswith("ast::PathSegment") and x[2] == "ident"]
        if not ident:
            continue
        readers += 1
        args = [x for x in acc if x[0] and x[0].endswith("ast::PathSegment") and x[2] == "args"]
        own = sorted({"%s::%s" % (x[0].rsplit("::", 1)[-1], x[1]) for x in acc if holder(x[0], x[1])})
        handed = []
        f0 = p.fns.get(root)
        if f0 is not None and not own:
            for (src, kind, c) in p.callers().get(root, []):
                if c is None or src not in p.fns:
                    continue
                g = p.fns[src]
                for i, a in enumerate(c.args):
                    if a[0] == "k" or i + 1 >= len(f0.locals) or not re.search(r"ast::(Path|PathSegment)\b", f0.locals[i + 1]):
                        continue
                    d = g.derived_from(a[1][0])
                    fl = list(d["fields"]) + [(e[2], e[3], e[4]) for e in a[1][1] if isinstance(e, list) and e[0] == "f"]
                    handed += ["%s::%s (from %s)" % (x[0].rsplit("::", 1)[-1], x[1], short(src)) for x in fl if holder(x[0], x[1])]
        capable = own or handed
        if not capable:
            r.instance(rid, "%s reads a segment name of a path without generic arguments" % short(root), "outside", 
                       "%s:%d" % (ident[0][3].file, ident[0][4]), "no expression / type / pattern path in reach", nontrivial=False)
            continue
        n += 1
        key = "%s reads the name of a segment of %s" % (short(root), ", ".join(sorted(set(capable)))[:80])
        loc = "%s:%d" % (ident[0][3].file, ident[0][4])
        if args:
            r.instance(rid, key, "ok", loc, "also reads PathSegment::args")
        elif root in exc or short(root) in exc:
            r.instance(rid, key, "exception", loc, exc.get(root) or exc.get(short(root)), nontrivial=False)
        else:
            r.instance(rid, key, "violation", loc, "PathSegment::args is never read")
            r.violation(rid, "%s tests the name of a path segment and never looks at its generic arguments" % short(root),
                        "the path comes out of %s, whose segments may carry `::<..>`: `S { f: f::<u32> }` is handled as "
                        "`S { f: f }`" % ", ".join(sorted(set(capable)))[:120], [loc])
    r.floor(rid, readers, 10, "function families that read PathSegment::ident")


def loop_bodies_keep_their_inner_attributes(ctx, rid, tab):
    """R01-u: the inner attributes of a loop body live on the loop expression; whoever prints the body is given them"""
    p, r = ctx.p, ctx.r
    r.rule(rid, "`loop { #![allow(unused)] .. }`, `while c { #![a] .. }`, `for x in y { #![a] .. }`: the parser stores the inner "
                "attributes of the body on the loop *expression* (Expr::attrs), not in the block. (1) Every function that takes "
                "the body out of ExprKind::Loop / While / ForLoop reads Expr::attrs. (2) The block printers take the attributes "
                "as `attrs: Option<&[Attribute]>` next to the block; at every call of expr::rewrite_block_with_visitor, "
                "rewrite_block or rewrite_block_inner the operand is the constant `None` only in the functions listed in "
                "tables/C01.toml [[block_without_attributes]] (callers that hold a bare block whose inner attributes the "
                "grammar does not permit). A printer of loop bodies that passes `None` prints `loop { let x = 1; }` for "
                "`loop { #![allow(unused)] let x = 1; }`")
    allowed = {e["fn"]: e["reason"] for e in tab.get("block_without_attributes", [])}
    n1 = 0
    for f in p.by_crate["rustfmt_nightly"]:
        fa = list(f.field_accesses())
        body = [(v, str(fl)) for (a, v, fl, m, bb, ln) in fa if a and a.endswith("ast::ExprKind") and
                ((v in ("Loop", "While") and str(fl) in ("0", "1")) or (v == "ForLoop" and str(fl) == "body"))]
        if not any((v == "Loop" and fl == "0") or (v == "While" and fl == "1") or v == "ForLoop" for v, fl in body):
            continue
        n1 += 1
        fam = [g for g in p.by_crate["rustfmt_nightly"] if (g.root or g.id) == (f.root or f.id)]
        ok = any(a and a.endswith("rustc_ast::Expr") and str(fl) == "attrs" for g in fam for (a, v, fl, m, bb, ln) in g.field_accesses())
        r.instance(rid, "%s takes a loop body out of its expression" % short(f.id), "ok" if ok else "violation",
                   "%s:%d" % (f.file, f.line), "reads Expr::attrs: %s" % ok)
        if not ok:
            r.violation(rid, "%s takes the body out of a loop expression and never reads the expression's attributes" % short(f.id),
                        "the inner attributes of the body (`loop { #![allow(unused)] .. }`) are on the expression; the body "
                        "is printed without them", ["%s:%d" % (f.file, f.line)])
    n2 = 0
    for c in p.all_calls():
        if c.fn.crate != "rustfmt_nightly" or not re.search(r"expr::(rewrite_block_with_visitor|rewrite_block|rewrite_block_inner)$", c.name):
            continue
        g = p.fns.get(c.name)
        idx = [i for i in range(1, (g.argc if g else 0) + 1) if "Option<&[rustc_ast::Attribute]>" in g.locals[i].replace("'_ ", "")] if g else []
        if not idx or idx[0] - 1 >= len(c.args):
            r.undecidable(rid, "%s: attrs parameter of %s not found" % (short(c.fn.id), short(c.name)))
            continue
        n2 += 1
        a = c.args[idx[0] - 1]
        none = False
        if a[0] != "k":
            defs = c.fn.defs().get(a[1][0], [])
            none = bool(defs) and all(kind == "assign" and not isinstance(st, Call) and st[2][0] == "agg" and st[2][1][0] == "adt"
                                      and st[2][1][2] == "None" for (bb, kind, st) in defs)
        owner = c.fn.root or c.fn.id
        key = "%s → %s" % (short(owner), short(c.name))
        if not none:
            r.instance(rid, key, "ok", c.loc(), "attributes handed on")
        elif owner in allowed or short(owner) in allowed:
            r.instance(rid, key, "exception", c.loc(), allowed.get(owner) or allowed.get(short(owner)), nontrivial=False)
        else:
            r.instance(rid, key, "violation", c.loc(), "attrs = None")
            r.violation(rid, "%s prints a block with `attrs = None`" % short(owner),
                        "%s hands `None` to %s: if the block is the body of a loop, its inner attributes "
                        "(`loop { #![allow(unused)] .. }`) are dropped from the output" % (short(owner), short(c.name)), [c.loc()])
    r.floor(rid, n1, 1, "functions that take a loop body out of ExprKind::Loop / While / ForLoop")
    r.floor(rid, n2, 4, "calls of the block printers")


_TOKEN_FORMATTERS = ("format_visibility", "format_safety", "format_mutability", "format_defaultness", "format_constness",
                     "format_constness_right", "format_coro", "format_extern", "format_auto", "format_async")


def _place_of_operand(f, op):
    """the place an operand copies from, looking through one temporary"""
    if op[0] == "k":
        return None
    loc, proj = op[1]
    if proj:
        return (loc, proj)
    d = f.single_def(loc)
    if d and d[1] == "assign" and d[2][2][0] in ("use", "ref", "cfd"):
        rv = d[2][2]
        pl = rv[1][1] if rv[0] == "use" and rv[1][0] != "k" else rv[2] if rv[0] == "ref" else rv[1] if rv[0] == "cfd" else None
        if pl:
            return (pl[0], pl[1])
    return (loc, proj)


def _place_sig(pl):
    return (pl[0], tuple((e[0], e[1]) if isinstance(e, list) else e for e in pl[1]))


def token_strings_are_consumed(ctx, rid):
    """R01-n: the text of a modifier keyword, once computed, is printed on every path that prints the node"""
    import c17
    from common import rvalue_operands, rvalue_places, blocks_dominate
    p, r = ctx.p, ctx.r
    r.rule(rid, "R01-j follows the keyword as an AST value; this rule follows it as text.  A *token string* is the result of one of "
                "utils::format_visibility / format_safety / format_mutability / format_defaultness / format_constness(_right) / "
                "format_coro / format_extern / format_auto, a `&str` assigned in the arms of a match on a token-bearing value "
                "(`match polarity { Negative(_) => \"!\", Positive => \"\" }`), or a parameter that receives one of these from a "
                "caller.  On every path from where it is computed to a non-error return on which a rewriter is called, the string is "
                "handed on or becomes part of the result (measuring it — `len`, `is_empty` — is not printing it), or the token it "
                "was made from is read again.  `impl<…long…>\\n    !Sync for T` printed as `Sync for T` on the wrapped layout only "
                "is the defect class the property's own rationale names (a modifier keyword lost on the vertical path)")
    fns = [f for f in p.by_crate["rustfmt_nightly"]]

    def local_sources(f):
        out = {}
        for c in f.calls():
            if c.name.rsplit("::", 1)[-1] in _TOKEN_FORMATTERS and c.dest and not c.dest[1] and c.args:
                src = _place_of_operand(f, c.args[-1])
                out[c.dest[0]] = (c.bb, c.name.rsplit("::", 1)[-1], _place_sig(src) if src else None)
        defs = f.defs()
        discrs = [(bb, st) for bb, i, st in f.stmts() if st[0] == "=" and st[2][0] == "discr" and _token_type(str(st[2][2]))]
        for l, ty in enumerate(f.locals):
            if l <= f.argc or l in out or ty.replace("'static ", "").strip() != "&str":
                continue
            ds = defs.get(l, [])
            if len(ds) < 2 or not all(k == "assign" for bb, k, st in ds):
                continue
            for bb, st in discrs:
                # the definitions sit in different arms of the match on the token-bearing value
                sws = [sb for sb in range(len(f.blocks)) if f.term(sb)[0] == "switch" and f.term(sb)[1][0] != "k"
                       and f.term(sb)[1][1][0] == st[1][0] and not f.term(sb)[1][1][1]]
                if not sws:
                    continue
                tg = [x[1] for x in f.term(sws[0])[2]] + [f.term(sws[0])[3]]
                arms = []
                for db, k, s2 in ds:
                    own = [t for t in tg if t is not None and blocks_dominate(f, {t}, db)]
                    arms.append(own[0] if len(own) == 1 else None)
                if None not in arms and len(set(arms)) >= 2:
                    out[l] = (bb, "match on %s" % _token_type(str(st[2][2])), _place_sig((st[2][1][0], st[2][1][1])))
                    break
        return out

    bind = {f.id: local_sources(f) for f in fns}
    bind = {k: v for k, v in bind.items() if v}
    byid = {f.id: f for f in fns}
    for _round in range(3):
        added = False
        for fid in list(bind):
            f = byid[fid]
            t = bind[fid]
            for c in f.calls():
                h = p.fns.get(c.resolved or "")
                if h is None or h.crate != f.crate or c.name.rsplit("::", 1)[-1] in _TOKEN_FORMATTERS:
                    continue
                for i, a in enumerate(c.args):
                    if a[0] == "k" or i + 1 > h.argc:
                        continue
                    src = a[1][0]
                    if a[1][1]:
                        continue
                    if src not in t:
                        d = f.single_def(src)
                        if d and d[1] == "assign" and d[2][2][0] in ("use", "ref"):
                            rv = d[2][2]
                            pl = rv[1][1] if rv[0] == "use" and rv[1][0] != "k" else rv[2] if rv[0] == "ref" else None
                            src = pl[0] if pl and not [e for e in pl[1] if e != "*"] else None
                    if src in t and "str" in h.locals[i + 1] and (i + 1) not in bind.get(h.id, {}):
                        bind.setdefault(h.id, {})[i + 1] = (0, "parameter fed by %s" % short(f.id), None)
                        added = True
        if not added:
            break

    def unconsumed(f, l, start, srcsig):
        t = {l}
        changed = True
        while changed:
            changed = False
            for bb, i, st in f.stmts():
                if st[0] == "=" and st[1][0] not in t and st[1][0] != 0:
                    ops = [op[1][0] for op in rvalue_operands(st[2]) if op[0] != "k"] + [pl[0] for pl in rvalue_places(st[2])]
                    if any(o in t for o in ops):
                        t.add(st[1][0])
                        changed = True
            for d in f.calls():
                if d.dest and d.dest[0] not in t and any(a[0] != "k" and a[1][0] in t for a in d.args) \
                        and any(x in d.name for x in _CARRIERS):
                    t.add(d.dest[0])
                    changed = True
        if 0 in t:
            return []
        cons = set()
        for d in f.calls():
            if d.dest and d.dest[0] == l:
                continue
            if any(a[0] != "k" and a[1][0] in t for a in d.args) and not any(x in d.name for x in _PURE_READS):
                cons.add(d.bb)
        for bb, i, st in f.stmts():
            if st[0] == "=" and st[1][0] == 0:
                ops = [op[1][0] for op in rvalue_operands(st[2]) if op[0] != "k"] + [pl[0] for pl in rvalue_places(st[2])]
                if any(o in t for o in ops):
                    cons.add(bb)
            if srcsig is not None and st[0] == "=" and bb != start:
                for pl in [op[1] for op in rvalue_operands(st[2]) if op[0] != "k"] + list(rvalue_places(st[2])):
                    if _place_sig((pl[0], pl[1])) == srcsig:
                        cons.add(bb)
        errb = {d.bb for d in f.calls() if (d.declared or "") == "std::ops::FromResidual::from_residual"} | {
            bb for bb, i, st in f.stmts() if st[0] == "=" and st[1][0] == 0 and st[2][0] == "agg" and isinstance(st[2][1], list)
            and st[2][1][0] == "adt" and st[2][1][2] in ("Err", "None")}
        reach = correlated_reach(f, start, avoid_blocks=(cons | errb) - {start})
        if start in cons or not any(b in reach for b in f.returns()):
            return []
        return sorted({short(c.name).rsplit("::", 1)[-1] for c in f.calls()
                       if (c17.formatter(c) or c.name.endswith("push_str")) and c.bb in reach and c.bb != start})

    n = 0
    for fid in sorted(bind):
        f = byid[fid]
        for l, (start, why, srcsig) in sorted(bind[fid].items()):
            if l == 0:
                continue
            n += 1
            name = f.local_names.get(l)
            label = "%s: %s%s" % (short(f.id), why, " `%s`" % name if name else "")
            bad = unconsumed(f, l, start, srcsig)
            r.instance(rid, label, "violation" if bad else "ok", "%s:%d" % (f.file, f.line),
                       "printed on every printing path" if not bad else "unprinted on a path calling %s" % ", ".join(bad[:4]))
            if bad:
                r.violation(rid, "%s is not printed on every path that prints the node" % label,
                            "a successful return is reachable on which %s is called and the keyword text is neither handed on nor "
                            "part of the result, and the token is not read again: the keyword is missing on that layout"
                            % ", ".join(bad[:4]), ["%s:%d" % (f.file, f.line)])
    r.floor(rid, n, 30, "token strings")


def none_means_one_thing(ctx, rid):
    """R01-o: a rewriter does not use `None` both for "nothing to print" and for "could not print" """
    from common import bool_branches
    p, r = ctx.p, ctx.r
    r.rule(rid, "among the workspace functions that return Option<String> (the rewriters of the older interface), one that returns "
                "`None` on the true edge of an `is_empty()` test — nothing to print — has no other way of producing `None`: no `?` "
                "on an Option inside it.  Callers of such a function print nothing on `None`; if a failed sub-rewrite also comes "
                "out as `None`, the node is dropped instead of being reported as unformattable (`type A = for<T…> fn(u8)` lost "
                "its binder when the parameters did not fit)")
    n = m = 0
    for f in p.by_crate["rustfmt_nightly"]:
        if f.kind == "Closure":
            continue
        rt = f.locals[0]
        if not (rt.startswith("std::option::Option<std::string::String>") or rt.startswith("std::option::Option<std::borrow::Cow")):
            continue
        n += 1
        nones = [bb for bb, i, st in f.stmts() if st[0] == "=" and st[1][0] == 0 and not st[1][1] and st[2][0] == "agg"
                 and isinstance(st[2][1], list) and st[2][1][0] == "adt" and st[2][1][2] == "None"]
        empties = []
        for c in f.calls():
            if c.name.endswith("::is_empty") and c.dest and not c.dest[1]:
                for sw, tt, ff in bool_branches(f, c.dest[0]):
                    for nb in nones:
                        if tt is not None and nb in f.reachable(tt, avoid_blocks=[ff] if ff is not None else []) \
                                and (ff is None or nb not in f.reachable(ff)):
                            empties.append(c)
        if not empties:
            continue
        m += 1
        prop = [c for c in f.calls() if (c.declared or "") == "std::ops::FromResidual::from_residual"]
        ok = not prop
        r.instance(rid, "%s returns None for an empty result" % short(f.id), "ok" if ok else "violation", "%s:%d" % (f.file, f.line),
                   "failure-propagating `?`: %d" % len(prop))
        if not ok:
            r.violation(rid, "%s returns None both for an empty result and for a failed sub-rewrite" % short(f.id),
                        "callers cannot tell the two apart; those that print nothing on None drop the node when it merely failed to "
                        "fit", ["%s:%d" % (f.file, f.line)] + [c.loc() for c in prop][:2])
    r.floor(rid, n, 30, "workspace functions returning Option<String>")
    r.floor(rid, m, 1, "rewriters with an `empty ⇒ None` return")


def macro_parsers_skip_only_tested_tokens(ctx, rid):
    """R01-p: rustfmt's own macro-argument parsers never step over a token they have not looked at"""
    p, r = ctx.p, ctx.r
    r.rule(rid, "in the hand-written parsers of macro arguments (module parse::macros and macros::MacroParser) every `Parser::bump()` "
                "is separated from the previous token-consuming call (`bump`, `parse_*`, `eat*`, check_keyword) by a branch on "
                "`parser.token` / its kind: the token that is skipped is one the code has identified.  The arguments are printed "
                "from the parsed pieces, so a token stepped over blindly is a token missing from the output (`vec![1; n m]` ↦ "
                "`vec![1; n]`)")
    nb = 0
    for f in p.by_crate["rustfmt_nightly"]:
        if "parse::macros" not in f.id and "macros::MacroParser" not in f.id:
            continue
        bumps = [c for c in f.calls() if c.name.rsplit("::", 1)[-1] == "bump" and "Parser" in c.name]
        if not bumps:
            continue
        tests = set()
        for bb in range(len(f.blocks)):
            t = f.term(bb)
            if t[0] == "switch" and t[1][0] != "k":
                d = f.derived_from(t[1][1][0])
                if any(str(x[2]) in ("token", "kind") for x in d["fields"]) or any(
                        isinstance(e, list) and e[0] == "f" and str(e[4]) in ("token", "kind") for e in t[1][1][1]):
                    tests.add(bb)
        consumers = [c for c in f.calls() if c.name.rsplit("::", 1)[-1] == "bump" or c.name.rsplit("::", 1)[-1].startswith("parse_")
                     or c.name.rsplit("::", 1)[-1].startswith("eat") or c.name.rsplit("::", 1)[-1] == "check_keyword"]
        for b in bumps:
            nb += 1
            bad = []
            for c in consumers:
                if c is b or c.bb in tests:
                    continue
                others = {x.bb for x in consumers if x is not b and x is not c}
                for s0 in f.succ(c.bb):
                    if b.bb in f.reachable(s0, avoid_blocks=tests | others):
                        bad.append(c)
                        break
            after = sorted({short(c.name).rsplit("::", 1)[-1] for c in bad})
            r.instance(rid, "%s: bump #%d" % (short(f.id), bumps.index(b) + 1), "violation" if bad else "ok", b.loc(),
                       "follows a test of the current token" if not bad else "reachable from %s without a test" % ", ".join(after))
            if bad:
                r.violation(rid, "%s steps over a token it has not looked at (after %s)" % (short(f.id), ", ".join(after)),
                            "between the previous token-consuming call and this bump no branch depends on parser.token: whatever "
                            "token is there is dropped from the macro's arguments", [b.loc()] + [c.loc() for c in bad][:2])
    r.floor(rid, nb, 3, "Parser::bump calls in the macro-argument parsers")


def stream_parsers_reach_end_of_input(ctx, rid, tab):
    """R01-q: whoever parses a macro's tokens into nodes accounts for all of them"""
    p, r = ctx.p, ctx.r
    r.rule(rid, "every function that builds a parser over a macro's token stream (build_parser / build_stream_parser) and returns "
                "what it parsed: after each `parse_*` call, no successful return is reachable without a branch on `parser.token` "
                "(the end-of-input test, in whatever form: `while token != Eof`, `match token.kind`, `== Eof`).  The macro is "
                "printed from the parsed nodes, so tokens after the last parsed node are tokens dropped: `try!(b, c)` ↦ `b?`.  "
                "Functions that leave the test to a rustc routine are listed in tables/C01.toml")
    exc = {e["function"]: e["reason"] for e in tab.get("stream_parser_exception", [])}
    n = 0
    for f in p.by_crate["rustfmt_nightly"]:
        if f.id.endswith("build_parser") or not any(c.name.endswith("build_parser") or c.name.endswith("build_stream_parser")
                                                    for c in f.calls()):
            continue
        n += 1
        tests = set()
        for bb in range(len(f.blocks)):
            t = f.term(bb)
            if t[0] == "switch" and t[1][0] != "k":
                d = f.derived_from(t[1][1][0])
                if any(str(x[2]) in ("token", "kind") for x in d["fields"]) or any(
                        isinstance(e, list) and e[0] == "f" and str(e[4]) in ("token", "kind") for e in t[1][1][1]):
                    tests.add(bb)
        # a helper that takes the parser and answers with (something derived from) a look at parser.token is such a test too
        for c in f.calls():
            h = p.fns.get(c.resolved or "")
            if h is None or h.crate != f.crate or c.dest[1] or not any("parser::Parser" in t for t in h.locals[1:h.argc + 1]):
                continue
            looks = any(str(x[2]) in ("token", "kind") for x in h.derived_from(0)["fields"])
            for hb in range(len(h.blocks)):
                ht = h.term(hb)
                if not looks and ht[0] == "switch" and ht[1][0] != "k":
                    hd = h.derived_from(ht[1][1][0])
                    looks = any(str(x[2]) in ("token", "kind") for x in hd["fields"]) or any(
                        isinstance(e, list) and e[0] == "f" and str(e[4]) in ("token", "kind") for e in ht[1][1][1])
            if looks:
                from common import bool_branches, result_edges
                if h.locals[0] == "bool":
                    for sw, tt, ff in bool_branches(f, c.dest[0]):
                        tests.add(sw)
                else:
                    for e in result_edges(f, c):
                        tests.add(e["sw"])
        cons = [c for c in f.calls() if c.name.rsplit("::", 1)[-1].startswith("parse_") or c.name.rsplit("::", 1)[-1] == "check_keyword"]
        errb = {d.bb for d in f.calls() if (d.declared or "") == "std::ops::FromResidual::from_residual"} | {
            bb for bb, i, st in f.stmts() if st[0] == "=" and st[1][0] == 0 and st[2][0] == "agg" and isinstance(st[2][1], list)
            and st[2][1][0] == "adt" and st[2][1][2] in ("Err", "None")}
        bad = []
        for c in cons:
            for s0 in f.succ(c.bb):
                reach = f.reachable(s0, avoid_blocks=tests | errb)
                if any(b in reach for b in f.returns()):
                    bad.append(c)
                    break
        key = short(f.id)
        if bad and key in exc:
            r.instance(rid, "%s parses a macro's tokens" % key, "ok", "%s:%d" % (f.file, f.line), "exception: %s" % exc[key])
            continue
        r.instance(rid, "%s parses a macro's tokens" % key, "violation" if bad else "ok", "%s:%d" % (f.file, f.line),
                   "%d parse calls, %d token tests" % (len(cons), len(tests)))
        if bad:
            r.violation(rid, "%s can return what it parsed without having looked for the end of the tokens" % key,
                        "after %s a successful return is reachable on which parser.token is never examined: tokens after the parsed "
                        "node are dropped" % ", ".join(sorted({short(c.name).rsplit("::", 1)[-1] for c in bad})),
                        ["%s:%d" % (f.file, f.line)] + [c.loc() for c in bad][:2])
    r.floor(rid, n, 4, "functions owning a macro-token parser")


_TOKEN_ENUMS = ("rustc_ast::CaptureBy", "rustc_ast::Mutability", "rustc_ast::Safety", "rustc_ast::Const", "rustc_ast::ImplPolarity",
                "rustc_ast::BoundPolarity", "rustc_ast::Defaultness", "rustc_ast::RangeLimits", "rustc_ast::BorrowKind",
                "rustc_ast::Movability", "rustc_ast::BoundConstness", "rustc_ast::BoundAsyncness", "rustc_ast::IsAuto",
                "rustc_ast::Extern", "rustc_ast::ByRef", "rustc_ast::RangeEnd", "rustc_ast::CoroutineKind", "rustc_ast::GenBlockKind",
                "rustc_ast::StrStyle", "rustc_ast::TraitObjectSyntax", "rustc_ast::Pinnedness", "rustc_ast::MacStmtStyle")


def sibling_switches_separate_the_same_variants(ctx, rid, tab):
    """R01-r: sites that branch on the same keyword-bearing enum agree on which variants differ"""
    from common import op_local
    p, r = ctx.p, ctx.r
    r.rule(rid, "cross-check of siblings: for the small rustc_ast enums whose variants are different source tokens (CaptureBy, Safety, "
                "Extern, RangeLimits, BorrowKind, …) every `match` / `matches!` / `if let` on such a value in the workspace induces a "
                "partition of the variants.  If some site sends two variants to different arms (closures.rs prints `move `, `use ` "
                "and nothing for the three capture modes), a site that sends the same two variants to one arm either is listed in "
                "tables/C01.toml with the reason the difference does not matter there, or prints one of them wrongly "
                "(`async use { .. }` ↦ `async { .. }`)")
    exc = {e["site"]: e["reason"] for e in tab.get("merged_variants_exception", [])}
    sites = []
    for f in p.by_crate["rustfmt_nightly"]:
        for bb, i, st in f.stmts():
            if st[0] == "=" and st[2][0] == "discr" and str(st[2][2]) in _TOKEN_ENUMS:
                names = {int(v): nme for v, nme in st[2][3]}
                for sb in range(len(f.blocks)):
                    t = f.term(sb)
                    if t[0] == "switch" and op_local(t[1]) == st[1][0]:
                        groups = {}
                        for v, tg in t[2]:
                            groups.setdefault(tg, set()).add(names.get(int(v), str(v)))
                        rest = {x for x in names.values() if not any(x in g for g in groups.values())}
                        if rest:
                            groups.setdefault(t[3], set()).update(rest)
                        # does the switch choose *text*?  (an arm assigns a string constant, pushes or formats one)
                        prints = False
                        for tg0 in list(groups):
                            chain = [tg0]
                            while len(chain) < 3 and f.term(chain[-1])[0] == "goto":
                                chain.append(f.term(chain[-1])[1])
                            for cb in chain:
                                for bb3, i3, st3 in f.stmts():
                                    if bb3 == cb and st3[0] == "=" and st3[2][0] == "use" and st3[2][1][0] == "k" \
                                            and isinstance(st3[2][1][2], dict) and "str" in st3[2][1][2]:
                                        prints = True
                                    if bb3 == cb and st3[0] == "=" and st3[2][0] in ("ref", "use", "cfd") and "str" in f.locals[st3[1][0]] \
                                            and f.locals[st3[1][0]].strip().startswith("&"):
                                        prints = True
                                for c3 in f.calls():
                                    if c3.bb == cb and (c3.name.endswith("push_str") or "fmt::Arguments" in c3.name or c3.name.endswith("format")):
                                        prints = True
                        if not prints:
                            # `matches!(x, V)` first yields a bool; follow it to the switch that uses it
                            from common import bool_branches
                            for tg0 in list(groups):
                                for bb3, i3, st3 in f.stmts():
                                    if bb3 == tg0 and st3[0] == "=" and st3[2][0] == "use" and st3[2][1][0] == "k" \
                                            and isinstance(st3[2][1][2], bool) and not st3[1][1]:
                                        for sw3, tt3, ff3 in bool_branches(f, st3[1][0]):
                                            for cb in (tt3, ff3):
                                                if cb is None:
                                                    continue
                                                for bb4, i4, st4 in f.stmts():
                                                    if bb4 == cb and st4[0] == "=" and ((st4[2][0] == "use" and st4[2][1][0] == "k"
                                                                                        and isinstance(st4[2][1][2], dict) and "str" in st4[2][1][2])
                                                                                       or (st4[2][0] in ("ref", "use", "cfd") and "str" in f.locals[st4[1][0]]
                                                                                           and f.locals[st4[1][0]].strip().startswith("&"))):
                                                        prints = True
                                                for c4 in f.calls():
                                                    if c4.bb == cb and (c4.name.endswith("push_str") or "fmt::Arguments" in c4.name):
                                                        prints = True
                        sites.append((str(st[2][2]), f, st[3], [frozenset(g) for g in groups.values()], prints))
    separated = {}
    for en, f, line, groups, prints in sites:
        for g in groups:
            for h in groups:
                if g is not h:
                    for a in g:
                        for b in h:
                            separated.setdefault(en, set()).add(frozenset((a, b)))
    n = 0
    for en, f, line, groups, prints in sites:
        n += 1
        merged = sorted({tuple(sorted(pair)) for g in groups for pair in separated.get(en, ()) if pair <= g})
        if merged and not prints:
            r.instance(rid, "%s %s (chooses no text)" % (short(f.id).split("::{closure")[0], en.rsplit("::", 1)[-1]), "ok",
                       "%s:%d" % (f.file, line), "merges %s, but no arm selects or writes a string" % merged, nontrivial=False)
            continue
        site = "%s %s" % (short(f.id).split("::{closure")[0], en.rsplit("::", 1)[-1])
        if merged and site in exc:
            r.instance(rid, "%s (line-independent site)" % site, "ok", "%s:%d" % (f.file, line), "exception: %s" % exc[site])
            continue
        r.instance(rid, site, "violation" if merged else "ok", "%s:%d" % (f.file, line),
                   "separates every pair a sibling separates" if not merged else "merges %s" % merged)
        if merged:
            r.violation(rid, "%s: %s go the same way although another site tells them apart" % (site, " / ".join("+".join(m) for m in merged)),
                        "one of the merged variants is printed as the other", ["%s:%d" % (f.file, line)])
    r.floor(rid, n, 20, "switches over keyword-bearing enums")
