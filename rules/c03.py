"""C03 — comments are never silently dropped (partial: the safety net).

R03-a every success result of format_expr / format_stmt / rewrite_static (with initialiser) passes recover_comment_removed
R03-b recover_comment_removed keeps the source iff comment content changed · R03-c changed_comment_content compares both
R03-d write_list reads every comment field of ListItem
"""
from absint import explore, vkey, variant_name, TooManyPaths
from common import short, Call

RECOVER = "rustfmt_nightly::comment::recover_comment_removed"
ANCHORS = [("rustfmt_nightly::expr::format_expr", "expression"), ("rustfmt_nightly::stmt::format_stmt", "statement"),
           ("rustfmt_nightly::items::rewrite_static", "static/const with initialiser")]
BENIGN = ("::snippet", "to_owned", "::to_string", "::span", "as_ref", "deref", "::clone")


def closure_calls_recover(p, fid, depth=0):
    f = p.fns.get(fid)
    if f is None or depth > 3:
        return False
    for c in f.calls():
        if c.name == RECOVER:
            return True
        for x in c.refs:
            if closure_calls_recover(p, x, depth + 1):
                return True
    return False


def closure_reaches(p, fid, suffix, depth=0):
    f = p.fns.get(fid)
    if f is None or depth > 3:
        return False
    for c in f.calls():
        if c.name.endswith(suffix):
            return True
        for x in c.refs:
            if closure_reaches(p, x, suffix, depth + 1):
                return True
    return False


def run(ctx):
    p, r = ctx.p, ctx.r
    A = r.rule("R03-a", "for format_expr, format_stmt and rewrite_static every write of the return value is an error, the "
                        "untouched source snippet, text that contains no rewritten expression, or derives from a "
                        "map/and_then whose closure calls recover_comment_removed on the node's span")
    expr_reachers = p.can_reach([x for x in p.fns if x == "rustfmt_nightly::expr::format_expr"])
    for (name, what) in ANCHORS:
        f = p.fn(name)
        if f is None:
            r.undecidable(A, "%s not found" % name)
            continue
        writers = f.defs().get(0, [])
        n_cov = 0
        for (bb, kind, pl) in writers:
            where = "%s:%d" % (f.file, pl.line if isinstance(pl, Call) else pl[3])
            if isinstance(pl, Call):
                c = pl
                if c.declared == "std::ops::FromResidual::from_residual":
                    r.instance(A, "%s: `?` error edge bb%d" % (short(name), bb), "error-path", where, nontrivial=False)
                    continue
                srcs = [c]
                for a in c.args:
                    if a[0] != "k":
                        srcs += f.derived_from(a[1][0])["calls"]
                cov = any(x.name == RECOVER or any(closure_calls_recover(p, y) for y in x.refs) for x in srcs)
                key = "%s: returns %s" % (short(name), short(c.name)[:50])
                r.instance(A, key, "ok" if cov else "violation", where)
                if cov:
                    n_cov += 1
                else:
                    r.violation(A, "%s: result of %s bypasses recover_comment_removed" % (short(name), short(c.name)[:40]),
                                "a rewritten %s is returned without the comment safety net: a comment rustfmt could not place "
                                "is silently dropped instead of the %s being left as written" % (what, what), [where])
                continue
            rv = pl[2]
            if rv[0] == "agg" and isinstance(rv[1], list) and rv[1][0] == "adt" and rv[1][2] in ("Err", "None"):
                r.instance(A, "%s: %s bb%d" % (short(name), rv[1][2], bb), "error-path", where, nontrivial=False)
                continue
            ops = rv[2] if rv[0] == "agg" else ([rv[1]] if rv[0] == "use" else [])
            calls = []
            for op in ops:
                if op[0] != "k":
                    calls += f.derived_from(op[1][0])["calls"]
            if any(x.name == RECOVER or any(closure_calls_recover(p, y) for y in x.refs) for x in calls):
                n_cov += 1
                r.instance(A, "%s: Ok(recovered) bb%d" % (short(name), bb), "ok", where)
                continue
            rewriting = [x for x in calls if any(t in expr_reachers for (t, k) in p.call_targets(x))
                         and not any(x.name.endswith(b) for b in BENIGN)]
            if not rewriting:
                verb = any(x.name.endswith("::snippet") for x in calls)
                r.instance(A, "%s: %s bb%d" % (short(name), "verbatim snippet" if verb else "text without a rewritten expression", bb),
                           "ok", where, nontrivial=False)
                continue
            # rewrite_static: the arm without an initialiser (expr_opt = None) has no expression to lose comments from
            if name.endswith("rewrite_static"):
                from common import discr_branches, edge_dominates
                none_dom = False
                for bb2, i2, s2 in f.stmts():
                    if s2[0] == "=" and s2[2][0] == "discr":
                        fs = [e for e in s2[2][1][1] if isinstance(e, (list, tuple)) and e[0] == "f"]
                        if fs and fs[-1][4] == "expr_opt":
                            names = {str(v): nme for v, nme in s2[2][3]}
                            for sb, b2 in enumerate(f.blocks):
                                t2 = b2["t"]
                                if t2[0] == "switch" and t2[1][0] in ("c", "m") and t2[1][1][0] == s2[1][0] and not t2[1][1][1]:
                                    for v, tgt in t2[2]:
                                        if names.get(str(v)) == "None" and edge_dominates(f, (sb, tgt), bb):
                                            none_dom = True
                                    if "None" not in [names.get(str(v)) for v, _ in t2[2]] and edge_dominates(f, (sb, t2[3]), bb):
                                        none_dom = True
                if none_dom:
                    r.instance(A, "%s: declaration without initialiser bb%d" % (short(name), bb), "exception", where,
                               "expr_opt is None on this path: there is no initialiser expression whose comments could be lost",
                               nontrivial=False)
                    continue
            r.instance(A, "%s: unrecovered Ok bb%d" % (short(name), bb), "violation", where)
            r.violation(A, "%s: returns text from %s without recover_comment_removed" % (short(name), short(rewriting[0].name)[:40]),
                        "a success value built from %s is returned without passing the comment safety net" % short(rewriting[0].name),
                        [where])
        if n_cov < 1:
            r.violation(A, "%s: no return passes recover_comment_removed" % short(name),
                        "the comment safety net of this rewriter is gone", ["%s:%d" % (f.file, f.line)])
    r.floor(A, len(ANCHORS), 3, "anchored rewriters")
    # macro calls in statement / item position are pushed by FmtVisitor::visit_mac
    vm = p.named("visit_mac", within="visitor::FmtVisitor")
    if vm is None:
        r.undecidable(A, "FmtVisitor::visit_mac not found")
    else:
        pushes = [c for c in vm.calls() if c.name.endswith("::push_rewrite") or c.name.endswith("::push_rewrite_inner")]
        n_ok = 0
        for c in pushes:
            if len(c.args) < 3 or c.args[2][0] == "k":
                continue
            srcs = vm.derived_from(c.args[2][1][0])["calls"]
            rewriting = any(x.name.endswith("macros::rewrite_macro") or any("rewrite_macro" in y or closure_reaches(p, y, "macros::rewrite_macro")
                                                                         for y in x.refs) for x in srcs)
            if not rewriting:
                continue
            cov = any(x.name == RECOVER or any(closure_calls_recover(p, y) for y in x.refs) for x in srcs)
            r.instance(A, "visitor::visit_mac: pushes the rewritten macro call", "ok" if cov else "violation", c.loc())
            if cov:
                n_ok += 1
            else:
                r.violation(A, "visit_mac: rewritten macro call bypasses recover_comment_removed",
                            "a macro call in statement or item position is replaced by its rewrite without the comment safety "
                            "net: `vec![0u8 /* zero */; 3];` loses its comment", [c.loc()])

    B = r.rule("R03-b", "decision table of recover_comment_removed: returns the source snippet iff snippet ≠ new ∧ "
                        "changed_comment_content(snippet, new); appends a LostComment error on that path iff "
                        "error_on_unformatted; otherwise returns `new` unchanged")
    f = p.fns.get(RECOVER)
    if f is None:
        r.undecidable(B, "recover_comment_removed not found")
    else:
        PURE = ("::ne", "::eq", "changed_comment_content", "error_on_unformatted", "::snippet", "to_owned")
        paths = explore(f, pure=lambda c: any(c.name.endswith(x) for x in PURE) or c.declared in ("std::cmp::PartialEq::ne", "std::cmp::PartialEq::eq"),
                        is_effect=lambda c: c.name.endswith("FormatReport::append") or c.name.endswith("FormattingError::from_span"),
                        program=p, inline=lambda c: (lambda h: h is not None and h.crate == "rustfmt_nightly" and h.id.startswith("rustfmt_nightly::comment::")
                                                     and any(cc.name.endswith("FormatReport::append") for cc in h.calls()))(p.fns.get(c.resolved or "")))
        r.paths(B, len(paths))
        n = 0
        for path in paths:
            if path.end != "ret" or path.ret is None:
                continue
            ne = chg = eou = None
            for k, v in path.decisions:
                if not isinstance(v, bool):
                    continue
                if "snippet(arg3,arg2)" in k and ("::ne(" in k or "::eq(" in k) and "changed_comment_content" not in k:
                    ne = v if "::ne(" in k else (not v)
                elif "changed_comment_content(" in k:
                    ok_args = "snippet(arg3,arg2)" in k and "arg1" in k
                    chg = v if ok_args else None
                elif "error_on_unformatted(" in k:
                    eou = v
            ret = vkey(path.ret)
            keep = (ne is True and chg is True)
            if keep:
                okr = "to_owned(" in ret and "snippet(arg3,arg2)" in ret
            else:
                okr = ret == "arg1"
            appended = [e for e in path.effects if e.kind == "call" and e.name.endswith("FormatReport::append")]
            lost = any("LostComment" in vkey(a) for e in path.effects if e.kind == "call" for a in e.args)
            oke = (len(appended) == 1 and lost) if (keep and eou) else (len(appended) == 0)
            n += 1
            r.cells(B, 1)
            r.instance(B, "recover[ne=%s,changed=%s,eou=%s]" % (ne, chg, eou), "ok" if okr and oke else "violation",
                       "%s:%d" % (f.file, f.line), short(ret)[-50:])
            if not okr:
                r.violation(B, "recover_comment_removed[ne=%s,changed=%s] returns %s" % (ne, chg, short(ret)[-40:]),
                            "the safety net must hand back the source snippet exactly when the comment content changed, and the "
                            "new text otherwise", ["%s:%d" % (f.file, f.line)])
            if not oke:
                r.violation(B, "recover_comment_removed[ne=%s,changed=%s,eou=%s]: LostComment reports ×%d" % (ne, chg, eou, len(appended)),
                            "a lost comment must be reported exactly when the source was kept and error_on_unformatted is set",
                            ["%s:%d" % (f.file, f.line)])
        r.floor(B, n, 4, "paths of recover_comment_removed")

    C = r.rule("R03-c", "changed_comment_content builds a CommentReducer over each of its two arguments and compares the two "
                        "streams with Iterator::ne")
    g = p.named("changed_comment_content", within="rustfmt_nightly::comment")
    if g is None:
        r.undecidable(C, "changed_comment_content not found")
    else:
        reach = p.reach_from([g.id])
        red = [c for x in reach for c in p.fns[x].calls() if "CommentReducer" in c.name and c.name.endswith("::new")]
        ne = [c for c in g.calls() if c.declared in ("std::iter::Iterator::ne", "std::iter::Iterator::eq")]
        both = False
        if len(ne) == 1:
            sides = []
            for a in ne[0].args:
                sides.append(g.derived_from(a[1][0])["args"] if a[0] != "k" else set())
            both = len(sides) == 2 and ((1 in sides[0] and 2 in sides[1]) or (2 in sides[0] and 1 in sides[1]))
        # the two streams are built from the texts alone: nothing but the comment/code classification selects what is compared
        unit = [x for x in p.by_crate["rustfmt_nightly"] if x.id == g.id or x.id.startswith(g.id + "::{closure")]
        # a stream builder that was given a name of its own (`fn code_comment_content(code: &str) -> impl Iterator`) belongs to the unit
        grew = True
        while grew:
            grew = False
            for x in list(unit):
                for c in x.calls():
                    h = p.fns.get(c.resolved or "")
                    if h is None or h in unit or not h.id.startswith("rustfmt_nightly::comment::") or h.kind == "Closure":
                        continue
                    if any("UngroupedCommentCodeSlices" in d.name and d.name.endswith("::new") for d in h.calls()):
                        unit.append(h)
                        unit += [y for y in p.by_crate["rustfmt_nightly"] if y.id.startswith(h.id + "::{closure")]
                        grew = True
        unit_ids = {x.id for x in unit}
        extra = []
        for x in unit:
            for c in x.calls():
                nm = c.name
                if nm.startswith("rustfmt_nightly::") or nm.startswith("<rustfmt_nightly::"):
                    if any(t in nm for t in ("UngroupedCommentCodeSlices", "CommentReducer", "CodeCharKind")) or nm.startswith(g.id) \
                            or (c.resolved or "") in unit_ids or any(nm.startswith(u) for u in unit_ids):
                        continue
                    extra.append((x, c))
                elif nm.startswith("core::str::") or "<impl str>" in nm:
                    extra.append((x, c))
        selective = g.argc != 2 or bool(extra) or any(x.kind != "Closure" and x is not g and x.argc != 1 for x in unit)
        r.instance(C, "changed_comment_content: what is compared is selected by the comment/code classification only",
                   "violation" if selective else "ok", "%s:%d" % (g.file, g.line),
                   "parameters=%d, other selectors=%s" % (g.argc, sorted({short(c.name) for x, c in extra})))
        if selective:
            r.violation(C, "changed_comment_content leaves part of the comments out of the comparison",
                        "the function takes %d parameters and its stream-building closures call %s: besides `kind == Comment`, something "
                        "else decides which comments are compared, so a rewrite may lose the others unnoticed"
                        % (g.argc, sorted({short(c.name) for x, c in extra}) or "nothing else"),
                        ["%s:%d" % (g.file, g.line)] + [c.loc() for x, c in extra][:3])
        ok = len(ne) == 1 and len(red) >= 1 and both
        r.instance(C, "changed_comment_content", "ok" if ok else "violation", "%s:%d" % (g.file, g.line),
                   "reducers=%d, Iterator::ne=%d, compares both arguments=%s" % (len(red), len(ne), both))
        if not ok:
            r.violation(C, "changed_comment_content does not compare the comment streams of both texts",
                        "reducers=%d, comparisons=%d, both arguments involved=%s" % (len(red), len(ne), both),
                        ["%s:%d" % (g.file, g.line)])

    width_into_bytepos(ctx, "R03-e")
    relayout_keeps_lines(ctx, "R03-f")
    offset_base_agreement(ctx, "R03-g")
    use_tree_comment_carrier(ctx, "R03-h")
    list_item_extent_covers_printer(ctx, "R03-i")
    import_grouping_is_a_partition(ctx, "R03-j")
    single_line_bodies_have_no_comment(ctx, "R03-k")
    doc_openers_are_recognised_as_the_lexer_does(ctx, "R03-l")
    every_statement_is_visited(ctx, "R03-m")
    D = r.rule("R03-d", "lists::write_list (with the closures it owns) reads every comment-bearing field of ListItem: "
                        "pre_comment, pre_comment_style, post_comment, new_lines")
    wl = p.named("write_list", within="rustfmt_nightly::lists")
    if wl is None:
        r.undecidable(D, "write_list not found")
    else:
        fields = set()
        for f2 in p.body_family(wl):
            for (adt, var, fld, mode, bb, line) in f2.field_accesses():
                if adt == "rustfmt_nightly::lists::ListItem":
                    fields.add(fld)
        need = {"pre_comment", "pre_comment_style", "post_comment", "new_lines"}
        missing = need - fields
        r.instance(D, "write_list reads %s" % sorted(fields & need), "ok" if not missing else "violation", "%s:%d" % (wl.file, wl.line))
        for m in sorted(missing):
            r.violation(D, "write_list no longer reads ListItem.%s" % m,
                        "the comments the list machinery attached to every field / variant / arm / argument in `%s` are not "
                        "emitted any more" % m, ["%s:%d" % (wl.file, wl.line)])


WIDTH_FNS = ("first_line_width", "last_line_width", "unicode_str_width", "trimmed_last_line_width", "UnicodeWidthStr",
             "UnicodeWidthChar", "last_line_used_width", "Indent::width", "Shape::used_width", "last_line_extendable")


def width_into_bytepos(ctx, rid):
    """R03-e: display widths never become byte offsets"""
    from common import short as _s
    p, r = ctx.p, ctx.r
    r.rule(rid, "unit discipline of span arithmetic: no BytePos (byte offset into the source) is built from a value derived from "
                "a display-width function (first_line_width, unicode_str_width, …): a span cut in columns instead of bytes "
                "loses or duplicates the text after the first non-ASCII character, comments included")
    n = 0
    for f in p.by_crate["rustfmt_nightly"]:
        for bb, i, s in f.stmts():
            if s[0] == "=" and s[2][0] == "agg" and isinstance(s[2][1], list) and s[2][1][0] == "adt" and s[2][1][1] == "rustc_span::BytePos":
                n += 1
                op = s[2][2][0]
                if op[0] == "k":
                    continue
                d = f.derived_from(op[1][0])
                w = [c for c in d["calls"] if any(x in c.name for x in WIDTH_FNS)]
                if w:
                    r.instance(rid, "%s: BytePos from %s" % (_s(f.id), _s(w[0].name)), "violation", "%s:%d" % (f.file, s[3]))
                    r.violation(rid, "%s builds a BytePos from %s" % (_s(f.id), _s(w[0].name).rsplit("::", 1)[-1]),
                                "a byte offset is computed from the display width returned by %s: for text with multi-byte "
                                "characters the span ends inside the text and what follows (e.g. the tail of a comment) is dropped"
                                % _s(w[0].name), ["%s:%d" % (f.file, s[3]), w[0].loc()])
    r.instance(rid, "BytePos constructions examined", "ok", "", "%d constructions, none fed by a width function" % n, nontrivial=False)
    r.floor(rid, n, 30, "BytePos constructions")


def relayout_keeps_lines(ctx, rid):
    """R03-f: the layout-preserving re-indenter (block comments without `*`, macro bodies) drops a line only when it is empty"""
    p, r = ctx.p, ctx.r
    r.rule(rid, "utils::trim_left_preserve_layout: a (trimmed, line, prefix_width) triple with prefix_width=None and trimmed≠false — "
                "the only triple the renderer turns into an empty line — is pushed only on paths where is_empty_line(line) holds; "
                "the renderer returns String::new() only for that triple")
    f = p.named("trim_left_preserve_layout", within="utils")
    if f is None:
        r.undecidable(rid, "utils::trim_left_preserve_layout not found")
        return
    PURE = ("is_empty_line", "get_prefix_space_width", "style_edition", "ends_with", "::eq", "::ne", "::ge", "::lt", "partial_cmp",
            "::width", "saturating_sub", "is_string", "is_commented_string")
    n_push = n_render = 0
    for c in [f] + p.closures_of(f):
        try:
            paths = explore(c, is_effect=lambda k: k.name.endswith("::push"), pure=lambda k: any(x in k.name for x in PURE) or "LineClasses" in k.name
                            or k.name.endswith("::next") or k.name.endswith("into_iter") or k.name.endswith("to_owned") or k.name.endswith("trim_end")
                            or k.name.endswith("::trim"),
                            max_paths=50000, program=p, inline="auto", max_visits=2)
        except TooManyPaths as e:
            r.undecidable(rid, str(e))
            return
        r.paths(rid, len(paths))
        for path in paths:
            empty = any("is_empty_line(" in k and v is True for k, v in path.decisions)
            for e in path.effects:
                if e.kind != "call" or len(e.args) < 2:
                    continue
                t = vkey(e.args[1])
                if not t.startswith("tuple("):
                    continue
                n_push += 1
                parts = t[6:-1]
                blanked = parts.endswith(",None") and not parts.startswith("false,")
                if blanked and not empty:
                    r.violation(rid, "trim_left_preserve_layout blanks a non-empty line",
                                "pushes %s (rendered as an empty line) on a path where is_empty_line(line) is not established "
                                "(decisions: %s): the text of that line — part of a comment or macro body — is lost"
                                % (short(t)[:60], [(k[-34:], variant_name(v)) for k, v in path.decisions][:5]),
                                ["%s:%d" % (c.file, c.line)])
            if path.end == "ret" and path.ret is not None and "String::new" in vkey(path.ret)[:40]:
                n_render += 1
                d = {k: variant_name(v) for k, v in path.decisions}
                none = any(k.startswith("discr(") and v == "None" for k, v in d.items())
                trimmed = any(v is True and "." in k and "(" not in k for k, v in d.items())
                if not (none and trimmed):
                    r.violation(rid, "trim_left_preserve_layout renders a kept line as empty",
                                "the renderer returns String::new() under %s — not only for (trimmed, _, None)" % d,
                                ["%s:%d" % (c.file, c.line)])
    r.instance(rid, "trim_left_preserve_layout: blank ⇒ empty line", "ok", "%s:%d" % (f.file, f.line),
               "%d pushes on explored paths, %d empty renderings" % (n_push, n_render))
    r.floor(rid, n_push, 4, "explored pushes of line triples in trim_left_preserve_layout")
    r.floor(rid, n_render, 1, "String::new() renderings in trim_left_preserve_layout")


def offset_base_agreement(ctx, rid):
    """R03-g / R16-h: a byte offset measured inside a snippet is added to the position that snippet starts at"""
    from common import expr_key
    p, r = ctx.p, ctx.r
    r.rule(rid, "for every `base + BytePos(off)` (and `- BytePos`) whose offset derives from text obtained with snippet(S) / "
                "span_to_snippet(S): `base` is the start of S — the same expression as S.lo(), or as the first argument of the "
                "mk_sp(..) that built S.  An offset measured in one snippet and applied to another base cuts source text at the "
                "wrong byte: comment characters are dropped or a span ends inside a character (panic)")
    n = 0
    for f in p.by_crate["rustfmt_nightly"]:
        for c in f.calls():
            if not ("BytePos as std::ops::Add" in c.name or "BytePos as std::ops::Sub" in c.name) or len(c.args) < 2:
                continue
            base, off = c.args[0], c.args[1]
            if off[0] == "k" or base[0] == "k":
                continue
            d = f.derived_from(off[1][0])
            snips = [x for x in d["calls"] if x.name.rsplit("::", 1)[-1] in ("snippet", "span_to_snippet") and len(x.args) > 1 and x.args[1][0] != "k"]
            if not snips:
                continue
            n += 1
            bkey = expr_key(f, base)
            starts = set()
            for sc in snips:
                sp = sc.args[1]
                skey = expr_key(f, sp)
                starts.add("rustc_span::<impl rustc_span::Span>::lo(%s)" % skey)
                # S = mk_sp(a, b)  →  start a;  S = something.with_lo(a)
                o = f.single_def(sp[1][0]) if not sp[1][1] else None
                hops = 0
                while o is not None and o[1] == "assign" and o[2][2][0] == "use" and o[2][2][1][0] != "k" and not o[2][2][1][1][1] and hops < 6:
                    o = f.single_def(o[2][2][1][1][0])
                    hops += 1
                if o is not None and o[1] == "call":
                    cc = o[2]
                    if cc.name.endswith("utils::mk_sp") and cc.args:
                        starts.add(expr_key(f, cc.args[0]))
                    if cc.name.endswith("Span::with_lo") and len(cc.args) > 1:
                        starts.add(expr_key(f, cc.args[1]))
                    g = p.fns.get(cc.resolved or "")
                    if g is not None and g.crate == "rustfmt_nightly":
                        # a helper that returns mk_sp(a, ..): its start, expressed in the caller's terms
                        r0 = g.single_def(0)
                        if r0 is not None and r0[1] == "call" and r0[2].name.endswith("utils::mk_sp") and r0[2].args:
                            import re as _re
                            kg = expr_key(g, r0[2].args[0])
                            argk = {i + 1: expr_key(f, a) for i, a in enumerate(cc.args)}
                            kg = _re.sub(r"\b(?:arg|_)(\d+)\b", lambda m: argk.get(int(m.group(1)), m.group(0)) if int(m.group(1)) <= g.argc else m.group(0), kg)
                            starts.add(kg)
            ok = bkey in starts
            owner = short(f.root or f.id)
            r.instance(rid, "%s: offset applied to the snippet's own start" % owner if ok else "%s: offset applied to another base" % owner,
                       "ok" if ok else "violation", c.loc(), "" if ok else "base=%s starts=%s" % (bkey[-70:], sorted(x[-70:] for x in starts)))
            if not ok:
                r.violation(rid, "%s: snippet offset added to a position that is not the snippet's start" % owner,
                            "the offset is measured in the text of snippet(S) but added to `%s`, while S starts at %s: the resulting "
                            "position is off by the distance between the two, so text (a trailing comment's last characters) is cut "
                            "or a span ends inside a multi-byte character" % (bkey[-80:], sorted(x[-80:] for x in starts)[:2]),
                            [c.loc()])
    r.floor(rid, n, 12, "BytePos offsets derived from snippet text")


def use_tree_comment_carrier(ctx, rid):
    """R03-h: a UseTree that carries a comment is never replaced by trees built without it"""
    from common import bool_branches, edge_dominates
    p, r = ctx.p, ctx.r
    r.rule(rid, "imports: a function that receives a UseTree and constructs UseTree values with `list_item: None` (the field that "
                "carries the comments attached to a `use` item) does so only where UseTree::contains_comment / has_comment on the "
                "received tree has answered false — otherwise the comment between two imports is silently dropped when the tree "
                "is split or rebuilt")
    n = 0
    for f in p.by_crate["rustfmt_nightly"]:
        if "imports::" not in f.id or f.argc < 1 or "imports::UseTree" not in f.locals[1]:
            continue
        adt = next((a for k, a in p.adts.items() if k.endswith("imports::UseTree")), None)
        if adt is None:
            r.undecidable(rid, "ADT imports::UseTree not found")
            return
        names = [nm for nm, t in adt["variants"][0]["fields"]]
        for bb, i, s in f.stmts():
            if not (s[0] == "=" and s[2][0] == "agg" and isinstance(s[2][1], list) and s[2][1][0] == "adt"
                    and s[2][1][1].endswith("imports::UseTree")):
                continue
            li = s[2][2][names.index("list_item")]
            is_none = False
            if li[0] != "k" and not li[1][1]:
                d = f.single_def(li[1][0])
                is_none = d is not None and d[1] == "assign" and d[2][2][0] == "agg" and isinstance(d[2][2][1], list) \
                    and d[2][2][1][1].endswith("option::Option") and d[2][2][1][2] == "None"
            if not is_none:
                continue
            n += 1
            guarded = False
            for g in f.calls():
                if not (g.name.endswith("UseTree::contains_comment") or g.name.endswith("UseTree::has_comment")) or not g.args or g.args[0][0] == "k":
                    continue
                dd = f.derived_from(g.args[0][1][0])
                if 1 not in dd["locals"] and 1 not in dd["args"]:
                    continue
                for (sw, t_true, t_false) in bool_branches(f, g.dest[0]):
                    if edge_dominates(f, (sw, t_false), bb):
                        guarded = True
            key = "%s builds comment-less UseTree values" % short(f.id)
            r.instance(rid, key, "ok" if guarded else "violation", "%s:%d" % (f.file, s[3]))
            if not guarded:
                r.violation(rid, "%s drops the comment carried by the tree it rebuilds" % short(f.id),
                            "UseTree values with `list_item: None` are built from the received tree on a path where "
                            "contains_comment() on it has not answered false: a comment attached to the `use` item (trailing, or "
                            "on the line above) disappears from the output", ["%s:%d" % (f.file, s[3])])
    r.floor(rid, n, 1, "comment-less UseTree constructions from a received tree")


def list_item_extent_covers_printer(ctx, rid):
    """R03-i: the extent a list-item node reports covers every child its printer emits"""
    import c17
    p, r = ctx.p, ctx.r
    r.rule(rid, "the list machinery (itemize_list) finds the comments that belong to an item in the source text *between* the "
                "extents `Spanned::span` reports for consecutive items.  For every rustc_ast struct node whose `Spanned::span` "
                "takes its upper end from a child instead of the node's own span (Arm, Param, GenericParam, FieldDef), every child "
                "that a printer of the node hands to a rewriter is read by that `Spanned::span` (directly or in a helper it calls) "
                "or is listed in tables/C03.toml as lying inside the extent.  A printer that emits a child beyond the reported end "
                "(`field: Ty = default`) makes the list code see ` = default, // comment` as separator text: the comment is dropped "
                "and the value printed again from the AST")
    interior = {e["field"]: e["reason"] for e in ctx.table("C03").get("interior_child", [])}

    def hi_sources(f):
        out = set()
        for c in f.calls():
            if not c.name.endswith("::hi"):
                continue
            for a in c.args:
                if a[0] == "k":
                    continue
                out |= {(x[0], str(x[2])) for x in f.derived_from(a[1][0])["fields"]}
                out |= {(e[2], str(e[4])) for e in a[1][1] if isinstance(e, list) and e[0] == "f"}
        return out

    custom = {}
    for f in p.by_crate["rustfmt_nightly"]:
        if " as spanned::Spanned>::span" not in short(f.id) or f.kind == "Closure":
            continue
        node = f.locals[1].replace("&", "").strip()
        if not node.startswith("rustc_ast::"):
            continue
        h = hi_sources(f)
        if (node, "span") in h or not any(x[0] == node for x in h):
            continue
        reads = {(a, str(fl)) for (a, v, fl, m, bb, ln) in f.field_accesses()}
        for c in f.calls():
            g = p.fns.get(c.resolved or "")
            if g is not None and g.crate == f.crate:
                reads |= {(a, str(fl)) for (a, v, fl, m, bb, ln) in g.field_accesses()}
        custom[node] = ({x[1] for x in reads if x[0] == node}, f)
    n = 0
    for node, (rd, sf) in sorted(custom.items()):
        emitted = {}
        for f in p.by_crate["rustfmt_nightly"]:
            if not any(t.replace("&", "").strip() == node for t in f.locals[1:f.argc + 1]):
                continue
            for c in f.calls():
                if not (c17.formatter(c) or (c.declared or "").startswith("rustfmt_nightly::rewrite::Rewrite::rewrite")):
                    continue
                for a in c.args:
                    if a[0] == "k":
                        continue
                    fl = {str(x[2]) for x in f.derived_from(a[1][0])["fields"] if x[0] == node}
                    fl |= {str(e[4]) for e in a[1][1] if isinstance(e, list) and e[0] == "f" and e[2] == node}
                    for x in fl:
                        emitted.setdefault(x, set()).add("%s:%d" % (f.file, f.line))
        for child, where in sorted(emitted.items()):
            if child in ("span", "id"):
                continue
            n += 1
            key = "%s.%s" % (node, child)
            ok = child in rd or key in interior
            r.instance(rid, "%s is emitted by a printer of %s" % (child, node.rsplit("::", 1)[-1]), "ok" if ok else "violation",
                       sorted(where)[0], "read by Spanned::span" if child in rd else ("interior: " + interior[key]) if key in interior else
                       "outside the extent Spanned::span computes")
            if not ok:
                r.violation(rid, "%s: a printer emits `%s`, which Spanned::span neither reads nor encloses" % (node.rsplit("::", 1)[-1], child),
                            "the extent reported to the list code ends before text the printer emits; comments after that text are "
                            "attributed to nothing and dropped", sorted(where) + ["%s:%d" % (sf.file, sf.line)])
    r.floor(rid, len(custom), 3, "list-item nodes whose Spanned::span ends at a child")
    r.floor(rid, n, 10, "(node, emitted child) pairs")


def import_grouping_is_a_partition(ctx, rid):
    """R03-j: grouping imports distributes the trees, it does not select among them"""
    from common import natural_loops
    p, r = ctx.p, ctx.r
    r.rule(rid, "reorder::group_imports takes ownership of the use trees of a run and hands back groups: on every path through the "
                "body of its loop the element just taken from the iterator is moved into one of the groups (a `Vec::push` whose "
                "argument is that element).  A tree is also the only carrier of the comments attached to its declaration "
                "(UseTree::list_item), and an import that normalises to nothing (`use a::{};`) still has them: a `continue` "
                "without a push deletes the comments, and for any other tree the import itself")
    f = p.named("group_imports", within="reorder")
    if f is None:
        r.undecidable(rid, "reorder::group_imports not found")
        return
    n = 0
    for h, body in natural_loops(f):
        nexts = [c for c in f.calls() if c.bb in body and ((c.declared or "").endswith("Iterator::next") or c.name.endswith("Iterator>::next"))]
        for nx in nexts:
            from common import result_edges
            for e in result_edges(f, nx):
                if e.get("ok") is None:
                    continue
                n += 1
                pushes = set()
                for c in f.calls():
                    if c.bb in body and c.name.endswith("::push") and "Vec" in c.name and len(c.args) >= 2 and c.args[1][0] != "k":
                        d = f.derived_from(c.args[1][1][0])
                        if nx in d["calls"]:
                            pushes.add(c.bb)
                reach = f.reachable(e["ok"], avoid_blocks=pushes, stop_blocks=[h])
                dropped = h in reach or any(b in reach for b in f.returns())
                r.instance(rid, "group_imports: every tree taken from the run is pushed into a group", "violation" if dropped else "ok",
                           nx.loc(), "%d push sites" % len(pushes))
                if dropped:
                    r.violation(rid, "group_imports drops a use tree on some path",
                                "the loop can go on to the next element (or return) without having pushed the current one into a group: "
                                "the tree, and the comments it carries, vanish from the output", [nx.loc()])
    r.floor(rid, n, 1, "element-taking loops in group_imports")


def single_line_bodies_have_no_comment(ctx, rid):
    """R03-k: a function body is collapsed to `{ stmt }` only when the braces enclose no comment at all"""
    from absint import explore, vkey, TooManyPaths
    from common import answer_implies
    p, r = ctx.p, ctx.r
    r.rule(rid, "FmtVisitor::single_line_fn (fn_single_line) replaces everything between the braces of a body by the rewrite of its "
                "one statement and moves `last_pos` past the closing brace: whatever else stood between the braces is not copied "
                "by anybody.  On every path that returns `Some(\"… { stmt }\")` — the paths that decided `fn_single_line() = true` — "
                "`block_contains_comment(block)` answered false, directly or through a predicate whose true answer implies it "
                "(`is_simple_block_stmt`).  A weaker test (\"the rewritten statement contains *a* comment\") loses the comments "
                "outside the statement")
    f = p.named("single_line_fn", within="FmtVisitor")
    if f is None:
        r.undecidable(rid, "FmtVisitor::single_line_fn not found")
        return
    try:
        paths = explore(f, pure=lambda c: True, max_paths=20000, program=p)
    except TooManyPaths as e:
        r.undecidable(rid, str(e))
        return
    implied = {}
    n = 0
    bad = 0
    for pa in paths:
        if pa.end != "ret" or pa.ret is None or not vkey(pa.ret).startswith("Some"):
            continue
        if not any("fn_single_line(" in k and v is True for k, v in pa.decisions):
            continue
        n += 1
        ok = any("block_contains_comment(" in k and v is False for k, v in pa.decisions)
        if not ok:
            for k, v in pa.decisions:
                if v is not True or "(" not in k:
                    continue
                name = k.split("(", 1)[0]
                if name not in implied:
                    hs = [h for h in p.by_crate["rustfmt_nightly"] if h.kind != "Closure" and h.id.endswith(name) and h.locals[0] == "bool"]
                    implied[name] = len(hs) == 1 and answer_implies(p, hs[0], True, [[("block_contains_comment(", False)]])
                if implied[name]:
                    ok = True
        if not ok:
            bad += 1
    r.instance(rid, "single_line_fn: every collapsing path knows the body has no comment", "violation" if bad else "ok",
               "%s:%d" % (f.file, f.line), "%d collapsing paths" % n)
    if bad:
        r.violation(rid, "single_line_fn collapses a body without having established that it contains no comment",
                    "%d of %d paths that return `{ stmt }` never saw block_contains_comment(block) = false (nor a predicate implying "
                    "it): comments between the braces but outside the statement vanish" % (bad, n), ["%s:%d" % (f.file, f.line)])
    r.floor(rid, n, 1, "collapsing paths of single_line_fn")


def doc_openers_are_recognised_as_the_lexer_does(ctx, rid):
    """R03-l / R01-v: comment_style calls a comment a doc comment only when rustc's lexer does"""
    import re
    p, r = ctx.p, ctx.r
    r.rule(rid, "comment::comment_style decides which opener a rewritten comment gets; with normalize_comments a block comment is "
                "rewritten with `//`-style openers, so answering TripleSlash / Doc *creates* a `///` / `//!` line. rustc's lexer "
                "takes `///` for a doc comment unless a fourth `/` follows, and `/**` unless `*` or `/` follows (`/*** x */` and "
                "`/**/` are plain comments). Decision table over the prefix tests of every path that returns TripleSlash: the "
                "path decided (`///` ∧ the fourth character is not `/`) or (`/**` ∧ ¬`/**/` ∧ ¬`/***`). A path that accepts "
                "`/**` without excluding `/***` turns the plain comment `/*** x */` into the doc comment `/// * x` — a doc "
                "attribute the program did not have")
    f = p.named("comment_style", within="rustfmt_nightly::comment")
    if f is None:
        r.undecidable(rid, "comment::comment_style not found")
        return
    try:
        # helpers of the module that hold some of the prefix tests (`has_triple_slash_opener(orig)`) are looked into
        def opaque(c):
            h = p.fns.get(c.name)
            return not (h is not None and h.id.startswith("rustfmt_nightly::comment::") and h.id != f.id
                        and "bool" == h.locals[0] and any(x.name.endswith("str>::starts_with") for x in h.calls())
                        and not h.id.endswith("is_custom_comment"))
        paths = explore(f, pure=opaque, max_paths=20000, program=p, inline="auto")
    except TooManyPaths as e:
        r.undecidable(rid, str(e))
        return
    r.paths(rid, len(paths))
    n = 0
    bad = {}
    for pa in paths:
        if pa.end != "ret" or pa.ret is None or vkey(pa.ret) != "TripleSlash":
            continue
        pre = {}
        fourth = None
        for k, v in pa.decisions:
            m = re.search(r"starts_with\(arg1,\"([^\"]*)\"\)$", k)
            if m and isinstance(v, bool):
                pre[m.group(1)] = v
            if "Iterator::nth(" in k and "chars(arg1),3)" in k and isinstance(v, bool):
                fourth = v
        line = pre.get("///") is True and fourth is True
        block = pre.get("/**") is True and pre.get("/**/") is False and pre.get("/***") is False
        infeasible = (pre.get("///") is True and pre.get("/**") is True) or (pre.get("/**") is True and pre.get("/*") is False) \
            or (pre.get("/**/") is True and pre.get("/**") is False) or (pre.get("/***") is True and pre.get("/**") is False)
        if infeasible:
            continue
        n += 1
        ok = line or block
        key = "comment_style → TripleSlash under {%s%s}" % (", ".join("%s%s" % ("" if v else "¬", k) for k, v in sorted(pre.items())),
                                                            "" if fourth is None else (", 4th≠/" if fourth else ", 4th=/"))
        r.cells(rid, 1)
        r.instance(rid, key, "ok" if ok else "violation", "%s:%d" % (f.file, f.line))
        if not ok:
            bad[key] = True
    for key in sorted(bad)[:3]:
        r.violation(rid, key, "a comment is given the `///` opener on a path that has not excluded the plain-comment spellings "
                              "`////…` / `/***…` / `/**/`: with normalize_comments `/*** x */` becomes the doc comment `/// * x`",
                    ["%s:%d" % (f.file, f.line)])
    r.floor(rid, n, 2, "feasible paths of comment_style that answer TripleSlash")


def every_statement_is_visited(ctx, rid):
    """R03-m: walk_stmts hands on the rest of the statement list without stepping over an element"""
    from common import blocks_dominate, rvalue_operands
    p, r = ctx.p, ctx.r
    r.rule(rid, "FmtVisitor::walk_stmts visits the statements of a block front to back and calls itself on the rest: "
                "`walk_stmts(&stmts[k..], ..)`. The text between two statements — blank lines and comments — is emitted by the "
                "visit of the *next* statement (format_missing up to its start), so a statement that is stepped over takes the "
                "comments before it along. At every self-call whose slice starts at a constant k, at least k calls of "
                "visit_stmt dominate the call (k = 1 after `visit_stmt(&stmts[0])`); a start that is not a constant is the "
                "length of the item list handed to visit_items_with_reordering on the same path")
    fs = [g for g in p.by_crate["rustfmt_nightly"] if g.id.endswith("FmtVisitor::<'a>::walk_stmts")]
    if len(fs) != 1:
        r.undecidable(rid, "FmtVisitor::walk_stmts not found")
        return
    f = fs[0]
    visits = [c for c in f.calls() if c.name.endswith("::visit_stmt")]
    reorder = [c for c in f.calls() if c.name.endswith("::visit_items_with_reordering")]
    n = 0
    for c in f.calls():
        if c.name != f.id:
            continue
        n += 1
        a = c.args[1] if len(c.args) > 1 else None
        d = f.derived_from(a[1][0]) if a and a[0] != "k" else {"calls": [], "consts": []}
        idx = [x for x in d["calls"] if "ops::Index<" in x.name and x.name.endswith("::index")]
        start = None
        kind = "unknown"
        if len(idx) == 1 and len(idx[0].args) > 1 and idx[0].args[1][0] != "k":
            for bb, k_, st in f.defs().get(idx[0].args[1][1][0], []):
                if k_ == "assign" and not isinstance(st, Call) and st[2][0] == "agg" and "RangeFrom" in str(st[2][1]):
                    op = st[2][2][0]
                    if op[0] == "k":
                        start, kind = op[2], "const"
                    else:
                        dd = f.derived_from(op[1][0])
                        if any(x.name.endswith("Vec::<T, A>::len") or x.name.endswith("::len") for x in dd["calls"]):
                            kind = "len"
        elif not idx and any(x.name.endswith("]>::split_first") for x in d["calls"]):
            start, kind = 1, "const"      # `let Some((first, rest)) = stmts.split_first()`: rest is stmts[1..]
        elif not idx and a and a[0] != "k":
            kind = "whole"
        dom_visits = [v for v in visits if blocks_dominate(f, [v.bb], c.bb)]
        if kind == "const":
            ok = isinstance(start, int) and start <= len(dom_visits)
            detail = "stmts[%s..] after %d visit_stmt call(s)" % (start, len(dom_visits))
        elif kind == "len":
            ok = any(blocks_dominate(f, [v.bb], c.bb) for v in reorder)
            detail = "stmts[<len>..] after visit_items_with_reordering: %s" % ok
        else:
            ok = False
            detail = "slice start not understood (%s)" % kind
            r.undecidable(rid, "walk_stmts: the slice of a self-call is neither stmts[k..] nor stmts[items.len()..]")
            continue
        r.instance(rid, "walk_stmts → walk_stmts(%s)" % detail, "ok" if ok else "violation", c.loc())
        if not ok:
            r.violation(rid, "walk_stmts steps over a statement (%s)" % detail,
                        "the rest of the list starts behind a statement nobody visited: its text and the comments in front of "
                        "it are never emitted (`struct S; // note` + `;` loses `// note`)", [c.loc()])
    r.floor(rid, n, 2, "self-calls of walk_stmts")
