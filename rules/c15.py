"""C15 — output is a function of source and configuration only (necessary conditions).

R15-a ambient inputs (who-may-call) · R15-b hash-order-sensitive iteration · R15-c global mutable state
R15-d session-state write discipline · R15-e per-input loop discipline (= R05-d)
"""
import re

import effects
from absint import explore, vkey, TooManyPaths
from common import short

HASH_RX = re.compile(r"std::collections::(hash_map|hash_set|HashMap|HashSet)|hashbrown::")
PRODUCERS = ("iter", "iter_mut", "keys", "values", "values_mut", "into_iter", "drain", "into_keys", "into_values")
INSENSITIVE_CONSUMERS = ("any", "all", "count", "sum", "min", "max", "contains", "is_empty", "len", "min_by_key",
                         "max_by_key", "product")
ADAPTORS = ("map", "filter", "filter_map", "flat_map", "cloned", "copied", "chain", "flatten", "by_ref", "peekable",
            "into_iter", "inspect")
UNORDERED_SINKS = re.compile(r"std::collections::(HashSet|HashMap|BTreeSet|BTreeMap)")


def is_hash_producer(c):
    n = c.name
    last = effects.strip_generics(n).rsplit("::", 1)[-1]
    if last not in PRODUCERS:
        return False
    if HASH_RX.search(n):
        return True
    # <&HashMap as IntoIterator>::into_iter etc. are covered by the name; generic IntoIterator on a hash iterator:
    return False


SORTS = ("::sort", "::sort_by", "::sort_by_key", "::sort_unstable", "::sort_unstable_by", "::sort_unstable_by_key", "::sort_by_cached_key")


def _sorted_before_use(fn, collect_call):
    """the Vec produced by `collect` is sorted (slice::sort*) in a block that dominates every other call reading it"""
    if collect_call.dest[1]:
        return False
    v = collect_call.dest[0]
    dom = fn.dominators()
    sorts, others = [], []
    for x in fn.calls():
        if x is collect_call:
            continue
        uses = False
        for a in x.args:
            if a[0] != "k":
                d = fn.derived_from(a[1][0])
                if v in d["locals"] or a[1][0] == v:
                    uses = True
        if not uses:
            continue
        last = x.name.rsplit("::", 1)[-1]
        if any(x.name.endswith(s_) for s_ in SORTS) and "slice" in x.name:
            sorts.append(x)
        elif last in ("deref", "deref_mut", "as_mut_slice", "as_mut", "borrow_mut"):
            continue
        else:
            others.append(x)
    if not sorts:
        return False
    return all(any(s_.bb in dom.get(o.bb, ()) and s_.bb != o.bb for s_ in sorts) for o in others)


def classify_consumer(p, fn, c, depth=0):
    """('insensitive'|'sensitive', why) for the value produced by call c in fn"""
    if depth > 6:
        return ("sensitive", "adaptor chain too long")
    if c.dest[1]:
        return ("sensitive", "stored into a place")
    d = c.dest[0]
    if d == 0:
        return ("sensitive", "returned to the caller (consumer unknown)")
    users = []
    for cc in fn.calls():
        for i, a in enumerate(cc.args):
            if a[0] in ("c", "m") and a[1][0] == d and cc is not c:
                users.append((cc, i))
    # moved through a temporary
    for bb, i, s in fn.stmts():
        if s[0] == "=" and s[2][0] in ("use", "ref") and not s[1][1]:
            src = s[2][1] if s[2][0] == "use" else ["c", s[2][2]]
            if src[0] in ("c", "m") and src[1][0] == d:
                if s[1][0] == 0:
                    return ("sensitive", "returned to the caller (consumer unknown)")
                for cc in fn.calls():
                    for j, a in enumerate(cc.args):
                        if a[0] in ("c", "m") and a[1][0] == s[1][0]:
                            users.append((cc, j))
    if not users:
        return ("sensitive", "no consumer found in the function")
    verdicts = []
    for (cc, i) in users:
        last = effects.strip_generics(cc.name).rsplit("::", 1)[-1]
        if cc.declared and cc.declared.startswith("std::iter::Iterator::") or "Itertools" in (cc.declared or ""):
            if last in INSENSITIVE_CONSUMERS:
                verdicts.append(("insensitive", last))
                continue
            if last == "collect" or last == "extend":
                tgt = " ".join(cc.ga)
                if UNORDERED_SINKS.search(tgt.split(" ")[-1] if cc.ga else ""):
                    verdicts.append(("insensitive", "collect into an unordered/sorted collection"))
                elif last == "collect" and _sorted_before_use(fn, cc):
                    verdicts.append(("insensitive", "collected into a Vec that is sorted before anything else reads it"))
                else:
                    verdicts.append(("sensitive", "collected into %s" % (cc.ga[-1] if cc.ga else "?")))
                continue
            if last in ADAPTORS:
                verdicts.append(classify_consumer(p, fn, cc, depth + 1))
                continue
            if last == "next":
                verdicts.append(("sensitive", "explicit loop over the iterator"))
                continue
            verdicts.append(("sensitive", "consumer %s" % last))
            continue
        if cc.declared == "std::iter::IntoIterator::into_iter":
            verdicts.append(classify_consumer(p, fn, cc, depth + 1))
            continue
        if cc.declared == "std::iter::Extend::extend" and UNORDERED_SINKS.search(" ".join(cc.ga)):
            verdicts.append(("insensitive", "extend of an unordered/sorted collection"))
            continue
        verdicts.append(("sensitive", "passed to %s" % short(cc.name)))
    bad = [v for v in verdicts if v[0] == "sensitive"]
    return bad[0] if bad else verdicts[0]


def run(ctx):
    p, r = ctx.p, ctx.r
    tab = ctx.table("C15")

    # R15-a ---------------------------------------------------------------------------------------
    r.rule("R15-a", "who-may-call: every call to an ambient-input API (env, cwd, clock, home dirs, stdin, thread, rand) is "
                    "listed in tables/C15.toml with its caller and the reason it cannot reach the bytes produced for a file")
    allowed = {(e["fn"], e["api"]): e["reason"] for e in tab.get("ambient", [])}
    n = 0
    for c in p.all_calls():
        api = effects.strip_generics(c.name)
        if not effects.AMBIENT_RX.search(api):
            continue
        n += 1
        owner = c.fn.id
        root = c.fn.root or owner
        reason = allowed.get((owner, api)) or allowed.get((root, api))
        if not reason:
            # tolerate a move of the function inside its module (e.g. a nested fn hoisted to module level)
            def modname(x):
                parts = x.replace("<", "").split("::")
                return (tuple(parts[:2]), parts[-1])
            for (fn_, api_), why in allowed.items():
                if api_ == api and modname(fn_) == modname(root):
                    reason = why
        if not reason:
            # a private helper whose every caller chain ends in exactly one function that is allowed this API
            import c05
            ent = c05._sole_allowed_ancestor(p, root, {fn_: {"api": api_, "reason": why} for (fn_, api_), why in allowed.items() if api_ == api})
            if ent is not None:
                reason = ent["reason"]
        r.instance("R15-a", "%s -> %s" % (short(owner), api), "allowed" if reason else "violation", c.loc(), reason or "")
        if not reason:
            r.violation("R15-a", "ambient input: %s calls %s" % (short(owner), api),
                        "%s reads ambient state through %s; formatting must depend on the source and the configuration only"
                        % (short(owner), api), [c.loc()])
    r.floor("R15-a", n, 20, "ambient-input call sites")
    # Timer values reach only Timer methods and the verbose println closure
    tfns = [f for f in p.fns.values() if f.id.startswith("rustfmt_nightly::formatting::Timer::")]
    users = set()
    for f in p.fns.values():
        for c in f.calls():
            if c.name.startswith("rustfmt_nightly::formatting::Timer::"):
                users.add(f.root or f.id)
    ok_users = {"rustfmt_nightly::formatting::format_project"} | {f.id for f in tfns}
    extra = users - ok_users
    r.instance("R15-a", "Timer users", "ok" if not extra else "violation", "src/formatting.rs", str(sorted(short(u) for u in users)))
    if extra:
        r.violation("R15-a", "Timer used by %s" % sorted(short(u) for u in extra)[0],
                    "wall-clock values are consumed outside format_project's verbose timing line", [])

    # R15-b ---------------------------------------------------------------------------------------
    r.rule("R15-b", "every iteration over a HashMap/HashSet is consumed order-insensitively (any/all/count/min/max/contains, "
                    "collect/extend into a set or map) or its function is listed in tables/C15.toml with an argument")
    listed = {e["fn"]: e for e in tab.get("hash_iter", [])}
    seen_listed = set()
    n = 0
    for c in p.all_calls():
        if c.fn.crate == "build_script_build":
            continue
        if not is_hash_producer(c):
            continue
        n += 1
        owner = c.fn.id
        root = c.fn.root or owner
        kind, why = classify_consumer(p, c.fn, c)
        ent = listed.get(owner) or listed.get(root)
        if kind == "insensitive":
            r.instance("R15-b", c.key(), "order-insensitive", c.loc(), why)
            continue
        if ent:
            seen_listed.add(ent["fn"])
            r.instance("R15-b", c.key(), "listed:" + ent["class"], c.loc(), ent["reason"], nontrivial=False)
            continue
        r.instance("R15-b", c.key(), "violation", c.loc(), why)
        r.violation("R15-b", "hash-order iteration: %s -> %s" % (short(owner), short(effects.strip_generics(c.name))),
                    "iteration order of a hash collection reaches an order-sensitive consumer (%s); the order differs from "
                    "process to process" % why, [c.loc()])
    r.floor("R15-b", n, 7, "hash-iteration producer sites")

    # R15-c ---------------------------------------------------------------------------------------
    r.rule("R15-c", "no global mutable state: every static is Freeze and immutable, or one of the allowed types "
                    "(tracing call-site statics, OnceLock<Regex> caches); no thread_local")
    ns = 0
    for s in p.statics:
        if s["crate"] == "build_script_build":
            continue
        ns += 1
        ty = s["ty"]
        ok = False
        why = ""
        if ty.startswith("std::thread::LocalKey"):
            why = "thread-local state"
        elif s["mut"]:
            why = "static mut"
        elif s["freeze"]:
            ok = True
            why = "immutable, Freeze"
        elif ty == "tracing::callsite::DefaultCallsite" or ty.startswith("tracing_core::callsite::DefaultCallsite"):
            ok = True
            why = "tracing call-site registration (logging only)"
        elif ty == "std::sync::OnceLock<regex::Regex>":
            ok = True
            why = "write-once cache of a constant regular expression"
        else:
            why = "interior-mutable static of type %s" % ty
        if not ok or not s["freeze"]:
            r.instance("R15-c", s["id"], "ok" if ok else "violation", "%s:%s" % (s["file"], s["line"]), why,
                       nontrivial=not s["freeze"])
        if not ok:
            r.violation("R15-c", "global state: %s" % short(s["id"]),
                        "%s: %s — state that survives from one formatted file to the next" % (short(s["id"]), why),
                        ["%s:%s" % (s["file"], s["line"])])
    r.rules["R15-c"]["instances"] += 0
    r.floor("R15-c", ns, 100, "static items examined")
    r.note("R15-c: %d statics examined" % ns)

    session_state(ctx, "R15-d")
    accumulated_state_is_write_only(ctx, "R15-g")
    input_paths_are_canonical(ctx, "R15-h")
    import c11
    c11.names_are_ordered_by_their_text(ctx, "R15-i")     # shared with C11: an order by interner index depends on what was lexed before

    import c05
    c05.check_input_loop(ctx, "R15-e")
    loop_state(ctx, "R15-f")


SESSION = "rustfmt_nightly::Session"
FIELD_WRITERS = {
    "config": {"override_config"},
    "errors": {"add_operational_error", "format_input_inner"},
    "source_file": {"handle_formatted_file"},
    "emitter": {"handle_formatted_file", "drop"},
    "out": {"handle_formatted_file", "drop"},
}


def session_state(ctx, rid):
    p, r = ctx.p, ctx.r
    r.rule(rid, "Session fields are written only by their designated methods; ReportedErrors::add only ORs flags in; "
                "override_config is swap → callback → swap; ParseSess and FormatReport are created per input")
    idx = p.field_index()
    nf = 0
    for (adt, var, field), modes in idx.items():
        if adt != SESSION:
            continue
        for fid in sorted(modes.get("w", ())):
            f = p.fns[fid]
            name = (p.fns[f.root].name if f.root and f.root in p.fns else f.name) or ""
            nf += 1
            ok = name in FIELD_WRITERS.get(field, set())
            if not ok:
                # a private helper all of whose callers are designated writers of the field (a closure body given a name)
                import c05
                allowed = {g.id: g.name for g in p.fns.values() if (g.name or "") in FIELD_WRITERS.get(field, set())
                           and g.crate == f.crate}
                ok = c05._sole_allowed_ancestor(p, f.root or fid, allowed) is not None
            r.instance(rid, "Session.%s written by %s" % (field, short(fid)), "ok" if ok else "violation",
                       "%s:%d" % (f.file, f.line))
            if not ok:
                r.violation(rid, "Session.%s written by %s" % (field, short(fid)),
                            "session state that outlives one input is modified outside its designated methods: the result "
                            "for a later input may depend on the inputs before it", ["%s:%d" % (f.file, f.line)])
    r.floor(rid, nf, 5, "writers of Session fields")
    # ReportedErrors::add is monotone
    add = p.named("add", within="ReportedErrors")
    if add is None:
        r.undecidable(rid, "ReportedErrors::add not found")
    else:
        paths = explore(add)
        r.paths(rid, len(paths))
        stores = 0
        for path in paths:
            for e in path.effects:
                if e.kind != "store":
                    continue
                stores += 1
                v = e.args[0]
                field = e.name.rsplit(".", 1)[-1]
                ok = (v[0] == "k" and v[1] is True) or (
                    v[0] == "bin" and v[1] == "BitOr" and vkey(v[2]).endswith("." + field) and vkey(v[3]).endswith("." + field))
                if not ok and vkey(v).endswith("." + field) and vkey(v).startswith("arg2"):
                    # `self.f = self.f || other.f`: on the path on which self.f was false, the other summary's flag is the OR
                    ok = any(val is False and k.startswith("arg1") and k.endswith("." + field) for k, val in path.decisions[:e.ndec])
                r.instance(rid, "ReportedErrors::add %s" % field, "ok" if ok else "violation",
                           "%s:%d" % (add.file, e.line), vkey(v))
                if not ok:
                    r.violation(rid, "ReportedErrors::add: %s not monotone" % field,
                                "flag %s is assigned %s instead of being OR-ed in: an earlier input's error can be lost or "
                                "invented" % (field, vkey(v)), ["%s:%d" % (add.file, e.line)])
        r.floor(rid, stores, 5, "flag updates in ReportedErrors::add")
    oc = p.named("override_config", within="Session")
    if oc is None:
        r.undecidable(rid, "Session::override_config not found")
    else:
        def eff(c):
            return c.name.startswith("std::mem::swap") or c.declared == "std::ops::FnOnce::call_once"
        paths = explore(oc, is_effect=eff)
        r.paths(rid, len(paths))
        for path in paths:
            if path.end != "ret":
                continue
            seq = ["swap" if "swap" in e.name else "callback" for e in path.effects if e.kind == "call"]
            ok = seq == ["swap", "callback", "swap"]
            r.instance(rid, "override_config sequence", "ok" if ok else "violation", "%s:%d" % (oc.file, oc.line), ">".join(seq))
            if not ok:
                r.violation(rid, "override_config: %s" % ">".join(seq),
                            "the per-file configuration is not swapped in before and out after the callback (%s): a later input "
                            "would be formatted with an earlier input's configuration" % ">".join(seq),
                            ["%s:%d" % (oc.file, oc.line)])
    fp = p.fn("rustfmt_nightly::formatting::format_project")
    if fp is not None:
        for nm in ("rustfmt_nightly::parse::session::ParseSess::new", "rustfmt_nightly::FormatReport::new"):
            ok = any(c.name == nm for c in fp.calls())
            r.instance(rid, "format_project creates %s" % short(nm), "ok" if ok else "violation", "%s:%d" % (fp.file, fp.line))
            if not ok:
                r.violation(rid, "format_project: %s not created per input" % short(nm),
                            "%s is no longer constructed inside format_project" % short(nm), ["%s:%d" % (fp.file, fp.line)])
    sess = p.adts.get(SESSION)
    if sess:
        for v in sess["variants"]:
            for (fname, fty) in v["fields"]:
                bad = "ParseSess" in fty or "FormatReport" in fty or "HashMap" in fty or "HashSet" in fty
                if fname not in FIELD_WRITERS:
                    r.violation(rid, "Session has a new field `%s`" % fname,
                                "a new field of type %s on the long-lived Session: state shared between inputs" % fty,
                                ["src/lib.rs"])
                elif bad:
                    r.violation(rid, "Session.%s caches %s" % (fname, fty), "per-input state kept on the Session", ["src/lib.rs"])


def loop_state(ctx, rid):
    """R15-f: nothing but the iterator and the Session is carried from one input to the next"""
    from common import loops_of, loop_carried
    p, r = ctx.p, ctx.r
    r.rule(rid, "bin `format`: liveness over the per-input loop — the only locals whose value survives from one iteration to the "
                "next are the input iterator and the Session (whose writes are governed by R15-d); any other loop-carried local "
                "(a cache, a `last config`, a counter that reaches formatting) makes an input's result depend on the inputs before it")
    f = p.fns.get("rustfmt::format")
    if f is None:
        r.undecidable(rid, "rustfmt::format not found")
        return
    n = 0
    for lp in loops_of(f):
        hdrs = [c.bb for c in f.calls() if c.bb in lp["blocks"] and c.declared == "std::iter::Iterator::next"]
        body_calls = [c for c in f.calls() if c.bb in lp["blocks"]]
        if not any(c.name.endswith("format_and_emit_report") or c.name.endswith("::override_config") for c in body_calls):
            continue
        for h in hdrs:
            n += 1
            for l in sorted(loop_carried(f, lp["blocks"], h)):
                ty = f.locals[l]
                name = f.local_names.get(l, "_%d" % l)
                ok = ty.startswith("rustfmt_nightly::Session<") or "::IntoIter<" in ty or "::Iter<" in ty
                if ty == "bool":
                    ds = f.defs().get(l, [])
                    if all(k == "assign" and pl[2][0] == "use" and pl[2][1][0] == "k" for (bb, k, pl) in ds):
                        continue   # drop flag
                r.instance(rid, "loop-carried local `%s`: %s" % (name, short(ty)[:60]), "ok" if ok else "violation",
                           "%s:%d" % (f.file, f.line))
                if not ok:
                    r.violation(rid, "format: local `%s` (%s) is carried across inputs" % (name, short(ty)[:50]),
                                "`%s` is written in one iteration of the per-input loop and read in a later one: what is produced "
                                "for a file depends on the files before it on the command line" % name,
                                ["%s:%d" % (f.file, f.line)])
    r.floor(rid, n, 1, "per-input loops analysed")


def accumulated_state_is_write_only(ctx, rid):
    """R15-g: what a Session remembers about earlier inputs never reaches a decision about a later one"""
    p, r = ctx.p, ctx.r
    r.rule(rid, "`Session::source_file` (the files emitted so far, kept for tests and the library user) is written by "
                "handle_formatted_file and read by no function of the library; and `formatting::should_skip_module` — the one "
                "place that decides which files of an input are formatted — calls nothing but its five tests (contains_skip, "
                "skip_children, ignore_file, format_generated_files / is_generated_file and the source lookup for it): in "
                "particular no method of the FormatHandler (the Session).  A file that is skipped because an *earlier input* "
                "already produced it is formatted under that input's configuration only, and the later occurrence contributes "
                "neither bytes nor exit status")
    idx = p.field_index()
    readers = set()
    for (adt, var, field), modes in idx.items():
        if adt == SESSION and field == "source_file":
            readers |= {fid for fid in modes.get("r", ()) if "::test" not in fid and "unit_tests" not in fid}
    r.instance(rid, "readers of Session.source_file in the library: %s" % sorted(short(x) for x in readers), "violation" if readers else "ok",
               "src/lib.rs")
    for fid in sorted(readers)[:2]:
        f = p.fns[fid]
        r.violation(rid, "Session.source_file is read by %s" % short(fid),
                    "the list of files emitted earlier in the session feeds a computation of the library", ["%s:%d" % (f.file, f.line)])
    sm = p.fn("rustfmt_nightly::formatting::should_skip_module")
    if sm is None:
        r.undecidable(rid, "formatting::should_skip_module not found")
        return
    ALLOWED = ("contains_skip", "skip_children", "ignore_file", "format_generated_files", "is_generated_file", "span_to_file_contents",
               "attrs", "as_ref", "expect", "eq", "ne", "deref")
    unit = [sm] + [g for g in p.by_crate["rustfmt_nightly"] if g.id.startswith(sm.id + "::{closure")]
    # a private helper that only should_skip_module (or such a helper) calls is part of the unit: its calls are audited instead
    for _ in range(3):
        ids = {g.id for g in unit}
        grew = False
        for g in list(unit):
            for c in g.calls():
                h = p.fns.get(c.name)
                if h is None or h.id in ids or h.crate != "rustfmt_nightly" or "::formatting::" not in h.id or h.vis == "pub" \
                        or c.name.rsplit("::", 1)[-1] in ALLOWED:
                    continue
                callers = {src for (src, kind, cc) in p.callers().get(h.id, [])}
                if callers and all(x in ids or any(x.startswith(i + "::{closure") for i in ids) for x in callers):
                    unit.append(h)
                    unit += [k for k in p.by_crate["rustfmt_nightly"] if k.id.startswith(h.id + "::{closure")]
                    ids.add(h.id)
                    grew = True
        if not grew:
            break
    unit_ids = {g.id for g in unit}
    odd = [c for g in unit for c in g.calls() if c.name.rsplit("::", 1)[-1] not in ALLOWED and c.name not in unit_ids
           and (c.name.startswith("rustfmt_nightly::") or c.name.startswith("<rustfmt_nightly::") or (c.declared or "").startswith("rustfmt_nightly::"))]
    r.instance(rid, "should_skip_module consults only its five tests", "violation" if odd else "ok", "%s:%d" % (sm.file, sm.line),
               str(sorted({short(c.name) for c in odd}))[:120])
    if odd:
        r.violation(rid, "should_skip_module consults %s" % short(odd[0].name),
                    "which files are formatted depends on something besides the skip attribute, skip_children, the ignore list and "
                    "@generated", [odd[0].loc()])


def input_paths_are_canonical(ctx, rid):
    """R15-h: a file named on the command line is known by its canonical path, like the directory its configuration came from"""
    p, r = ctx.p, ctx.r
    r.rule(rid, "sibling agreement on path spelling: the configuration of a file is looked up from the *canonical* directory "
                "(config::get_toml_path / resolve_project_file canonicalise), and that directory is the root the `ignore` "
                "patterns are matched under. So every path that rustfmt::determine_operation turns into an input file is the "
                "result of `Path::canonicalize` — the path as typed only on its error edge (`unwrap_or(p)`). A path that is merely "
                "made absolute keeps `..` and symbolic links: `../src/gen.rs` from a sibling directory no longer starts with "
                "the ignore root, and the same file is skipped from one working directory and formatted from another")
    fam = [f for f in p.fns.values() if f.crate == "rustfmt" and (f.root or f.id) == "rustfmt::determine_operation"]
    makers = [f for f in fam if f.locals[0] == "std::path::PathBuf"]
    # `.map(canonicalize_or_keep)`: a function of the binary handed to an adaptor (or called) in determine_operation
    for f in fam:
        for c in f.calls():
            for gid in list(c.refs) + [c.name]:
                g = p.fns.get(gid)
                if g is not None and g.crate == "rustfmt" and g.locals[0] == "std::path::PathBuf" and g not in makers and g not in fam:
                    makers.append(g)
    # the loop form: `files.push(path.canonicalize().unwrap_or(path))` in determine_operation itself
    pushes = []
    for f in fam:
        for c in f.calls():
            if c.name.endswith("Vec::<T, A>::push") and len(c.args) > 1 and c.args[1][0] != "k" and f.locals[c.args[1][1][0]] == "std::path::PathBuf":
                pushes.append((f, c))
    for (f, c) in pushes:
        calls = f.derived_from(c.args[1][1][0])["calls"]
        canon = [x for x in calls if x.name.endswith("Path::canonicalize") or x.name.endswith("fs::canonicalize")]
        other = [x for x in calls if x.name.endswith("path::absolute") or x.name.endswith("env::current_dir")]
        ok = bool(canon) and not other
        r.instance(rid, "%s: pushed input path" % short(f.id), "ok" if ok else "violation", c.loc(), "derives from canonicalize: %s" % bool(canon))
        if not ok:
            r.violation(rid, "determine_operation stores an input path that is not canonical",
                        "the PathBuf pushed in %s does not derive from Path::canonicalize alone: the ignore list and the "
                        "per-directory configuration are resolved from canonical directories" % short(f.id), [c.loc()])

    def sources(g, depth=0):
        # calls the returned path derives from, looking into helpers of the binary that build it
        out = []
        for c in g.derived_from(0)["calls"]:
            h = p.fns.get(c.name)
            if h is not None and h.crate == "rustfmt" and depth < 2 and "PathBuf" in h.locals[0]:
                out += sources(h, depth + 1)
            else:
                out.append(c)
        return out
    for f in makers:
        calls = sources(f)
        canon = [c for c in calls if c.name.endswith("Path::canonicalize") or c.name.endswith("fs::canonicalize")]
        other = [c for c in calls if c.name.endswith("path::absolute") or c.name.endswith("env::current_dir")]
        ok = bool(canon) and not other
        r.instance(rid, "%s: input path" % short(f.id), "ok" if ok else "violation", "%s:%d" % (f.file, f.line),
                   "derives from canonicalize: %s%s" % (bool(canon), (", also from %s" % [short(c.name) for c in other]) if other else ""))
        if not ok:
            r.violation(rid, "determine_operation stores an input path that is not canonical",
                        "the PathBuf built by %s %s: the ignore list and the per-directory configuration are resolved from "
                        "canonical directories, so the result depends on how the path was typed and on the working directory"
                        % (short(f.id), "does not derive from Path::canonicalize" if not canon else
                           "derives from %s" % [short(c.name) for c in other]), ["%s:%d" % (f.file, f.line)])
    cfg = [c for c in p.all_calls() if c.fn.crate == "rustfmt_nightly" and "::config::" in c.fn.id
           and (c.name.endswith("fs::canonicalize") or c.name.endswith("Path::canonicalize"))]
    r.floor(rid, len(makers) + len(pushes), 1, "places of determine_operation that build an input path")
    r.floor(rid, len(cfg), 2, "canonicalize calls in the configuration lookup")
