"""C17 — file_lines confines changes to the selected code (partial).

R17-a out-of-range test dominates formatting at each entry, skip edge verbatim-only · R17-b no existential guard over a group
R17-c FileLines(Some) only after normalize_ranges; Range immutable; Range::merge table · R17-d diagnostics gated by format_line
"""
from absint import explore, vkey, variant_name, TooManyPaths
from common import short, bool_branches, edge_dominates

IS_ALL = "rustfmt_nightly::config::file_lines::FileLines::is_all"
INTERSECTS = "rustfmt_nightly::config::file_lines::FileLines::intersects"
ENTRIES = ("visit_item", "visit_assoc_item", "visit_mac", "format_expr", "format_stmt", "rewrite_result")


def formatter(c):
    n = c.name
    last = n.rsplit("::", 1)[-1]
    if c.declared and c.declared.startswith("rustfmt_nightly::rewrite::Rewrite::rewrite"):
        return True
    if not n.startswith("rustfmt_nightly::") and not n.startswith("<rustfmt_nightly::"):
        return False
    if last.startswith("format_missing") or last in ("push_rewrite", "push_rewrite_inner", "push_str", "snippet"):
        return False
    return last.startswith("rewrite") or last.startswith("format_") or last.startswith("visit_") or last.startswith("walk_") \
        or last in ("push_skipped_with_span",)


def guards_in(fn):
    """(is_all call, intersects call) pairs of the expanded out_of_file_lines_range! in fn"""
    ia = [c for c in fn.calls() if c.name == IS_ALL]
    it = [c for c in fn.calls() if c.name == INTERSECTS]
    pairs = []
    for a in ia:
        cands = [b for b in it if b.bb in fn.reachable(a.bb)]
        if cands:
            pairs.append((a, min(cands, key=lambda b: b.bb)))
    return pairs


def run(ctx):
    p, r = ctx.p, ctx.r
    r.rule("R17-a", "at every visitor / rewriter entry the expansion of out_of_file_lines_range! (FileLines::is_all + intersects "
                    "on lookup_line_range(span)) dominates all formatting calls on its in-range edges, and the out-of-range edge "
                    "reaches the return through verbatim-only calls (path-sensitive exploration)")
    n = 0
    seen_entries = set()
    for f in p.by_crate["rustfmt_nightly"]:
        if f.kind == "Closure":
            continue
        pairs = guards_in(f)
        if not pairs:
            continue
        for (a, b) in pairs:
            ab = bool_branches(f, a.dest[0])
            bb_ = bool_branches(f, b.dest[0])
            if not ab or not bb_:
                r.violation("R17-a", "%s: file-lines test result unused" % short(f.id),
                            "the result of is_all/intersects does not decide a branch", [a.loc()])
                continue
            go_edges = [(sw, t) for (sw, t, fl) in ab] + [(sw, t) for (sw, t, fl) in bb_]
            skip_targets = [fl for (sw, t, fl) in bb_]
            is_entry = f.name in ENTRIES and (f.name != "rewrite_result" or "rustc_ast::Local" in f.id)
            key = "%s: file-lines guard @%d" % (short(f.id), a.ordinal)
            ok = True
            detail = []
            if is_entry:
                seen_entries.add(f.name if f.name != "rewrite_result" else "Local::rewrite_result")
                fcalls = [c for c in f.calls() if formatter(c)]
                reach_wo = f.reachable(0, avoid_edges=go_edges)
                undominated = [c for c in fcalls if c.bb in reach_wo]
                if undominated:
                    ok = False
                    r.violation("R17-a", "%s: %s runs before/without the file-lines test" % (short(f.id), short(undominated[0].name)),
                                "%s is reachable without the out-of-range test having answered `in range`: code outside the "
                                "selected lines is formatted" % short(undominated[0].name), [a.loc(), undominated[0].loc()])
                detail.append("%d formatting calls dominated" % len(fcalls))
            # skip edge
            for st in skip_targets:
                try:
                    paths = explore(f, start=st, is_effect=formatter, max_paths=3000, program=p, inline="effects", inline_effects=True)
                except TooManyPaths:
                    detail.append("skip edge not explored (too many paths)")
                    continue
                r.paths("R17-a", len(paths))
                bad = [e for pa in paths for e in pa.effects if e.kind == "call"]
                if bad:
                    ok = False
                    r.violation("R17-a", "%s: out-of-range edge calls %s" % (short(f.id), short(bad[0].name)),
                                "after the file-lines test answered `out of range`, %s still calls %s" % (
                                    short(f.id), short(bad[0].name)), [a.loc(), "%s:%d" % (f.file, bad[0].line)])
                detail.append("skip edge: %d paths verbatim-only" % len(paths))
            n += 1
            r.instance("R17-a", key, "ok" if ok else "violation", a.loc(), "; ".join(detail))
    r.floor("R17-a", n, 8, "file-lines guards (7 entries + format_missing_inner)")
    missing = {"visit_item", "visit_assoc_item", "visit_mac", "format_expr", "format_stmt", "Local::rewrite_result"} - seen_entries
    for m in sorted(missing):
        r.violation("R17-a", "%s: file-lines guard missing" % m,
                    "%s no longer tests whether its span intersects the selected lines" % m, [])

    # R17-b ---------------------------------------------------------------------------------------
    r.rule("R17-b", "no file-lines test inside a closure handed to Iterator::any / find / position over a group of nodes: "
                    "an existential guard rewrites the whole group when one member is selected")
    nb = 0
    for f in p.by_crate["rustfmt_nightly"]:
        if f.kind != "Closure":
            continue
        if not any(c.name in (IS_ALL, INTERSECTS) for c in f.calls()):
            continue
        nb += 1
        # how is the closure consumed?
        users = [(src, kind, c) for (src, kind, c) in p.callers().get(f.id, []) if c is not None and kind == "higher-order"]
        exist = [c for (src, kind, c) in users if c.declared in ("std::iter::Iterator::any", "std::iter::Iterator::find",
                                                                  "std::iter::Iterator::position", "std::iter::Iterator::find_map")]
        key = "existential file-lines guard: %s" % short(f.root or f.id)
        if exist:
            r.instance("R17-b", key, "violation", exist[0].loc())
            r.violation("R17-b", key,
                        "a group of nodes is rewritten as a whole when any member intersects the selected lines "
                        "(%s over a closure testing file lines): members outside the selection are reordered/reformatted"
                        % short(exist[0].declared), [exist[0].loc()])
        else:
            r.instance("R17-b", key, "ok", "%s:%d" % (f.file, f.line), "closure not consumed existentially")
    r.rules["R17-b"]["floor"] = 0

    # R17-c ---------------------------------------------------------------------------------------
    r.rule("R17-c", "FileLines(Some(_)) is built only in from_ranges from a map passed through normalize_ranges; Range values are "
                    "immutable (fields written nowhere, constructed only by Range::new / derives); Range::merge returns "
                    "Some(new(min lo, max hi)) iff adjacent ∨ intersecting, None otherwise")
    FL = "rustfmt_nightly::config::file_lines::FileLines"
    for f in p.fns.values():
        for bb, i, s in f.stmts():
            if s[0] == "=" and s[2][0] == "agg" and isinstance(s[2][1], list) and s[2][1][0] == "adt" and s[2][1][1] == FL:
                name = short(f.id)
                where = "%s:%d" % (f.file, s[3])
                if f.impl and f.impl.get("trait") in ("std::clone::Clone", "std::default::Default"):
                    r.instance("R17-c", "FileLines built in %s" % name, "derive", where, nontrivial=False)
                    continue
                if f.name == "all":
                    op = s[2][2][0]
                    d = f.derived_from(op[1][0]) if op[0] != "k" else None
                    ok = d is not None and not d["calls"] and not d["args"]
                    r.instance("R17-c", "FileLines::all builds None", "ok" if ok else "violation", where)
                    if not ok:
                        r.violation("R17-c", "FileLines::all is not FileLines(None)", "", [where])
                    continue
                if f.name == "from_ranges":
                    op = s[2][2][0]
                    norm = [c for c in f.calls() if c.name.endswith("file_lines::normalize_ranges")]
                    ok = bool(norm) and all(edge_dominates(f, (c.bb, c.target), bb) for c in norm)
                    r.instance("R17-c", "from_ranges: normalize_ranges before construction", "ok" if ok else "violation", where)
                    if not ok:
                        r.violation("R17-c", "from_ranges: ranges not normalised",
                                    "FileLines(Some(ranges)) is built without normalize_ranges having run on every path",
                                    [where])
                    continue
                r.instance("R17-c", "FileLines built in %s" % name, "violation", where)
                r.violation("R17-c", "FileLines constructed in %s" % name,
                            "FileLines is built outside from_ranges / all: its ranges may be unnormalised (overlapping or "
                            "adjacent ranges would not behave as their union)", [where])
    RG = "rustfmt_nightly::config::file_lines::Range"
    idx = p.field_index()
    for (adt, var, field), modes in idx.items():
        if adt != RG:
            continue
        for fid in sorted(modes.get("w", ())):
            f = p.fns[fid]
            r.instance("R17-c", "Range.%s written in %s" % (field, short(fid)), "violation", "%s:%d" % (f.file, f.line))
            r.violation("R17-c", "Range.%s mutated in %s" % (field, short(fid)),
                        "a line range is modified in place instead of being combined through Range::merge (whose table is "
                        "checked): unions of overlapping / nested ranges may be wrong", ["%s:%d" % (f.file, f.line)])
    mg = p.named("merge", within="file_lines::Range")
    if mg is None:
        r.undecidable("R17-c", "Range::merge not found")
    else:
        PURE = ("std::cmp::min", "std::cmp::max", "Range::adjacent_to", "Range::intersects", "Range::new", "Ord::min", "Ord::max")
        paths = explore(mg, pure=lambda c: any(c.name.endswith(x) or x in c.name for x in PURE))
        r.paths("R17-c", len(paths))
        for path in paths:
            if path.end != "ret":
                continue
            adj = its = None
            for k, v in path.decisions:
                if "adjacent_to(" in k and isinstance(v, bool):
                    adj = v
                if "Range::intersects(" in k and isinstance(v, bool):
                    its = v
            ret = vkey(path.ret)
            should = bool(adj) or bool(its)
            if should:
                ok = ret.startswith("Some(") and "min(arg1.lo,arg2.lo)" in ret.replace(" ", "") and \
                    "max(arg1.hi,arg2.hi)" in ret.replace(" ", "")
            else:
                ok = ret == "None"
            r.cells("R17-c", 1)
            r.instance("R17-c", "Range::merge[adjacent=%s,intersects=%s]" % (adj, its), "ok" if ok else "violation",
                       "%s:%d" % (mg.file, mg.line), short(ret)[-90:])
            if not ok:
                r.violation("R17-c", "Range::merge[adjacent=%s,intersects=%s] returns %s" % (adj, its, short(ret)[-60:]),
                            "the union of two ranges is not (min lo, max hi) exactly when they touch", ["%s:%d" % (mg.file, mg.line)])
    # R17-d ---------------------------------------------------------------------------------------
    import c07
    c07.new_line_table(ctx, "R17-d", only_gate=True)
    hull_guards(ctx, "R17-e")
    lookup_key_is_canonical(ctx, "R17-f")
    source_text_indexed_relatively(ctx, "R17-g")
    line_queries_share_one_matcher(ctx, "R17-h")
    import c04
    c04.name_scopes(ctx, "R17-i")     # shared with C04: the early exit for unselected items must not leak their skip names
    empty_ranges_select_nothing(ctx, "R17-j")


def hull_guards(ctx, rid):
    """R17-e: a file-lines test is made on the span of one node (or of one gap), never on the hull of several nodes"""
    p, r = ctx.p, ctx.r
    r.rule(rid, "the span handed to ParseSess::lookup_line_range for a file-lines test is never assembled (mk_sp / Span::to / with_lo / "
                "with_hi / between) from endpoints taken from *elements of a slice of nodes* (first / last / index): such a hull "
                "intersects the selection when only a comment or blank line between the nodes does, and every node is then rewritten")
    LOOKUP = "::lookup_line_range"
    COMBINE = ("utils::mk_sp", "Span::to", "Span::with_lo", "Span::with_hi", "Span::between", "Span::until", "Span::new")
    ELEM = ("::first", "::last", "Index<I>>::index", "::get", "::split_first", "::split_last", "::first_mut", "::last_mut")
    n = 0
    for f in p.by_crate["rustfmt_nightly"]:
        for c in f.calls():
            if not c.name.endswith(LOOKUP) or len(c.args) < 2 or c.args[1][0] == "k":
                continue
            # only the lookups that feed a FileLines::intersects test
            feeds = any(x.name == INTERSECTS for x in f.calls() if x.bb in f.reachable(c.bb))
            if not feeds:
                continue
            n += 1
            d = f.derived_from(c.args[1][1][0])
            comb = [x for x in d["calls"] if any(short(x.name).endswith(s) or x.name.endswith(s) for s in COMBINE)]
            elem = [x for x in d["calls"] if any(x.name.endswith(s) or (x.declared or "").endswith(s.lstrip(":")) for s in ELEM)
                    and ("[" in x.name or "slice" in x.name or "Vec" in x.name or "Index" in (x.declared or ""))]
            hull = bool(comb) and len(elem) >= 1
            key = "file-lines test on a hull of nodes: %s" % short(f.root or f.id)
            r.instance(rid, "file-lines span in %s" % short(f.id), "violation" if hull else "ok", c.loc(),
                       "combinators=%s element accesses=%s" % ([short(x.name).rsplit("::", 1)[-1] for x in comb][:3],
                                                                 [short(x.name).rsplit("::", 1)[-1] for x in elem][:3]))
            if hull:
                r.violation(rid, key,
                            "the tested span is built with %s from endpoints of slice elements (%s): a selection that touches only "
                            "the text between two nodes makes the whole group count as selected"
                            % (sorted({short(x.name).rsplit("::", 1)[-1] for x in comb}), sorted({short(x.name).rsplit("::", 1)[-1] for x in elem})),
                            [c.loc()])
    r.floor(rid, n, 4, "file-lines span lookups")


def lookup_key_is_canonical(ctx, rid):
    """R17-f: ranges are looked up under the same kind of key they were stored under"""
    p, r = ctx.p, ctx.r
    r.rule(rid, "config::file_lines: the ranges given on the command line are stored under canonicalize_path_string(file) "
                "(JsonSpan::into_tuple); FileLines::file_range_matches therefore reaches its map lookup only with a key that is the "
                "result of canonicalize_path_string on the queried name, on every path (helpers inlined): a file whose session name "
                "is absolute but not canonical (`#[path = \"../x.rs\"]`, a symlinked directory) must still find its ranges")
    f = p.named("file_range_matches", within="file_lines::FileLines")
    ins = p.named("into_tuple", within="file_lines::JsonSpan")
    if f is None or ins is None:
        r.undecidable(rid, "file_range_matches / JsonSpan::into_tuple not found")
        return
    stored_canonical = any(c.name.endswith("canonicalize_path_string") for c in ins.calls())
    r.instance(rid, "JsonSpan::into_tuple stores canonical keys", "ok" if stored_canonical else "info", "%s:%d" % (ins.file, ins.line),
               nontrivial=False)
    if not stored_canonical:
        r.note("R17-f: keys are not canonicalised at insertion; the lookup side is not constrained")
        r.rules[rid]["floor"] = 0
        return

    def helper(c):
        h = p.fns.get(c.resolved or "")
        return h is not None and h.crate == "rustfmt_nightly" and "file_lines" in h.id and not h.id.endswith("canonicalize_path_string")
    try:
        paths = explore(f, pure=lambda c: not helper(c), program=p, inline=helper, max_paths=20000)
    except TooManyPaths as e:
        r.undecidable(rid, str(e))
        return
    r.paths(rid, len(paths))
    n = 0
    for path in paths:
        keys = [k for k, v in path.decisions]
        if path.ret is not None:
            keys.append(vkey(path.ret))
        for k in keys:
            if "and_then(" in k or "::get(" in k and "HashMap" in k:
                n += 1
                ok = "canonicalize_path_string(" in k
                r.instance(rid, "file_range_matches lookup key", "ok" if ok else "violation", "%s:%d" % (f.file, f.line), short(k)[:90])
                if not ok:
                    r.violation(rid, "file_range_matches looks ranges up under a key that is not canonicalised",
                                "on a path the map is queried with %s, while the keys were stored canonicalised: the file's "
                                "selected lines are not found — they stay unformatted and get no diagnostics" % short(k)[:100],
                                ["%s:%d" % (f.file, f.line)])
    r.floor(rid, n, 1, "lookup decisions in file_range_matches")


def source_text_indexed_relatively(ctx, rid):
    """R17-g: unit discipline — the text of one source file is indexed with positions relative to that file"""
    import re
    p, r = ctx.p, ctx.r
    r.rule(rid, "span positions (`Span::lo/hi`) are offsets into the whole source map; the text of a file (`SourceFile::src`, "
                "`SnippetProvider::big_snippet`) starts at the file's `start_pos`.  In every function (with its closures) that reads "
                "one of those two texts, a string index / slice / `get` whose index derives from a span position also derives "
                "from a `start_pos` field.  Indexing with the absolute position is right only for the first file of the session "
                "(start_pos = 0): for every module file the line-range computation that --file-lines compares against looks at "
                "the wrong byte")
    ABS = re.compile(r"Span>?::(lo|hi|data)$")
    IDX = ("get", "get_unchecked", "index", "split_at", "is_char_boundary", "get_mut")
    units = {}
    for f in p.by_crate["rustfmt_nightly"]:
        units.setdefault(f.id.split("::{closure")[0], []).append(f)
    nunits = nsites = 0
    for root, fs in sorted(units.items()):
        reads = any(((adt or "").endswith("SourceFile") and str(fld) == "src") or
                    ((adt or "").endswith("SnippetProvider") and str(fld) == "big_snippet")
                    for f in fs for (adt, var, fld, mode, bb, line) in f.field_accesses())
        if not reads:
            continue
        nunits += 1
        for f in fs:
            for c in f.calls():
                last = c.name.rsplit("::", 1)[-1]
                if last not in IDX or not ("str" in c.name or "String" in c.name) or len(c.args) < 2 or c.args[1][0] == "k":
                    continue
                d = f.derived_from(c.args[1][1][0])
                absd = [x for x in d["calls"] if ABS.search(x.name)]
                if not absd:
                    continue
                nsites += 1
                rel = any(str(x[2]) == "start_pos" for x in d["fields"])
                r.instance(rid, "%s indexes file text with a span position" % short(f.id), "ok" if rel else "violation", c.loc(),
                           "made relative with start_pos" if rel else "absolute")
                if not rel:
                    r.violation(rid, "%s indexes the text of a source file with an absolute span position" % short(root),
                                "the index derives from %s and from no `start_pos`: correct only for the file that starts the source "
                                "map" % sorted({short(x.name) for x in absd}), [c.loc()])
    r.floor(rid, nunits, 4, "functions reading SourceFile::src / SnippetProvider::big_snippet")
    r.floor(rid, nsites, 1, "file-text index sites driven by span positions (SnippetProvider::span_to_snippet)")


def line_queries_share_one_matcher(ctx, rid):
    """R17-h: all questions put to a FileLines are answered by the same scan of the ranges"""
    p, r = ctx.p, ctx.r
    r.rule(rid, "sibling agreement in config::file_lines: `contains`, `intersects`, `contains_line` and `contains_range` — what the "
                "rewriters, the missed-span copier and the line checks (diagnostics) ask — each hand a per-range predicate to "
                "FileLines::file_range_matches, which answers `any` over *all* ranges stored for the canonicalised file name, and "
                "none of them reads the range table itself.  A query with a search of its own (a binary search assuming disjoint, "
                "sorted, non-empty ranges) disagrees with its siblings for the inputs the assumption misses — `[1,9]` + `[3,2]` — "
                "and then the text is formatted while its diagnostics are withheld")
    QUERIES = ("contains", "intersects", "contains_line", "contains_range")
    n = 0
    for nm in QUERIES:
        f = None
        for g in p.by_crate["rustfmt_nightly"]:
            if g.id.endswith("config::file_lines::FileLines::" + nm) and g.kind != "Closure":
                f = g
        if f is None:
            continue
        n += 1
        unit = [f] + [g for g in p.by_crate["rustfmt_nightly"] if g.id.startswith(f.id + "::{closure")]
        delegates = any(c.name.endswith("FileLines::file_range_matches") for c in f.calls())
        own = [c for g in unit for c in g.calls() if any(x in c.name for x in ("HashMap", "partition_point", "binary_search"))
               and not c.name.endswith("file_range_matches")]
        reads_table = any((adt or "").endswith("file_lines::FileLines") and str(fld) == "0" for g in unit
                          for (adt, var, fld, mode, bb, line) in g.field_accesses())
        ok = delegates and not own and not reads_table
        r.instance(rid, "FileLines::%s" % nm, "ok" if ok else "violation", "%s:%d" % (f.file, f.line),
                   "delegates to file_range_matches" if ok else "own look-up: %s" % sorted({short(c.name).rsplit("::", 1)[-1] for c in own})[:3])
        if not ok:
            r.violation(rid, "FileLines::%s does not answer through file_range_matches" % nm,
                        "it %s: its answer can differ from that of the other queries for the same selection"
                        % ("reads the range table itself" if (own or reads_table) else "never calls file_range_matches"),
                        ["%s:%d" % (f.file, f.line)])
    r.floor(rid, n, 3, "query methods of FileLines")


def empty_ranges_select_nothing(ctx, rid):
    """R17-j: a range with lo > hi intersects nothing and is adjacent to nothing"""
    import re
    p, r = ctx.p, ctx.r
    r.rule(rid, "file_lines::Range::intersects and Range::adjacent_to — behind every `out_of_file_lines_range!` test and behind "
                "the merging of ranges — answer anything other than the constant `false` only on paths that have decided "
                "that *both* ranges are non-empty (`is_empty` false, or the comparison `lo > hi` false in any spelling). A range "
                "with lo > hi (`[7,6]`: what a diff-driven caller emits for a pure deletion) selects no line; the textbook "
                "overlap test `a.lo <= b.hi && b.lo <= a.hi` without the guard says that it intersects every item that spans "
                "it, and the item is reformatted — an empty selection formats nothing")
    n = 0
    for name in ("intersects", "adjacent_to"):
        fs = [g for g in p.by_crate["rustfmt_nightly"] if g.id.endswith("file_lines::Range::" + name)]
        if len(fs) != 1:
            r.undecidable(rid, "file_lines::Range::%s not found" % name)
            continue
        f = fs[0]
        try:
            paths = explore(f, pure=lambda c: not c.name.endswith("Range::is_empty"), program=p, inline="auto", max_paths=5000)
        except TooManyPaths as e:
            r.undecidable(rid, str(e))
            continue
        r.paths(rid, len(paths))

        def nonempty(decs, a):
            for k, v in decs:
                if not isinstance(v, bool):
                    continue
                k = k.strip("()")
                if k in ("%s.lo Gt %s.hi" % (a, a), "%s.hi Lt %s.lo" % (a, a)) and v is False:
                    return True
                if k in ("%s.lo Le %s.hi" % (a, a), "%s.hi Ge %s.lo" % (a, a)) and v is True:
                    return True
                if re.search(r"Range::is_empty\(%s\)$" % a, k) and v is False:
                    return True
            return False
        bad = 0
        for pa in paths:
            if pa.end != "ret" or pa.ret is None:
                continue
            n += 1
            if pa.ret[0] == "k" and pa.ret[1] is False:
                continue
            ok = nonempty(pa.decisions, "arg1") and nonempty(pa.decisions, "arg2")
            if not ok:
                bad += 1
                if bad == 1:
                    r.violation(rid, "Range::%s answers `%s` for a range that may be empty" % (name, vkey(pa.ret)[:40]),
                                "on the path %s the result is not `false` although %s has not been found non-empty: "
                                "`--file-lines` with the empty range [7,6] formats the item that spans lines 6–7"
                                % ([k for k, v in pa.decisions][:4], "a range"), ["%s:%d" % (f.file, f.line)])
        r.instance(rid, "Range::%s: non-false answers only for two non-empty ranges" % name, "ok" if not bad else "violation",
                   "%s:%d" % (f.file, f.line), "%d returning paths, %d unguarded" % (len(paths), bad))
    r.floor(rid, n, 6, "returning paths of Range::intersects / adjacent_to")
