"""A small relational numerical domain over the explorer's symbolic values.

Values of the explorer (absint) that are built from integer atoms with + - (constant) * , saturating_sub, min, max are
turned into linear forms over the atoms; branch decisions on comparisons become linear constraints.  `entails` decides
"constraints ⊨ goal" by refuting the negation with Fourier–Motzkin elimination over the rationals after the usual
integer tightening of strict inequalities (a < b  ⇒  a + 1 ≤ b).  The refutation is sound for the integers (a rational
refutation is an integer refutation); when the negation is rationally satisfiable the answer is "not entailed" — with the
unit coefficients that occur in the code analysed here the relaxation is exact, and the caller reports the path so the
verdict can be inspected.

This is abstract interpretation (a polyhedral domain restricted to one path at a time), not an external solver: the
procedure, its case splits and its limits are all in this file.
"""
from fractions import Fraction
from absint import vkey, KEYVALS, PURECALLS

MAX_CASES = 64


class NonLinear(Exception):
    pass


def _add(a, b, kb=1):
    r = dict(a)
    for k, v in b.items():
        r[k] = r.get(k, 0) + kb * v
        if r[k] == 0 and k != "":
            del r[k]
    return r


def _scale(a, k):
    return {x: v * k for x, v in a.items() if v * k != 0 or x == ""}


def const(n):
    return {"": Fraction(n)}


def var(name):
    return {name: Fraction(1), "": Fraction(0)}


def lin(v, unsigned=True):
    """→ list of (constraints, form) alternatives; a constraint is a form f meaning f ≤ 0.
    Unknown operations become opaque atoms (sound: nothing is assumed about them except ≥ 0 when `unsigned`)."""
    k = v[0]
    if k == "k":
        c = v[1]
        if isinstance(c, bool) or not isinstance(c, int):
            raise NonLinear(vkey(v))
        return [([], const(c))]
    if k == "cast":
        return lin(v[1], unsigned)
    if k == "bin":
        op = v[1]
        if op in ("Add", "Sub"):
            out = []
            for ca, fa in lin(v[2], unsigned):
                for cb, fb in lin(v[3], unsigned):
                    out.append((ca + cb, _add(fa, fb, 1 if op == "Add" else -1)))
            return out
        if op == "Mul":
            for x, y in ((v[2], v[3]), (v[3], v[2])):
                if x[0] == "k" and isinstance(x[1], int) and not isinstance(x[1], bool):
                    return [(c, _scale(f, x[1])) for c, f in lin(y, unsigned)]
        return [([], var(vkey(v)))]
    if k == "atom":
        name = v[1]
        pc = PURECALLS.get(name)
        if pc:
            fn, args = pc
            last = fn.rsplit("::", 1)[-1]
            if last == "saturating_sub" and len(args) == 2:
                out = []
                for ca, fa in lin(args[0], unsigned):
                    for cb, fb in lin(args[1], unsigned):
                        d = _add(fa, fb, -1)
                        out.append((ca + cb + [_scale(d, -1)], d))          # a-b ≥ 0 → a-b
                        out.append((ca + cb + [d], const(0)))              # a-b ≤ 0 → 0
                return out
            if last == "saturating_add" and len(args) == 2:
                # s = min(a + b, MAX): an opaque value with  a ≤ s,  b ≤ s,  s ≤ a + b  (all that proofs of upper bounds need)
                out = []
                sv = var(name)
                for ca, fa in lin(args[0], unsigned):
                    for cb, fb in lin(args[1], unsigned):
                        out.append((ca + cb + [_add(sv, _add(fa, fb), -1), _add(fa, sv, -1), _add(fb, sv, -1)], sv))
                return out
            if last == "clamp" and len(args) == 3:
                # Ord::clamp(x, lo, hi) asserts lo ≤ hi (it panics otherwise — C16's concern, not a value) and is min(max(x, lo), hi)
                out = []
                for cx, fx in lin(args[0], unsigned):
                    for cl, fl in lin(args[1], unsigned):
                        for ch, fh in lin(args[2], unsigned):
                            base = cx + cl + ch + [_add(fl, fh, -1)]                       # lo ≤ hi
                            out.append((base + [_add(fx, fl, -1)], fl))                    # x ≤ lo → lo
                            out.append((base + [_add(fh, fx, -1)], fh))                    # hi ≤ x → hi
                            out.append((base + [_add(fl, fx, -1), _add(fx, fh, -1)], fx))   # lo ≤ x ≤ hi → x
                return out
            if last in ("min", "max") and len(args) == 2:
                out = []
                for ca, fa in lin(args[0], unsigned):
                    for cb, fb in lin(args[1], unsigned):
                        d = _add(fa, fb, -1)     # a - b
                        if last == "min":
                            out.append((ca + cb + [d], fa))               # a ≤ b → a
                            out.append((ca + cb + [_scale(d, -1)], fb))   # b ≤ a → b
                        else:
                            out.append((ca + cb + [_scale(d, -1)], fa))
                            out.append((ca + cb + [d], fb))
                return out
        return [([], var(name))]
    return [([], var(vkey(v)))]


def atoms_of(forms):
    s = set()
    for f in forms:
        s.update(k for k in f if k != "")
    return s


def cmp_constraints(op, fa, fb, truth):
    """constraints (list of alternatives, each a list of forms ≤ 0) for `fa op fb` being `truth` over the integers"""
    d = _add(fa, fb, -1)          # a - b
    nd = _scale(d, -1)            # b - a
    one = const(1)
    lt = [_add(d, one)]           # a - b + 1 ≤ 0
    le = [d]
    gt = [_add(nd, one)]
    ge = [nd]
    table = {"Lt": (lt, ge), "Le": (le, gt), "Gt": (gt, le), "Ge": (ge, lt)}
    if op in table:
        return [table[op][0 if truth else 1]]
    if op in ("Eq", "Ne"):
        eq = (op == "Eq") == truth
        if eq:
            return [[d, nd]]
        return [lt, gt]
    raise NonLinear(op)


def decision_constraints(key, value):
    """alternatives of constraint lists for one explorer decision, or None when it is not an integer comparison"""
    v = KEYVALS.get(key)
    if v is None or v[0] != "bin" or v[1] not in ("Lt", "Le", "Gt", "Ge", "Eq", "Ne") or not isinstance(value, bool):
        return None
    try:
        out = []
        for ca, fa in lin(v[2]):
            for cb, fb in lin(v[3]):
                for alt in cmp_constraints(v[1], fa, fb, value):
                    out.append(ca + cb + alt)
        return out
    except NonLinear:
        return None


def feasible(cons):
    """Fourier–Motzkin: is the conjunction of forms ≤ 0 satisfiable over the rationals?"""
    cons = [dict(c) for c in cons]
    vars_ = sorted(atoms_of(cons))
    for x in vars_:
        pos, neg, rest = [], [], []
        for c in cons:
            a = c.get(x, 0)
            (pos if a > 0 else neg if a < 0 else rest).append(c)
        new = rest
        for p in pos:
            for n in neg:
                ap, an = p[x], -n[x]
                comb = _add(_scale(p, an), _scale(n, ap))
                comb.pop(x, None)
                new.append(comb)
        cons = new
        if len(cons) > 4000:
            raise NonLinear("elimination blow-up")
    return all(c.get("", 0) <= 0 for c in cons)


def entails(path_alternatives, goal_negation_alternatives, nonneg=()):
    """path_alternatives: list (conjunction) of lists (disjunction) of constraint lists.
    goal_negation_alternatives: list of constraint lists whose disjunction is ¬goal.
    → (True, None) or (False, witness constraint set that is satisfiable)"""
    base = [_scale(var(a), -1) for a in nonneg]       # -a ≤ 0
    combos = [[]]
    for alts in path_alternatives:
        combos = [c + a for c in combos for a in alts]
        if len(combos) > MAX_CASES * 8:
            raise NonLinear("too many case splits")
    for c in combos:
        if not feasible(base + c):
            continue
        for g in goal_negation_alternatives:
            if feasible(base + c + g):
                return False, base + c + g
    return True, None


def show(form):
    parts = []
    for k, v in sorted(form.items()):
        if k == "":
            continue
        parts.append("%s%s·%s" % ("+" if v > 0 else "-", "" if abs(v) == 1 else abs(v), k[-40:]))
    c = form.get("", 0)
    return "%s %s%s ≤ 0" % (" ".join(parts), "+" if c >= 0 else "-", abs(c))
