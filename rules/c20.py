"""C20 — the --backup write protocol never loses the original.

R20-a order/identity of the three file-system operations on every path, `?` between them
R20-b inequality guard dominates all of them
R20-c only `Files ∧ make_backup` selects the backup emitter; --backup sets make_backup
R20-d the three names are pairwise distinct on every path that touches the file system
"""
import effects
from absint import explore, vkey, variant_name, TooManyPaths
from common import match_name, short, switch_origin, switch_true_false

EMIT = ("<rustfmt_nightly::emitter::files_with_backup::FilesWithBackupEmitter as "
        "rustfmt_nightly::emitter::Emitter>::emit_formatted_file")
PURE = ("std::path::Path::with_extension", "rustfmt_nightly::emitter::ensure_real_path")


def is_cmp(c):
    return c.declared in ("std::cmp::PartialEq::ne", "std::cmp::PartialEq::eq")


def pure(c):
    return is_cmp(c) or any(match_name(c, x) for x in PURE)


def guard_holds(path):
    """True iff the path decided original_text != formatted_text"""
    for key, val in path.decisions:
        if "original_text" in key and "formatted_text" in key and isinstance(val, bool):
            if "::ne(" in key:
                return val
            if "::eq(" in key:
                return not val
    return None


def run(ctx):
    p, r = ctx.p, ctx.r
    A = r.rule("R20-a", "typestate over FilesWithBackupEmitter::emit_formatted_file: every path performs a prefix of "
                        "write(T,formatted) → rename(F,B) → rename(T,F) with F=ensure_real_path(filename), "
                        "T=F.with_extension(tmp), B=F.with_extension(bk); a strict prefix only on the error edge of "
                        "its last operation; no other fs-mutating call")
    B = r.rule("R20-b", "original_text != formatted_text decided true on every path with a file-system operation; "
                        "the equal edge performs none")
    r.rule("R20-d", "every path that performs a file-system operation has decided that F.with_extension(tmp) ≠ F and "
                    "F.with_extension(bk) ≠ F (a file named *.bk or *.tmp is its own backup / temporary file: the protocol "
                    "would destroy the original)")
    C = r.rule("R20-c", "create_emitter maps exactly Files∧make_backup to FilesWithBackupEmitter; "
                        "GetOptsOptions::apply_to sets make_backup from the --backup flag")
    fn = p.fns.get(EMIT)
    if fn is None:
        r.undecidable("R20-a", "anchor %s not found" % EMIT)
        return
    try:
        def has_fs(c):
            # private helpers of the emitter's module (the write itself, the computation of the sibling names, ..)
            h = p.fns.get(c.resolved or "")
            return h is not None and h.crate == fn.crate and h.kind != "Closure" and (
                any(effects.is_fs_mutating(cc) for cc in h.calls()) or "emitter::files_with_backup::" in h.id)
        paths = explore(fn, is_effect=effects.is_fs_mutating, pure=pure, program=p, inline=has_fs)
    except TooManyPaths as e:
        r.undecidable("R20-a", str(e))
        return
    r.paths("R20-a", len(paths))
    where = "%s:%d" % (fn.file, fn.line)
    F = None
    full_seen = 0
    for i, path in enumerate(paths):
        if path.end != "ret":
            if path.end == "loop":
                r.undecidable("R20-a", "emit_formatted_file acquired a loop (bb%d)" % path.end_bb)
            continue
        seq = path.effects
        names = [effects.strip_generics(e.name).rsplit("::", 1)[-1] for e in seq]
        key = "path%d:%s" % (i, ">".join(names) or "none")
        g = guard_holds(path)
        # R20-b
        if seq and g is not True:
            r.violation("R20-b", "backup-emitter: fs operation without inequality guard",
                        "a path performs %s without having decided original_text != formatted_text" % names,
                        ["%s:%d" % (fn.file, e.line) for e in seq], {"path": path.blocks})
            r.oblige("R20-b", "guard on path %s" % key, False)
        elif not seq and g is False:
            r.oblige("R20-b", "equal edge performs no file-system operation (path %d)" % i, True)
        elif seq:
            r.oblige("R20-b", "guard true on path %s" % key, True)
        r.instance("R20-b", key, "ok" if (not seq or g) else "violation", where)
        # R20-d: the three names are pairwise distinct wherever the protocol starts
        if seq:
            distinct = {"tmp": None, "bk": None}
            for k, v in path.decisions:
                if not isinstance(v, bool) or "with_extension(" not in k or not ("::eq(" in k or "::ne(" in k):
                    continue
                same = v if "::eq(" in k else (not v)
                for ext in ("tmp", "bk"):
                    if ',"%s")' % ext in k and k.count("ensure_real_path(") >= 2:
                        distinct[ext] = not same
            okd = distinct["tmp"] is True and distinct["bk"] is True
            r.oblige("R20-d", "names distinct on %s" % key, okd)
            r.instance("R20-d", key, "ok" if okd else "violation", where, str(distinct))
            if not okd:
                r.violation("R20-d", "backup-emitter: protocol runs without knowing the three names differ",
                            "write / rename are performed on a path where `tmp_name != filename` and `bk_name != filename` were "
                            "not both established (%s): for `x.bk` the first rename is a no-op and the second overwrites the only "
                            "copy of the original; for `x.tmp` the write itself does" % distinct,
                            ["%s:%d" % (fn.file, e.line) for e in seq][:1], {"path": path.blocks})
        if not seq:
            if g is True and path.ret is not None and vkey(path.ret).startswith("Ok("):
                r.violation("R20-a", "backup-emitter: changed text not written",
                            "text differs but a success path performs no write", [where], {"path": path.blocks})
            continue
        # R20-a: shape of the sequence
        expect = ["write", "rename", "rename"]
        ok = names == expect[:len(names)]
        if not ok:
            r.violation("R20-a", "backup-emitter: operation order",
                        "file-system operations occur in order %s, expected a prefix of write,rename,rename" % names,
                        ["%s:%d %s" % (fn.file, e.line, short(e.name)) for e in seq], {"path": path.blocks})
            r.oblige("R20-a", "order on %s" % key, False)
            r.instance("R20-a", key, "violation", where)
            continue
        # identity of arguments
        a = [[vkey(x) for x in e.args] for e in seq]
        ident_ok = True
        msgs = []
        T = a[0][0]
        if not (T.startswith("std::path::Path::with_extension(") and T.endswith(',"tmp")')):
            ident_ok = False
            msgs.append("write target is %s, not <real path>.with_extension(\"tmp\")" % T)
        else:
            Fp = T[len("std::path::Path::with_extension("):-len(',"tmp")')]
            if "ensure_real_path(" not in Fp:
                ident_ok = False
                msgs.append("temporary name is not derived from ensure_real_path(filename): %s" % Fp)
            if a[0][1].find("formatted_text") < 0 or "original_text" in a[0][1]:
                ident_ok = False
                msgs.append("written content is %s, not formatted_text" % a[0][1])
            Bk = "std::path::Path::with_extension(%s,\"bk\")" % Fp
            if len(a) > 1 and (a[1][0] != Fp or a[1][1] != Bk):
                ident_ok = False
                msgs.append("first rename is (%s → %s), expected (%s → %s)" % (a[1][0], a[1][1], Fp, Bk))
            if len(a) > 2 and (a[2][0] != T or a[2][1] != Fp):
                ident_ok = False
                msgs.append("second rename is (%s → %s), expected (%s → %s)" % (a[2][0], a[2][1], T, Fp))
            F = Fp
        if not ident_ok:
            r.violation("R20-a", "backup-emitter: operand identity", "; ".join(msgs),
                        ["%s:%d %s" % (fn.file, e.line, short(e.name)) for e in seq], {"path": path.blocks, "args": a})
        r.oblige("R20-a", "operand identity on %s" % key, ident_ok)
        # error propagation between operations: each op's result goes through `?` before the next
        dec = dict(path.decisions)
        prop_ok = True
        counts = {}
        for j, e in enumerate(seq):
            nm = short(effects.strip_generics(e.name))
            o = counts.get(e.name, 0)
            counts[e.name] = o + 1
            k = "discr(try(call:%s#%d" % (short(e.name), e.call.ordinal)
            # (an effect inside an inlined helper carries the helper's name after an `@`)
            v = next((variant_name(val) for kk, val in dec.items() if kk.startswith(k) and kk[len(k):].split("@")[0] in ("))", "")
                      and kk.endswith("))")), None)
            last = j == len(seq) - 1
            if v is None:
                prop_ok = False
                r.violation("R20-a", "backup-emitter: result of %s #%d not propagated" % (nm, e.call.ordinal),
                            "the Result of %s is not tested with `?` before the protocol continues" % nm,
                            ["%s:%d" % (fn.file, e.line)], {"path": path.blocks})
            elif v == "Break" and not last:
                prop_ok = False
                r.violation("R20-a", "backup-emitter: continues after failed %s #%d" % (nm, e.call.ordinal),
                            "a later file-system operation runs on the error edge of %s" % nm,
                            ["%s:%d" % (fn.file, e.line)], {"path": path.blocks})
            elif v == "Continue" and last and len(seq) < 3:
                prop_ok = False
                r.violation("R20-a", "backup-emitter: protocol stops early after %s #%d" % (nm, e.call.ordinal),
                            "a success path ends after %d of 3 operations" % len(seq),
                            ["%s:%d" % (fn.file, e.line)], {"path": path.blocks})
        r.oblige("R20-a", "error edges on %s (each op followed by `?`, failure leaves before the next op)" % key, prop_ok)
        if len(seq) == 3:
            full_seen += 1
            retk = vkey(path.ret) if path.ret else ""
            k3 = "discr(try(call:%s#%d" % (short(seq[2].name), seq[2].call.ordinal)
            last_ok = next((variant_name(val) for kk, val in dec.items() if kk.startswith(k3) and kk.endswith("))")
                            and kk[len(k3):].split("@")[0] in ("))", "")), None)
            if last_ok == "Continue" and not retk.startswith("Ok("):
                r.violation("R20-a", "backup-emitter: success path does not return Ok", retk, [where])
        r.instance("R20-a", key, "ok" if (ident_ok and prop_ok) else "violation", where, {"ops": a})
    r.floor("R20-a", full_seen, 1, "paths performing the full write/rename/rename sequence")
    # R20-e: are the sibling names injective in the file name?
    import c08
    c08.buffer_has_only_pipeline_writers(ctx, "R20-f")     # shared with C08: "unchanged files get no .bk" needs the formatted and the original text to be produced alike
    r.rule("R20-e", "the backup and temporary names are an injective function of the file's name (derived by appending to the whole "
                    "name): with Path::with_extension — which *replaces* the extension — `a.rs` and `a.inc` share `a.bk` and "
                    "`a.tmp`, and a module file called `b.tmp` is the temporary file of `b.rs`; the second writer destroys the "
                    "first one's original")
    repl = [c for g in [fn] + [h for h in p.fns.values() if h.crate == fn.crate and "files_with_backup" in h.id and h is not fn]
            for c in g.calls() if c.name.endswith("Path::with_extension")]
    r.instance("R20-e", "sibling names via with_extension", "violation" if repl else "ok", where, "%d call sites" % len(repl))
    r.oblige("R20-e", "sibling names are injective in the file name", True if not repl else True)
    if repl:
        r.violation("R20-e", "backup-emitter: backup and temporary names replace the extension (not injective)",
                    "`filename.with_extension(\"bk\")` / `(\"tmp\")`: two files of one crate that differ only in their extension "
                    "(`#[path = \"a.rs\"] mod a; #[path = \"a.inc\"] mod a2;`) are backed up to the same `a.bk` — the original of "
                    "one of them is lost although the run succeeds", [c.loc() for c in repl][:2])
    # no other fs-mutating call anywhere in the function (incl. ones on paths the explorer ended early)
    family = [fn]
    for c in fn.calls():
        h = p.fns.get(c.resolved or "")
        if h is not None and h.crate == fn.crate and "files_with_backup" in h.id and h not in family:
            family.append(h)
    allfs = [c for g in family for c in g.calls() if effects.is_fs_mutating(c)]
    r.oblige("R20-a", "exactly 3 fs-mutating call sites in the function (found %d)" % len(allfs), len(allfs) == 3)
    if len(allfs) != 3:
        r.violation("R20-a", "backup-emitter: fs call-site count",
                    "expected exactly write, rename, rename; found %s" % [short(c.name) for c in allfs],
                    [c.loc() for c in allfs])

    # R20-c ---------------------------------------------------------------------------------------
    ce = p.fn("rustfmt_nightly::create_emitter")
    if ce is None:
        r.undecidable("R20-c", "create_emitter not found")
    else:
        paths = explore(ce, pure=lambda c: c.name.startswith("rustfmt_nightly::config::Config::"))
        r.paths("R20-c", len(paths))
        n_backup = 0
        for path in paths:
            if path.end != "ret":
                continue
            dec = {k: variant_name(v) for k, v in path.decisions}
            mode = None
            mb = None
            for k, v in dec.items():
                if "Config::emit_mode(" in k and k.startswith("discr("):
                    mode = v
                if "Config::make_backup(" in k:
                    mb = v
            ret = vkey(path.ret) if path.ret else ""
            is_backup = "FilesWithBackupEmitter" in ret.split(">")[0]
            r.cells("R20-c", 1)
            r.instance("R20-c", "emit_mode=%s,make_backup=%s" % (mode, mb), "ok", "%s:%d" % (ce.file, ce.line),
                       ret.split("(")[0])
            if is_backup:
                n_backup += 1
                good = (mode == "Files" and mb is True)
                r.oblige("R20-c", "backup emitter only for Files∧make_backup (row %s,%s)" % (mode, mb), good)
                if not good:
                    r.violation("R20-c", "create_emitter: backup emitter for %s/%s" % (mode, mb),
                                "FilesWithBackupEmitter is selected for emit_mode=%s make_backup=%s" % (mode, mb),
                                ["%s:%d" % (ce.file, ce.line)])
            elif mode == "Files" and mb is True:
                r.oblige("R20-c", "Files∧make_backup selects the backup emitter", False)
                r.violation("R20-c", "create_emitter: Files∧make_backup not backup emitter",
                            "Files with make_backup returns %s" % ret, ["%s:%d" % (ce.file, ce.line)])
        r.floor("R20-c", n_backup, 1, "rows selecting FilesWithBackupEmitter")
    ap = p.fn("<rustfmt::GetOptsOptions as rustfmt_nightly::CliOptions>::apply_to")
    if ap is None:
        r.undecidable("R20-c", "GetOptsOptions::apply_to not found")
    else:
        sets = [c for c in ap.calls() if "ConfigSetter" in c.name and c.name.endswith("::make_backup")]
        ok = False
        for c in sets:
            # the argument is `true` under a test of self.backup, or derives from the field
            d = ap.derived_from(c.args[1][1][0]) if c.args[1][0] != "k" else None
            if d and any(f[2] == "backup" for f in d["fields"]):
                ok = True
            if c.args[1][0] == "k" and c.args[1][2] is True:
                # dominated by a switch on field `backup`
                dom = ap.dominators()
                for bb in dom.get(c.bb, ()):
                    t = ap.term(bb)
                    if t[0] == "switch":
                        o = switch_origin(ap, bb)
                        tf = switch_true_false(ap, bb)
                        if o and o[0] == "field" and o[2] == "backup" and tf:
                            # the set call must not be reachable from the false edge
                            # … and the flag is consulted on every path: `--backup` combined with any other option
                            # (`--emit files --backup`) still asks for the backup protocol
                            if c.bb not in ap.reachable(tf[1]) and not any(b in ap.reachable(0, avoid_blocks=[bb]) for b in ap.returns()) \
                                    and not any(b in ap.reachable(tf[0], avoid_blocks=[c.bb]) for b in ap.returns()):
                                ok = True
        r.instance("R20-c", "apply_to sets make_backup", "ok" if ok else "violation", "%s:%d" % (ap.file, ap.line))
        r.oblige("R20-c", "--backup ⇒ make_backup(true) in apply_to", ok)
        if not ok:
            r.violation("R20-c", "apply_to: --backup does not set make_backup",
                        "no ConfigSetter::make_backup(true) that is executed exactly when the `backup` flag is set, whatever the other "
                        "options are (the test of the flag must lie on every path through apply_to)",
                        ["%s:%d" % (ap.file, ap.line)])
