"""C04 — skip-marked code and opted-out files are emitted verbatim.

R04-a skip guard dominates the attribute rewrite of every protected node kind · R04-b spelling table of is_skip
R04-c whole-file opt-outs precede formatting · R04-d name scoping (skip macros, skip attributes, skip_context save/restore)
"""
import re
from absint import explore, vkey, variant_name, TooManyPaths
from common import short, bool_branches, edge_dominates, match_name, op_local

ATTR_REWRITE = ("rustfmt_nightly::attr::<impl rustfmt_nightly::rewrite::Rewrite for [rustc_ast::Attribute]>::rewrite_result",
                "rustfmt_nightly::attr::<impl rustfmt_nightly::rewrite::Rewrite for [rustc_ast::Attribute]>::rewrite")
VISIT_ATTRS = "rustfmt_nightly::visitor::FmtVisitor::<'a>::visit_attrs"
CONTAINS_SKIP = "rustfmt_nightly::utils::contains_skip"
PROTECTED = {"Item", "Local", "Expr", "ExprField", "FieldDef", "Variant", "Arm", "MacCallStmt", "Stmt"}
OUTSIDE = {"Param": "function parameters are not in the statement's list of node kinds",
           "GenericParam": "generic parameters are not in the statement's list",
           "PatField": "pattern fields are not in the statement's list",
           "WherePredicate": "where predicates are not in the statement's list"}


def attrs_owner(fn, op):
    """ADT short names T such that the operand derives from a field T.attrs"""
    if op[0] == "k":
        return set()
    d = fn.derived_from(op[1][0])
    out = {x[0].rsplit("::", 1)[-1] for x in d["fields"] if x[2] == "attrs" and x[0]}
    # direct projection in the operand itself
    for e in op[1][1]:
        if isinstance(e, (list, tuple)) and e[0] == "f" and e[4] == "attrs" and e[2]:
            out.add(e[2].rsplit("::", 1)[-1])
    return out


def is_guard_call(c):
    return c.name == CONTAINS_SKIP or c.declared == "rustfmt_nightly::vertical::AlignedItem::skip" \
        or c.name.endswith("as rustfmt_nightly::vertical::AlignedItem>::skip") or c.name == VISIT_ATTRS


def guards_dominating(fn, bb, want_types=None):
    """guard calls in fn whose go (false) edge dominates block bb; returns list of (guard call, switch, t_true)"""
    out = []
    for g in fn.calls():
        if not is_guard_call(g) or g.dest[1]:
            continue
        if g.bb == bb:
            continue
        if want_types and g.name == CONTAINS_SKIP:
            ts = attrs_owner(fn, g.args[0])
            if ts and not (ts & want_types):
                continue
        for (sw, t_true, t_false) in bool_branches(fn, g.dest[0]):
            if edge_dominates(fn, (sw, t_false), bb) and bb not in fn.reachable(t_true, avoid_edges=[(sw, t_false)]) \
                    or (edge_dominates(fn, (sw, t_false), bb) and t_true != t_false):
                if bb in fn.reachable(t_true, avoid_blocks=[g.bb]):
                    # reachable from the skip edge without re-evaluating the guard (the paths rejoin): not a guard for
                    # this site.  (`if skip { continue }` in a loop re-enters through the guard: that is fine.)
                    continue
                out.append((g, sw, t_true))
    return out


def run(ctx):
    p, r = ctx.p, ctx.r
    tab = ctx.table("C04")
    exceptions = {e["fn"]: e["reason"] for e in tab.get("exception", [])}
    depth_max = 2 if ctx.tier == "quick" else 6

    r.rule("R04-a", "for every call that rewrites the attributes of an item / statement / expression / field / variant / arm "
                    "(receiver derived from T.attrs), a skip test on those attributes dominates it on its false edge and the "
                    "call is unreachable from the true edge — in the function itself or in every caller (depth ≤ %d)" % depth_max)
    sites = []
    for c in p.all_calls("rustfmt_nightly"):
        if c.name in ATTR_REWRITE:
            sites.append((c, attrs_owner(c.fn, c.args[0]), "rewrite"))
        elif c.name == VISIT_ATTRS and len(c.args) > 1:
            sites.append((c, attrs_owner(c.fn, c.args[1]), "visit_attrs"))
    n_protected = 0
    callers = p.callers()

    def caller_guarded(fid, depth, seen):
        """every live call site of fid is dominated by a guard's go edge (or recursively its callers are)"""
        if depth > depth_max or fid in seen:
            return False, "depth"
        seen = seen | {fid}
        cs = [(src, c) for (src, kind, c) in callers.get(fid, []) if c is not None and kind in ("direct", "higher-order")]
        if not cs:
            return False, "no caller"
        for src, c in cs:
            f = p.fns[src]
            if guards_dominating(f, c.bb):
                continue
            ok, why = caller_guarded(f.id if f.kind != "Closure" else f.id, depth + 1, seen)
            if not ok:
                return False, "call from %s @%s is unguarded" % (short(src), c.loc())
        return True, "guarded in all %d callers" % len(cs)

    for (c, types, kind) in sites:
        fn = c.fn
        owner = fn.root or fn.id
        prot = types & PROTECTED
        outside = types & set(OUTSIDE)
        key = "%s: %s of %s.attrs #%d" % (short(fn.id), kind, "/".join(sorted(types)) or "?", c.ordinal)
        if not types:
            r.instance("R04-a", key, "unclassified", c.loc(), "receiver is not a projection of a node's attrs field", nontrivial=False)
            continue
        if outside and not prot:
            r.instance("R04-a", key, "outside-statement", c.loc(), OUTSIDE[sorted(outside)[0]], nontrivial=False)
            continue
        if not prot:
            if owner in exceptions or fn.id in exceptions:
                r.instance("R04-a", key, "exception", c.loc(), exceptions.get(owner) or exceptions.get(fn.id), nontrivial=False)
            else:
                r.instance("R04-a", key, "unclassified-type", c.loc(), str(sorted(types)), nontrivial=False)
            continue
        n_protected += 1
        if kind == "visit_attrs":
            # visit_attrs is guard and rewriter in one: its result must decide a branch, or be asserted false
            br = bool_branches(fn, c.dest[0]) if not c.dest[1] else []
            if br or fn.id in exceptions:
                r.instance("R04-a", key, "ok" if br else "exception", c.loc(),
                           "result of visit_attrs decides a branch" if br else exceptions[fn.id])
            else:
                r.instance("R04-a", key, "violation", c.loc())
                r.violation("R04-a", "skip result of visit_attrs ignored in %s #%d" % (short(fn.id), c.ordinal),
                            "visit_attrs reports whether the node carries #[rustfmt::skip]; %s ignores the answer and goes on "
                            "formatting the node" % short(fn.id), [c.loc()])
            continue
        gs = guards_dominating(fn, c.bb, prot)
        if gs:
            r.instance("R04-a", key, "ok", c.loc(), "guarded by %s @%s" % (short(gs[0][0].name), gs[0][0].loc()))
            continue
        if owner in exceptions or fn.id in exceptions:
            r.instance("R04-a", key, "exception", c.loc(), exceptions.get(owner) or exceptions.get(fn.id), nontrivial=False)
            continue
        ok, why = caller_guarded(fn.id, 1, frozenset())
        if ok:
            r.instance("R04-a", key, "ok", c.loc(), why)
            continue
        r.instance("R04-a", key, "violation", c.loc(), why)
        r.violation("R04-a", "unguarded attribute rewrite in %s (%s)" % (short(fn.id), "/".join(sorted(prot))),
                    "%s rewrites the attributes of a %s without a #[rustfmt::skip] test dominating the rewrite (%s): a skipped "
                    "node of this kind is reformatted" % (short(fn.id), "/".join(sorted(prot)), why), [c.loc()])
    r.floor("R04-a", n_protected, 14, "attribute-rewrite sites on protected node kinds")

    # the skip edge of each guard in the visitor/rewriter entry points is verbatim-only
    r.rule("R04-a2", "on the skip edge of each guard in the visitor / rewriter entry points no Rewrite::rewrite* / visit_* / "
                     "format_* call is reachable (path-sensitive exploration from the skip edge)")
    entry_names = ("visit_item", "visit_assoc_item", "visit_stmt", "format_expr", "rewrite_match_arm", "rewrite_field",
                   "rewrite_struct_field", "format_variant", "format_foreign_item")
    n2 = 0
    import c05
    entries = {f.id: f.name for f in p.by_crate["rustfmt_nightly"] if f.kind != "Closure" and f.name in entry_names}
    for f in p.by_crate["rustfmt_nightly"]:
        if f.kind == "Closure":
            continue
        if f.name not in entry_names:
            # the body of an entry point under a name of its own (`visit_item_inner`): a private function reached from it alone
            if not (f.vis != "pub" and any(g.name == CONTAINS_SKIP or g.name == VISIT_ATTRS for g in f.calls())
                    and c05._sole_allowed_ancestor(p, f.id, entries) is not None):
                continue
        if f.name == "rewrite_result" and "Local" not in f.id:
            continue
        for g in f.calls():
            if not (g.name == CONTAINS_SKIP or g.name == VISIT_ATTRS) or g.dest[1]:
                continue
            for (sw, t_true, t_false) in bool_branches(f, g.dest[0]):
                def formatter(c):
                    n = c.name
                    last = n.rsplit("::", 1)[-1]
                    if c.declared and c.declared.startswith("rustfmt_nightly::rewrite::Rewrite::rewrite"):
                        return True
                    if not n.startswith("rustfmt_nightly::") and not n.startswith("<rustfmt_nightly::"):
                        return False
                    if last.startswith("format_missing") or last in ("push_skipped_with_span", "push_rewrite",
                                                                     "push_rewrite_inner", "format_separate_mod"):
                        return False
                    return last.startswith("rewrite") or last.startswith("format_") or last.startswith("visit_") \
                        or last.startswith("walk_")
                try:
                    paths = explore(f, start=t_true, is_effect=formatter, max_paths=3000, program=p, inline="effects", inline_effects=True)
                except TooManyPaths:
                    r.instance("R04-a2", "%s: skip edge of %s #%d" % (short(f.id), short(g.name), g.ordinal), "not-explored",
                               g.loc(), "too many paths", nontrivial=False)
                    continue
                n2 += 1
                r.paths("R04-a2", len(paths))
                bad = [e for pa in paths for e in pa.effects if e.kind == "call"]
                key = "%s: skip edge of %s #%d" % (short(f.id), short(g.name), g.ordinal)
                r.instance("R04-a2", key, "ok" if not bad else "violation", g.loc(), "%d paths" % len(paths))
                if bad:
                    r.violation("R04-a2", key, "after the skip test answered `skip`, %s still calls %s" % (
                        short(f.id), short(bad[0].name)), [g.loc(), "%s:%d" % (f.file, bad[0].line)])
    r.floor("R04-a2", n2, 10, "skip edges explored")

    import c13
    c13.skipped_modules_not_resolved(ctx, "R04-e")
    spelling(ctx, "R04-b")
    whole_file(ctx, "R04-c")
    scoping(ctx, "R04-d")
    name_scopes(ctx, "R04-g")
    token_readers_guarded(ctx, "R04-h")
    every_attribute_contributes(ctx, "R04-i")
    module_file_attrs_scope(ctx, "R04-j")
    reordering_spares_skipped_items(ctx, "R04-k")
    generated_marker_is_sought_in_the_whole_file(ctx, "R04-l")
    echoed_text_is_the_text_as_read(ctx, "R04-m")


def spelling(ctx, rid):
    p, r = ctx.p, ctx.r
    r.rule(rid, "decision table of utils::is_skip: Word ⇒ path ∈ {rustfmt::skip, rustfmt_skip}; List ⇒ cfg_attr ∧ some element "
                "after the predicate satisfies is_skip_nested (`cfg_attr(rustfmt, rustfmt::skip, allow(dead_code))` carries the "
                "skip just as `cfg_attr(rustfmt, rustfmt::skip)` does — a test of `len == 2 ∧ second element` misses it); anything "
                "else false; is_skip_nested: MetaItem ⇒ is_skip, Lit ⇒ false; contains_skip = any(meta().map_or(false, is_skip))")
    f = p.named("is_skip", within="rustfmt_nightly::utils")
    if f is None:
        r.undecidable(rid, "utils::is_skip not found")
        return
    from absint import check_table, bool_outcome
    paths = explore(f, pure=lambda c: True)
    r.paths(rid, len(paths))
    if any(pa.end == "loop" for pa in paths):
        _is_skip_loop_form(ctx, rid, f)
        _is_skip_siblings(ctx, rid)
        return

    def atom_of(key, val):
        v = variant_name(val)
        if key == "discr(arg1.kind)":
            if isinstance(v, tuple) and v[0] == "other":
                names = set(v[1])
                return ("kind", "Word" if names == {"Word"} else ("List" if names == {"List"} else "other"))
            return ("kind", v if v in ("Word", "List") else "other")
        if not isinstance(val, bool):
            return None
        if "path_to_string(arg1.path)" in key and "PartialEq" in key:
            if "utils::skip_annotation()" in key:
                return ("eq_skip", val if "::eq(" in key else (not val))
            if "utils::depr_skip_annotation()" in key:
                return ("eq_depr", val if "::eq(" in key else (not val))
        if "has_name(arg1" in key:
            return ("cfg", val)
        if "ThinVec::<T>::len(arg1.kind as List.0)" in key and (" Eq 2" in key or " Ne 2" in key):
            return ("len2", val if " Eq 2" in key else (not val))
        if key.startswith("utils::is_skip_nested(arg1.kind as List.0["):
            return ("nested1", val)
        if re.match(r"^std::iter::Iterator::any\(std::iter::Iterator::skip\(core::slice::<impl \[T\]>::iter\(arg1\.kind as List\.0\),1\),"
                    r"fn:utils::is_skip_nested\)$", key):
            return ("nested_any", val)
        return None

    def spec(a):
        if a["kind"] == "Word":
            return a["eq_skip"] or a["eq_depr"]
        if a["kind"] == "List":
            return a["cfg"] and a["nested_any"]
        return False
    Bv = [False, True]
    res = check_table(paths, atom_of, spec, lambda pa: bool_outcome(pa.ret, atom_of) if pa.end == "ret" else None,
                      {"kind": ["Word", "List", "other"], "eq_skip": Bv, "eq_depr": Bv, "cfg": Bv, "len2": Bv, "nested1": Bv,
                       "nested_any": Bv})
    r.cells(rid, res["cells"])
    bad = {}
    for (assign, exp, got, path, unknown) in res["deviations"]:
        bad.setdefault(tuple(sorted(assign.items())), (assign, exp, got, unknown))
    r.instance(rid, "is_skip table", "ok" if not bad and not res["uncovered"] else "deviates", "%s:%d" % (f.file, f.line),
               "%d cells compared, %d deviate" % (res["cells"], len(bad)))
    if res["uncovered"]:
        r.undecidable(rid, "is_skip: %d cells not covered" % len(res["uncovered"]))
    for k, (assign, exp, got, unknown) in list(sorted(bad.items(), key=str))[:4]:
        r.violation(rid, "is_skip: %s" % ",".join("%s=%s" % kv for kv in sorted(assign.items())),
                    "returns %s where the spelling table {rustfmt::skip, rustfmt_skip, cfg_attr(_, .., skip, ..)} gives %s%s" % (
                        got, exp, (" under %s" % unknown) if unknown else ""), ["%s:%d" % (f.file, f.line)])
    _is_skip_siblings(ctx, rid)


def _is_skip_loop_form(ctx, rid, f):
    """is_skip written with an explicit loop over the cfg_attr list: one iteration is judged, the loop edge closes the induction"""
    p, r = ctx.p, ctx.r
    paths = explore(f, pure=lambda c: True, max_visits=2)
    r.paths(rid, len(paths))
    IT = r"Iterator>::next\(.*std::iter::Iterator::skip\(core::slice::<impl \[T\]>::iter\(arg1\.kind as List\.0\),1\)"
    shapes = set()
    bad = []
    for pa in paths:
        kind = None
        eq_skip = eq_depr = cfg = None
        seq = []
        for k, v in pa.decisions:
            vn = variant_name(v)
            if k == "discr(arg1.kind)":
                if isinstance(vn, str):
                    kind = vn if vn in ("Word", "List") else "other"
                elif isinstance(vn, tuple) and vn[0] == "other" and set(vn[1]) == {"Word"}:
                    kind = "Word"
                elif isinstance(vn, tuple) and vn[0] == "other" and set(vn[1]) == {"List"}:
                    kind = "List"
                continue
            if isinstance(v, bool) and "path_to_string(arg1.path)" in k and "PartialEq" in k:
                val = v if "::eq(" in k else (not v)
                if "utils::skip_annotation()" in k:
                    eq_skip = val
                elif "utils::depr_skip_annotation()" in k:
                    eq_depr = val
                continue
            if isinstance(v, bool) and "has_name(arg1" in k and "cfg_attr" in k:
                cfg = v
                continue
            if k.startswith("discr(") and re.search(IT, k) and vn in ("Some", "None"):
                seq.append(vn)
                continue
            if isinstance(v, bool) and k.startswith("utils::is_skip_nested(") and re.search(IT, k) and " as Some.0" in k:
                seq.append(v)
                continue
            seq.append(("?", k[-80:]))
        ret = None
        if pa.end == "ret" and pa.ret is not None:
            ret = pa.ret[1] if pa.ret[0] == "k" and isinstance(pa.ret[1], bool) else vkey(pa.ret)
        desc = "kind=%s cfg=%s eq_skip=%s eq_depr=%s seq=%s → %s/%s" % (kind, cfg, eq_skip, eq_depr, seq, pa.end, str(ret)[-60:])
        ok = False
        if kind == "List" and cfg is False:
            ok = pa.end == "ret" and ret is False and not seq
        elif kind == "List" and cfg is True:
            if seq == ["Some", True]:
                ok = pa.end == "ret" and ret is True
                shapes.add("found")
            elif seq == ["Some", False]:
                ok = pa.end == "loop"
                shapes.add("next")
            elif seq == ["None"]:
                ok = pa.end == "ret" and ret is False
                shapes.add("exhausted")
        elif kind == "Word":
            if eq_skip is True:
                ok = ret is True and not seq
            elif eq_skip is False and eq_depr is None:
                ok = isinstance(ret, str) and "utils::depr_skip_annotation()" in ret and "::eq(" in ret and not seq
            elif eq_skip is False:
                ok = ret is eq_depr and not seq
        elif kind == "other" or kind is None:
            ok = pa.end == "ret" and ret is False and not seq
        r.cells(rid, 1)
        if not ok:
            bad.append(desc)
    complete = shapes == {"found", "next", "exhausted"}
    r.instance(rid, "is_skip table (loop form: found / next / exhausted)", "ok" if not bad and complete else "deviates",
               "%s:%d" % (f.file, f.line), "%d paths, %d deviate, shapes %s" % (len(paths), len(bad), sorted(shapes)))
    if not complete and not bad:
        r.undecidable(rid, "is_skip (loop form): iteration shapes seen %s" % sorted(shapes))
    for d in bad[:4]:
        r.violation(rid, "is_skip: %s" % d, "a path of is_skip deviates from the spelling table {rustfmt::skip, rustfmt_skip, "
                    "cfg_attr(_, .., skip, ..)}", ["%s:%d" % (f.file, f.line)])


def _is_skip_siblings(ctx, rid):
    p, r = ctx.p, ctx.r
    # the word comparison must be against the literal spellings (checked below) and the cfg_attr test against sym::cfg_attr
    # the two spellings
    for nm, lit in (("skip_annotation", "rustfmt::skip"), ("depr_skip_annotation", "rustfmt_skip")):
        g = p.named(nm, within="rustfmt_nightly::utils")
        ok = False
        if g is not None:
            for c in g.calls():
                if c.name.endswith("Symbol::intern") and c.args:
                    d = g.derived_from(c.args[0][1][0]) if c.args[0][0] != "k" else {"consts": [c.args[0]]}
                    strs = [k[2].get("str") for k in d["consts"] if isinstance(k[2], dict)]
                    ok = strs == [lit]
        r.instance(rid, "%s = %r" % (nm, lit), "ok" if ok else "violation", "src/utils.rs")
        if not ok:
            r.violation(rid, "%s is not %r" % (nm, lit), "the skip attribute spelling constant changed", ["src/utils.rs"])
    # is_skip_nested
    g = p.named("is_skip_nested", within="rustfmt_nightly::utils")
    if g is not None:
        paths = explore(g, pure=lambda c: True)
        for path in paths:
            if path.end != "ret":
                continue
            kind = [variant_name(v) for k, v in path.decisions if k.startswith("discr(")]
            ret = vkey(path.ret)
            ok = (kind == ["MetaItem"] and ret.startswith("utils::is_skip(")) or (kind == ["Lit"] and ret == "false")
            r.cells(rid, 1)
            r.instance(rid, "is_skip_nested%s" % kind, "ok" if ok else "violation", "%s:%d" % (g.file, g.line), ret[-60:])
            if not ok:
                r.violation(rid, "is_skip_nested%s returns %s" % (kind, short(ret)[-50:]), "nested skip spelling table deviates",
                            ["%s:%d" % (g.file, g.line)])
    # contains_skip: in whatever form (iterator `any`, explicit loop) it answers true only after is_skip answered true
    cs = p.fns.get(CONTAINS_SKIP)
    if cs is not None:
        fam = p.body_family(cs)
        reach = p.reach_from([x.id for x in fam])
        calls_is_skip = any(x.endswith("utils::is_skip") for x in reach)
        uses_meta = any(c.name.endswith("Attribute>::meta") or c.name.endswith("::meta") for x in fam for c in x.calls())
        ok = calls_is_skip and uses_meta
        for body in fam:
            try:
                for pa in explore(body, pure=lambda c: True, max_visits=2, max_paths=5000):
                    if pa.end == "ret" and pa.ret is not None and vkey(pa.ret) == "true":
                        decided = any(("is_skip(" in k or "map_or(" in k or "::any(" in k) and v is True for k, v in pa.decisions)
                        if not decided:
                            ok = False
            except TooManyPaths:
                pass
        r.instance(rid, "contains_skip answers true only through is_skip", "ok" if ok else "violation", "%s:%d" % (cs.file, cs.line))
        if not ok:
            r.violation(rid, "contains_skip shape", "contains_skip no longer reduces to `some attribute's meta item satisfies is_skip`",
                        ["%s:%d" % (cs.file, cs.line)])


def whole_file(ctx, rid):
    p, r = ctx.p, ctx.r
    r.rule(rid, "whole-file opt-outs: disable_all_formatting is tested before format_project and its true edge reaches no "
                "formatting; stdin with an inner skip attribute only echoes; should_skip_module covers skip/ignore/generated (R13-b)")
    cl = None
    for f in p.fns.values():
        if f.kind == "Closure" and f.root and f.root.endswith("::format_input_inner") and any(
                c.name.endswith("formatting::format_project") for c in f.calls()):
            cl = f
    if cl is None:
        # the closure body may have been given a name: a private method reached only from format_input_inner
        import c05
        roots = {g.id: g.name for g in p.fns.values() if g.id.endswith("::format_input_inner")}
        for f in p.fns.values():
            if f.kind != "Closure" and any(c.name.endswith("formatting::format_project") for c in f.calls()) \
                    and c05._sole_allowed_ancestor(p, f.id, roots) is not None:
                cl = f
    if cl is None:
        r.undecidable(rid, "closure of format_input_inner calling format_project not found")
    else:
        ds = [c for c in cl.calls() if c.name.endswith("Config::disable_all_formatting")]
        fp = [c for c in cl.calls() if c.name.endswith("formatting::format_project")]
        ok = False
        if len(ds) == 1 and fp:
            for (sw, t_true, t_false) in bool_branches(cl, ds[0].dest[0]):
                dom = all(edge_dominates(cl, (sw, t_false), c.bb) for c in fp)
                clean = all(c.bb not in cl.reachable(t_true) for c in fp)
                # calls on the true edge: only echo_back_stdin / FormatReport::new
                tcalls = [c for c in cl.calls() if c.bb in cl.reachable(t_true) and c.name.startswith("rustfmt_nightly::")
                          and not c.name.endswith("echo_back_stdin") and not c.name.endswith("FormatReport::new")]
                ok = dom and clean and not tcalls
        r.instance(rid, "disable_all_formatting gate", "ok" if ok else "violation", "%s:%d" % (cl.file, cl.line))
        if not ok:
            r.violation(rid, "format_input_inner: disable_all_formatting does not gate format_project",
                        "format_project is reachable although disable_all_formatting is set (or the test is gone)",
                        ["%s:%d" % (cl.file, cl.line)])
    fp = p.fn("rustfmt_nightly::formatting::format_project")
    if fp is not None:
        from common import blocks_dominate

        def is_echo(c):
            # echo_back_stdin itself, or a private helper of the module every return of which has passed through it
            if c.name.endswith("echo_back_stdin"):
                return True
            h = p.fns.get(c.name)
            if h is None or h.vis == "pub" or not h.id.startswith("rustfmt_nightly::formatting::"):
                return False
            es = [x.bb for x in h.calls() if x.name.endswith("echo_back_stdin")]
            return bool(es) and all(blocks_dominate(h, es, rb) for rb in h.returns()) and \
                not any(x.name.endswith("::format_file") for x in h.calls())
        # stdin echo branch
        gs = [c for c in fp.calls() if c.name == CONTAINS_SKIP]
        ff = [c for c in fp.calls() if c.name.endswith("::format_file")]
        ok = False
        for g in gs:
            for (sw, t_true, t_false) in bool_branches(fp, g.dest[0]):
                tcalls = [c for c in fp.calls() if c.bb in fp.reachable(t_true, stop_blocks=fp.returns())]
                if all(c.bb not in fp.reachable(t_true) or edge_dominates(fp, (sw, t_false), c.bb) for c in ff) and \
                        any(is_echo(c) for c in tcalls):
                    ok = all(not edge_dominates(fp, (sw, t_true), c.bb) or is_echo(c)
                             or not c.name.startswith("rustfmt_nightly::formatting::") for c in tcalls)
        r.instance(rid, "stdin inner-skip echo", "ok" if ok else "violation", "%s:%d" % (fp.file, fp.line))
        if not ok:
            r.violation(rid, "format_project: stdin with inner skip attribute is not echoed verbatim",
                        "the contains_skip(module.attrs()) branch no longer returns echo_back_stdin before format_file",
                        ["%s:%d" % (fp.file, fp.line)])


def scoping(ctx, rid):
    p, r = ctx.p, ctx.r
    r.rule(rid, "rewrite_macro: skip_context.macros.skip(name) dominates catch_unwind/rewrite_macro_inner, true edge returns "
                "Err(SkipFormatting); Attribute::rewrite_result: unless decided non-skipped by skip_context.attributes, a "
                "non-doc-comment attribute is returned as its snippet; visit_item saves and restores skip_context")
    rm = p.fn("rustfmt_nightly::macros::rewrite_macro")
    if rm is None:
        r.undecidable(rid, "rewrite_macro not found")
    else:
        sk = [c for c in rm.calls() if c.name.endswith("SkipNameContext::skip")]
        body = [c for c in rm.calls() if c.name == "std::panic::catch_unwind" or c.name.endswith("enter_macro")
                or c.name.endswith("rewrite_macro_inner")]
        ok = False
        detail = ""
        if len(sk) == 1 and body:
            fields = {x[2] for x in rm.derived_from(sk[0].args[0][1][0])["fields"]} if sk[0].args[0][0] != "k" else set()
            for (sw, t_true, t_false) in bool_branches(rm, sk[0].dest[0]):
                dom = all(edge_dominates(rm, (sw, t_false), c.bb) for c in body)
                clean = all(c.bb not in rm.reachable(t_true) for c in body)
                ok = dom and clean and "macros" in fields
                detail = "skip(macros) false-edge dominates %d calls" % len(body)
        r.instance(rid, "rewrite_macro name guard", "ok" if ok else "violation", "%s:%d" % (rm.file, rm.line), detail)
        if not ok:
            r.violation(rid, "rewrite_macro: skip-macro name test does not guard the rewrite",
                        "rewrite_macro_inner / catch_unwind is reachable without skip_context.macros.skip(name) having "
                        "answered false", ["%s:%d" % (rm.file, rm.line)])
    # attribute name scoping
    ar = p.fns.get("rustfmt_nightly::attr::<impl rustfmt_nightly::rewrite::Rewrite for rustc_ast::Attribute>::rewrite_result")
    if ar is None:
        r.undecidable(rid, "<Attribute as Rewrite>::rewrite_result not found")
    else:
        PURE = ("::snippet", "is_doc_comment", "to_owned", "::ident", "Option::<T>::map", "unwrap_or", "contains_comment",
                "SkipNameContext::skip", "Symbol::as_str", "Ident::as_str", "Option::<T>::is_some_and")
        CARRIERS = ("Option::<T>::map", "Option::<T>::is_some_and", "Option::<T>::map_or")
        # which Option::map carries the skip-attributes closure?
        guard_closure = None
        for c in ar.calls():
            if any(c.name.endswith(x_) for x_ in CARRIERS):
                for x in c.refs:
                    f2 = p.fns.get(x)
                    if f2 is None:
                        continue
                    for cc in f2.calls():
                        if cc.name.endswith("SkipNameContext::skip") and cc.args and cc.args[0][0] != "k":
                            fl = {y[2] for y in f2.derived_from(cc.args[0][1][0])["fields"]}
                            for e in cc.args[0][1][1]:
                                if isinstance(e, (list, tuple)) and e[0] == "f":
                                    fl.add(e[4])
                            if "attributes" in fl:
                                guard_closure = x
        direct = [c for c in ar.calls() if c.name.endswith("SkipNameContext::skip")]
        if guard_closure is None and direct:
            guard_closure = "<direct call>"
        if guard_closure is None:
            r.violation(rid, "Attribute::rewrite_result: skip_context.attributes is not consulted",
                        "no `ident().map(|s| skip_context.attributes.skip(..))` test in the attribute rewriter",
                        ["%s:%d" % (ar.file, ar.line)])
        else:
            try:
                paths = explore(ar, pure=lambda c: any(x in c.name for x in PURE), max_paths=100000)
            except TooManyPaths as e:
                r.undecidable(rid, str(e))
                paths = []
            r.paths(rid, len(paths))
            n = 0
            for path in paths:
                if path.end != "ret" or path.ret is None:
                    continue
                doc = guard = None
                for k, v in path.decisions:
                    if "is_doc_comment(arg1)" in k and isinstance(v, bool):
                        doc = v
                    if "unwrap_or(" in k and "Option::<T>::map(" in k and "::ident(arg1)" in k and isinstance(v, bool):
                        guard = v
                    if ("Option::<T>::is_some_and(" in k or ("Option::<T>::map_or(" in k and ",false," in k)) \
                            and "::ident(arg1)" in k and isinstance(v, bool):
                        guard = v       # `ident().is_some_and(|s| skip(..))`: the same test, spelled with the newer adaptor
                    if "SkipNameContext::skip(" in k and "attributes" in k and isinstance(v, bool):
                        guard = v
                    if k.startswith("discr(") and "::ident(arg1)" in k and variant_name(v) == "None":
                        guard = False   # an attribute without a name cannot be named by rustfmt::skip::attributes
                ret = vkey(path.ret)
                if ret.startswith("residual("):
                    continue
                n += 1
                if doc is True or guard is False:
                    continue
                verbatim = ret.startswith("Ok(") and "snippet(arg2,arg1.span)" in ret and "call:" not in ret
                r.instance(rid, "Attribute::rewrite_result[doc=%s,skip=%s]" % (doc, guard), "ok" if verbatim else "violation",
                           "%s:%d" % (ar.file, ar.line), ret[-70:])
                if not verbatim:
                    r.violation(rid, "Attribute::rewrite_result: non-verbatim result with skip=%s doc_comment=%s" % (guard, doc),
                                "an attribute that rustfmt::skip::attributes may name is rewritten (returns %s) on a path where "
                                "the skip-attributes test has not answered `false`" % short(ret)[-80:],
                                ["%s:%d" % (ar.file, ar.line)])
            r.floor(rid, n, 4, "returning paths of Attribute::rewrite_result")
    # visit_item: skip_context saved then restored on every path
    vi = p.named("visit_item", within="rustfmt_nightly::visitor::FmtVisitor")
    if vi is None:
        r.undecidable(rid, "visit_item not found")
    else:
        def skipctx_fields(c, i):
            if len(c.args) <= i or c.args[i][0] == "k":
                return set()
            fl = {y[2] for y in vi.derived_from(c.args[i][1][0])["fields"]}
            return fl
        saves = [c for c in vi.calls() if c.name.endswith("SkipContext as std::clone::Clone>::clone")]
        upd = [c for c in vi.calls() if c.name.endswith("SkipContext::update_with_attrs")]
        writes = [(bb, line) for (adt, var, field, mode, bb, line) in vi.field_accesses()
                  if field == "skip_context" and mode == "w" and adt.endswith("FmtVisitor")]
        # restore = a write of the field that is not the &mut borrow for update_with_attrs (same block as the update call)
        upd_bbs = {c.bb for c in upd}
        restores = [(bb, line) for (bb, line) in writes if bb not in upd_bbs]
        ok = bool(saves) and bool(upd) and bool(restores)
        if not ok and not upd:
            # the discipline lives in a scoping wrapper (`with_skip_context_of(attrs, |this| ..)`), which R04-g judges on its own
            for c0 in vi.calls():
                h0 = p.fns.get(c0.resolved or "")
                if h0 is not None and h0.crate == "rustfmt_nightly" and any(x.name.endswith("SkipContext::update_with_attrs") for x in h0.calls()) \
                        and any((x.declared or "").startswith("std::ops::FnOnce::call_once") or (x.declared or "").startswith("std::ops::FnMut::call_mut")
                                for x in h0.calls()):
                    vi = h0
                    saves = [c for c in vi.calls() if c.name.endswith("SkipContext as std::clone::Clone>::clone")]
                    upd = [c for c in vi.calls() if c.name.endswith("SkipContext::update_with_attrs")]
                    writes = [(bb, line) for (adt, var, field, mode, bb, line) in vi.field_accesses()
                              if field == "skip_context" and mode == "w" and adt.endswith("FmtVisitor")]
                    upd_bbs = {c.bb for c in upd}
                    restores = [(bb, line) for (bb, line) in writes if bb not in upd_bbs]
                    ok = bool(saves) and bool(upd) and bool(restores)
                    break
        if ok:
            # every path from the update to a return passes a restore block
            rb = {bb for bb, _ in restores}
            for u in upd:
                reach = vi.reachable(u.target if u.target is not None else u.bb, avoid_blocks=rb)
                if any(x in reach for x in vi.returns()):
                    ok = False
            if not all(edge_dominates(vi, (s.bb, s.target), u.bb) for s in saves for u in upd):
                ok = False
        r.instance(rid, "visit_item: skip_context save → update → restore", "ok" if ok else "violation",
                   "%s:%d" % (vi.file, vi.line), "saves=%d updates=%d restores=%d" % (len(saves), len(upd), len(restores)))
        if not ok:
            r.violation(rid, "visit_item: skip_context not restored on every path",
                        "rustfmt::skip::macros / ::attributes named on one item would stay in force for the following items "
                        "(or are lost): save/update/restore discipline broken", ["%s:%d" % (vi.file, vi.line)])


NAME_SCOPE_VISITORS = {
    # FmtVisitor entry points that receive a node with outer attributes and descend into code that may contain macro calls
    # or attributes (confirmed by reading src/visitor.rs); other attributed nodes are formatted through `Rewrite` with an
    # immutable context and cannot extend the skip context — the rule does not decide those (DESIGN §11)
    "visit_item": "free items, statements that are items",
    "visit_assoc_item": "impl and trait items",
    "visit_stmt": "let / expression / macro statements",
}


def name_scopes(ctx, rid):
    """R04-g: rustfmt::skip::macros / skip::attributes names reach the skip context for every attributed node the visitor descends into"""
    from common import operand_origin
    p, r = ctx.p, ctx.r
    r.rule(rid, "for each visitor entry point {visit_item, visit_assoc_item, visit_stmt}: every call from which macros::rewrite_macro "
                "or Attribute::rewrite is reachable (not through a nested format_snippet session, not through another entry point "
                "of this table) is unreachable from the function entry without passing SkipContext::update_with_attrs, and every "
                "path from an update to a return passes a store restoring self.skip_context")
    targets = {fid for fid in p.fns if fid.endswith("macros::rewrite_macro")
               or (fid.endswith("::rewrite_result") and "for rustc_ast::Attribute>" in fid)
               or (fid.endswith("::rewrite_result") and "for [rustc_ast::Attribute]>" in fid)}
    if len(targets) < 2:
        r.undecidable(rid, "rewrite_macro / Attribute rewriters not found (%s)" % sorted(targets))
        return
    table_ids = {}
    for name in NAME_SCOPE_VISITORS:
        f = p.named(name, within="rustfmt_nightly::visitor::FmtVisitor")
        if f is None:
            r.undecidable(rid, "FmtVisitor::%s not found" % name)
            return
        table_ids[f.id] = f
    session = {fid for fid in p.fns if fid.endswith("::format_snippet") or fid.endswith("::format_code_block")
               or fid.endswith("format_input_inner")}
    # functions from which a target is reachable without entering a nested session or a table entry point
    cs = p.callers()
    reach = set(targets)
    work = list(targets)
    while work:
        x = work.pop()
        for (src, kind, c) in cs.get(x, []):
            if src in reach or src in session or src in table_ids:
                continue
            reach.add(src)
            work.append(src)
    # discovery cross-check: no other visitor method tests *outer* attributes for skip
    for f in p.fns.values():
        if "visitor::FmtVisitor" not in f.id or f.id in table_ids or "{closure" in f.id:
            continue
        for c in f.calls():
            if c.name.endswith("::visit_attrs") and len(c.args) > 2:
                o = operand_origin(f, c.args[2])
                if o[0] == "const" and "Outer" in str(o[1]):
                    r.undecidable(rid, "%s tests outer attributes with visit_attrs but is not in the table of name-scope visitors" % short(f.id))
    def scoping_wrapper(h):
        """a helper that adds the names, runs a caller-supplied closure, and puts the context back: every indirect call of a
        closure parameter is unreachable from its entry without passing update_with_attrs, and a store to skip_context follows"""
        if h is None or h.crate != "rustfmt_nightly":
            return False
        u = [c for c in h.calls() if c.name.endswith("SkipContext::update_with_attrs")]
        ind = [c for c in h.calls() if (c.declared or "").startswith("std::ops::FnOnce::call_once") or (c.declared or "").startswith("std::ops::FnMut::call_mut")
               or (c.declared or "").startswith("std::ops::Fn::call")]
        if not u or not ind:
            return False
        free_h = h.reachable(0, avoid_blocks={c.bb for c in u})
        if any(c.bb in free_h for c in ind):
            return False
        w = {bb for (adt, var, field, mode, bb, line) in h.field_accesses()
             if field == "skip_context" and mode == "w" and adt.endswith("FmtVisitor")} - {c.bb for c in u}
        for c in ind:
            rs = h.reachable(c.target if c.target is not None else c.bb, avoid_blocks=w)
            if any(x in rs for x in h.returns()):
                return False
        return True

    n_sinks = 0
    for fid, f in table_ids.items():
        name = f.id.rsplit("::", 1)[-1]
        wrappers = [c for c in f.calls() if scoping_wrapper(p.fns.get(c.resolved or ""))]
        upd = [c for c in f.calls() if c.name.endswith("SkipContext::update_with_attrs")]
        upd_bbs = {c.bb for c in upd}
        free = f.reachable(0, avoid_blocks=upd_bbs)
        sinks = []
        for c in f.calls():
            if c in wrappers:
                continue
            tg = [t for (t, kind) in p.call_targets(c)]
            tg += [x for x in c.refs if x in p.fns]
            if any(t in reach for t in tg) and not any(t in table_ids for t in tg):
                sinks.append(c)
        n_sinks += len(sinks)
        if wrappers:
            # what runs inside the wrapper's closure (and the private function it calls) is scoped by construction; count it
            import c05
            fam = [g for g in p.by_crate["rustfmt_nightly"] if g.id.startswith(f.id + "::{closure")
                   or (g.kind != "Closure" and g.vis != "pub" and g.id != f.id and c05._sole_allowed_ancestor(p, g.id, {f.id: name}) is not None)]
            for g in fam:
                for c in g.calls():
                    tg = [t for (t, kind) in p.call_targets(c)] + [x for x in c.refs if x in p.fns]
                    if any(t in reach for t in tg) and not any(t in table_ids for t in tg):
                        n_sinks += 1
        bad = [c for c in sinks if c.bb in free and c.bb not in upd_bbs]
        r.instance(rid, "%s: names of the node's attributes scoped" % name, "ok" if not bad and (upd or wrappers) else "violation",
                   "%s:%d" % (f.file, f.line), "%d descending calls, %d updates" % (len(sinks), len(upd)))
        for c in bad:
            r.violation(rid, "%s: %s reached without the node's skip names" % (name, short(c.name).rsplit("::", 1)[-1]),
                        "FmtVisitor::%s (%s) calls %s, from which macro calls / attributes are rewritten, on a path that has not added "
                        "the names listed by the node's #[rustfmt::skip::macros(..)] / #[rustfmt::skip::attributes(..)] to the skip "
                        "context: the named macros and attributes inside are reformatted" % (name, NAME_SCOPE_VISITORS[name], short(c.name)),
                        [c.loc()])
        if not upd:
            if not bad and not wrappers:
                r.violation(rid, "%s: never updates the skip context" % name, "no call to SkipContext::update_with_attrs", ["%s:%d" % (f.file, f.line)])
            continue
        # restore on every path
        writes = [(bb, line) for (adt, var, field, mode, bb, line) in f.field_accesses()
                  if field == "skip_context" and mode == "w" and adt.endswith("FmtVisitor")]
        rb = {bb for bb, _ in writes if bb not in upd_bbs}
        leak = False
        for u in upd:
            rs = f.reachable(u.target if u.target is not None else u.bb, avoid_blocks=rb)
            if any(x in rs for x in f.returns()):
                leak = True
        r.instance(rid, "%s: skip context restored" % name, "ok" if not leak else "violation", "%s:%d" % (f.file, f.line))
        if leak:
            r.violation(rid, "%s: skip context not restored on every path" % name,
                        "a return is reachable from update_with_attrs without a store to self.skip_context: names listed on one "
                        "node stay in force for its later siblings", ["%s:%d" % (f.file, f.line)])
    r.floor(rid, n_sinks, 10, "descending calls in the name-scope visitors")


def token_readers_guarded(ctx, rid):
    """R04-h: whoever reads the argument tokens of a macro call in order to rewrite it has passed the skip-name test"""
    p, r = ctx.p, ctx.r
    tab = ctx.table("C04")
    exc = {e["fn"]: e["reason"] for e in tab.get("token_reader_exception", [])}
    r.rule(rid, "every function that reads MacCall.args.tokens is name-guarded: the read is dominated by the false edge of a "
                "SkipNameContext::skip test on skip_context.macros in the function itself, or every call site of the function "
                "(closures: their construction site) lies in such a guarded region, recursively (depth ≤ 5); module-discovery "
                "parsers are table exceptions")
    readers = []
    for f in p.fns.values():
        if not f.id.startswith("rustfmt_nightly::"):
            continue
        acc = list(f.field_accesses())
        rd = [(bb, line) for (adt, var, field, mode, bb, line) in acc if field == "tokens" and adt.endswith("DelimArgs") and mode == "r"]
        via = any(field == "args" and adt.endswith("::MacCall") for (adt, var, field, mode, bb, line) in acc)
        if rd and via:
            readers.append((f, rd))
    cs = p.callers()

    def guard_edges(fn):
        out = []
        for g in fn.calls():
            if not g.name.endswith("SkipNameContext::skip") or not g.args or g.args[0][0] == "k":
                continue
            fl = {y[2] for y in fn.derived_from(g.args[0][1][0])["fields"]}
            for e in g.args[0][1][1]:
                if isinstance(e, (list, tuple)) and e[0] == "f":
                    fl.add(e[4])
            if "macros" not in fl:
                continue
            for (sw, t_true, t_false) in bool_branches(fn, g.dest[0]):
                out.append((sw, t_true, t_false))
        return out

    def block_guarded(fn, bb):
        for (sw, t_true, t_false) in guard_edges(fn):
            if edge_dominates(fn, (sw, t_false), bb) and bb not in fn.reachable(t_true, avoid_edges=[(sw, t_false)]):
                return True
        return False

    def fn_guarded(fid, depth, seen):
        """every way into fid comes from a guarded region"""
        if depth > 5 or fid in seen:
            return False, ["%s: depth/recursion limit" % short(fid)]
        seen = seen | {fid}
        sites = cs.get(fid, [])
        if not sites:
            if getattr(p.fns[fid], "vis", None) != "pub":
                return True, []      # crate-private and never called: dead code
            return False, ["%s has no callers (entry point)" % short(fid)]
        why = []
        for (src, kind, c) in sites:
            g = p.fns[src]
            if c is not None:
                bbs = [c.bb]
            else:
                bbs = [bb for bb, i, s in g.stmts() if s[0] == "=" and s[2][0] == "agg" and isinstance(s[2][1], list)
                       and s[2][1][0] == "closure" and s[2][1][1] == fid]
                if not bbs:
                    continue
            for bb in bbs:
                if block_guarded(g, bb):
                    continue
                ok, w = fn_guarded(src, depth + 1, seen)
                if not ok:
                    why.append("%s at %s:%s" % (short(src), g.file, c.line if c is not None else g.line))
                    why.extend(w[:2])
        return (not why), why

    n = 0
    for f, rd in sorted(readers, key=lambda x: x[0].id):
        name = short(f.id)
        if f.id in exc:
            r.instance(rid, "%s reads macro argument tokens" % name, "exception", "%s:%d" % (f.file, f.line), exc[f.id], nontrivial=False)
            continue
        n += 1
        own = all(block_guarded(f, bb) for bb, _ in rd)
        ok, why = (True, []) if own else fn_guarded(f.id, 0, frozenset())
        r.instance(rid, "%s reads macro argument tokens" % name, "ok" if ok else "violation", "%s:%d" % (f.file, f.line),
                   "own guard" if own else "guarded at every caller")
        if not ok:
            r.violation(rid, "%s reads macro arguments without the skip-name test" % name,
                        "%s reads MacCall.args.tokens and can be reached without skip_context.macros.skip(name) having answered "
                        "false (%s): a macro named by rustfmt::skip::macros / skip_macro_invocations is rewritten"
                        % (name, "; ".join(why[:4])), ["%s:%d" % (f.file, l) for _, l in rd][:3])
    r.floor(rid, n, 3, "non-excepted readers of MacCall.args.tokens")


def every_attribute_contributes(ctx, rid):
    """R04-i: the names of *all* rustfmt::skip::macros / ::attributes attributes of a node are collected"""
    p, r = ctx.p, ctx.r
    r.rule(rid, "skip::get_skip_names: the attribute slice is traversed completely — no short-circuiting or positional adaptor "
                "(find, find_map, position, nth, take, first, last, get, next outside a loop) stands between `attrs` and the "
                "collected names; a second `#[rustfmt::skip::macros(..)]` on the same node names macros just as the first does")
    from common import natural_loops
    f = p.named("get_skip_names", within="rustfmt_nightly::skip")
    if f is None:
        r.undecidable(rid, "skip::get_skip_names not found")
        return
    SHORT = ("Iterator::find", "Iterator::find_map", "Iterator::position", "Iterator::rposition", "Iterator::nth", "Iterator::take",
             "Iterator::take_while", "Iterator::skip", "Iterator::step_by", "Iterator::last", "Iterator::max", "Iterator::min",
             "Iterator::next", "Iterator::next_back", "Iterator::peekable", "Iterator::any", "Iterator::all",
             "::first", "::last", "::get", "::split_first", "::split_last")
    attrs_args = [i for i in range(1, f.argc + 1) if "Attribute" in f.locals[i]]
    if len(attrs_args) != 1:
        r.undecidable(rid, "get_skip_names: cannot identify the attribute slice parameter")
        return
    a = attrs_args[0]
    n_iter = 0
    bad = []
    bodies = [f] + p.closures_of(f)
    for g in bodies:
        in_loop = set()
        for h, body in natural_loops(g):
            in_loop |= body
        for c in g.calls():
            nm = c.declared or c.name
            if not c.args or c.args[0][0] == "k":
                continue
            if g is f:
                d = f.derived_from(c.args[0][1][0])
                from_attrs = a in d["locals"] or a in d["args"]
            else:
                from_attrs = False
            if not from_attrs:
                continue
            if nm.endswith("IntoIterator::into_iter") or nm.endswith("::iter"):
                n_iter += 1
            for sname in SHORT:
                if nm.endswith(sname) or c.name.endswith(sname):
                    if sname == "Iterator::next" and c.bb in in_loop:
                        continue        # the desugaring of `for attr in attrs`
                    # adaptors applied to the *inner* list of one attribute (meta_item_list) are not on the attrs iterator:
                    inner = any(x.name.endswith("meta_item_list") for x in f.derived_from(c.args[0][1][0])["calls"])
                    if inner:
                        continue
                    bad.append((sname.rsplit("::", 1)[-1], c))
    r.instance(rid, "get_skip_names traverses the whole attribute slice", "ok" if not bad and n_iter else "violation",
               "%s:%d" % (f.file, f.line), "%d traversals" % n_iter)
    for nm, c in bad:
        r.violation(rid, "get_skip_names stops at / picks one attribute (%s)" % nm,
                    "the attribute iterator goes through `%s`: only one of several `#[rustfmt::skip::macros(..)]` / "
                    "`#[rustfmt::skip::attributes(..)]` attributes on a node contributes its names, the macros and attributes "
                    "named by the others are reformatted" % nm, [c.loc()])
    if not n_iter and not bad:
        r.undecidable(rid, "get_skip_names: no traversal of the attribute slice found")


def module_file_attrs_scope(ctx, rid):
    """R04-j: the inner attributes of every formatted file reach the skip context, not only those of the crate root"""
    p, r = ctx.p, ctx.r
    r.rule(rid, "FormatContext::format_file calls SkipContext::update_with_attrs with the attributes of the *module being "
                "formatted* (derived from its `module` parameter) before format_separate_mod — besides the crate root's: "
                "`#![rustfmt::skip::macros(..)]` at the top of sub.rs must mean the same whether sub.rs is reached through "
                "`mod sub;` or given on the command line")
    f = p.named("format_file", within="FormatContext")
    if f is None:
        r.undecidable(rid, "FormatContext::format_file not found")
        return
    mods = [i for i in range(1, f.argc + 1) if "modules::Module" in f.locals[i]]
    upd = [c for c in f.calls() if c.name.endswith("SkipContext::update_with_attrs")]
    fsm = [c for c in f.calls() if c.name.endswith("::format_separate_mod")]
    own = []
    for c in upd:
        if len(c.args) > 1 and c.args[1][0] != "k":
            d = f.derived_from(c.args[1][1][0])
            if any(m in d["locals"] or m in d["args"] for m in mods):
                own.append(c)
    ok = bool(own) and bool(fsm) and all(any(u.bb in f.dominators().get(s_.bb, ()) for u in own) for s_ in fsm)
    r.instance(rid, "format_file scopes the module's own attributes", "ok" if ok else "violation", "%s:%d" % (f.file, f.line),
               "%d updates, %d from the module" % (len(upd), len(own)))
    if not ok:
        r.violation(rid, "format_file does not add the module file's own skip names",
                    "the skip context of a file's visitor is filled from the crate root's attributes only: inner "
                    "`#![rustfmt::skip::macros(..)]` / `#![rustfmt::skip::attributes(..)]` of an out-of-line module file are "
                    "ignored when the file is formatted through its parent", ["%s:%d" % (f.file, f.line)])
    r.floor(rid, len(upd), 1, "update_with_attrs calls in format_file")


def reordering_spares_skipped_items(ctx, rid):
    """R04-k: an item marked skip is never classified as reorderable"""
    from absint import explore, vkey
    p, r = ctx.p, ctx.r
    r.rule(rid, "reorder::ReorderableItemKind::from answers ExternCrate / Mod / Use — the kinds that walk_reorderable_items sorts and "
                "re-renders from the AST, without ever reaching visit_item's own skip test — only on paths on which "
                "`utils::contains_skip(item.attrs)` answered false.  contains_skip is the one test that knows every spelling of the "
                "marker (`#[rustfmt::skip]`, `#[rustfmt_skip]`, either inside `cfg_attr`); `skip::is_skip_attr` recognises the bare "
                "path only and serves the unknown-attribute diagnostic, so its callers are confined to visitor::is_unknown_rustfmt_attr "
                "(and skip.rs itself)")
    f = p.named("from", within="ReorderableItemKind")
    if f is None:
        r.undecidable(rid, "reorder::ReorderableItemKind::from not found")
        return
    paths = explore(f, pure=lambda c: True, max_paths=5000, program=p, inline="auto")
    n = 0
    for path in paths:
        if path.end != "ret" or path.ret is None:
            continue
        kind = vkey(path.ret)
        if kind not in ("ExternCrate", "Mod", "Use"):
            continue
        n += 1
        import c11
        ok = c11.pin_guard(p, list(path.decisions))[0] is False or any(
            v is False and "utils::contains_skip(" in k and "arg1" in k and "BitAnd" not in k and "!" not in k for k, v in path.decisions)
        r.instance(rid, "ReorderableItemKind::from ↦ %s" % kind, "ok" if ok else "violation", "%s:%d" % (f.file, f.line),
                   "contains_skip(item.attrs) = false on the path" if ok else
                   "decided by %s" % [k[-50:] for k, v in path.decisions][:3])
        if not ok:
            r.violation(rid, "ReorderableItemKind::from classifies an item as %s without contains_skip having answered false" % kind,
                        "a skip-marked use / mod / extern crate declaration is sorted with its neighbours and re-rendered",
                        ["%s:%d" % (f.file, f.line)])
    r.floor(rid, n, 3, "paths of ReorderableItemKind::from that answer a reorderable kind")
    callers = sorted({short(g.id).split("::{closure")[0] for g in p.by_crate["rustfmt_nightly"] for c in g.calls()
                      if c.name.endswith("skip::is_skip_attr") and not short(g.id).startswith("skip::")})
    okc = set(callers) <= {"visitor::FmtVisitor::<'a>::is_unknown_rustfmt_attr"}
    r.instance(rid, "callers of skip::is_skip_attr outside skip.rs: %s" % callers, "ok" if okc else "violation", "src/skip.rs")
    if not okc:
        r.violation(rid, "skip::is_skip_attr is used as a skip test by %s" % sorted(set(callers) - {"visitor::FmtVisitor::<'a>::is_unknown_rustfmt_attr"}),
                    "it does not look inside cfg_attr and does not know `rustfmt_skip`: items marked that way are not recognised",
                    ["src/skip.rs"])


def generated_marker_is_sought_in_the_whole_file(ctx, rid):
    """R04-l: the text searched for the @generated marker is the file's whole text"""
    p, r = ctx.p, ctx.r
    r.rule(rid, "whole-file opt-out by marker: at every call of formatting::generated::is_generated_file the text argument is the "
                "complete text of the file the module lives in — it derives from a read of `SourceFile::src` (directly or in a "
                "workspace helper whose result it is) and from no span-limited snippet (span_to_snippet / snippet / "
                "SnippetProvider). The span of an out-of-line module starts at its first token: the header comment that "
                "carries `@generated` lies before it, so a snippet of the span never contains the marker and the generated "
                "file is rewritten")
    sites = [c for c in p.all_calls() if c.name.endswith("generated::is_generated_file") and c.fn.crate == "rustfmt_nightly"]
    n = 0
    for c in sites:
        f = c.fn
        n += 1
        if not c.args or c.args[0][0] == "k":
            r.violation(rid, "%s: is_generated_file on a constant" % short(f.id), "", [c.loc()])
            continue
        seen_src, snippets = False, []
        work, done = [(f, f.derived_from(c.args[0][1][0]), 0)], set()
        while work:
            g, d, depth = work.pop()
            if any(a and a.endswith("rustc_span::SourceFile") and str(fl) == "src" for (a, v, fl) in d["fields"]):
                seen_src = True
            for cc in d["calls"]:
                last = short(cc.name)
                if re.search(r"span_to_snippet|snippet_provider|SnippetProvider|::snippet\b|get_original_snippet", cc.name):
                    snippets.append(last)
                h = p.fns.get(cc.name)
                if h is not None and h.id not in done and depth < 2:
                    done.add(h.id)
                    # a helper whose result is handed on: everything its return value derives from
                    hd = h.derived_from(0)
                    work.append((h, hd, depth + 1))
        ok = seen_src and not snippets
        r.instance(rid, "%s: text handed to is_generated_file" % short(f.root or f.id), "ok" if ok else "violation", c.loc(),
                   "derives from SourceFile::src=%s, span-limited sources=%s" % (seen_src, sorted(set(snippets))))
        if not ok:
            r.violation(rid, "%s: the @generated marker is not sought in the whole text of the file" % short(f.root or f.id),
                        "the text handed to is_generated_file %s: the header comment of an out-of-line module file lies outside "
                        "the module's span" % ("comes from a span-limited snippet (%s)" % ", ".join(sorted(set(snippets)))
                                               if snippets else "does not derive from SourceFile::src"), [c.loc()])
    r.floor(rid, n, 1, "call sites of is_generated_file")


def echoed_text_is_the_text_as_read(ctx, rid):
    """R04-m: an opted-out text that is echoed is echoed byte for byte"""
    p, r = ctx.p, ctx.r
    r.rule(rid, "a text on standard input that opts out as a whole (inner skip attribute, disable_all_formatting) is answered by "
                "echoing it: at every call of formatting::echo_back_stdin the argument is the text *as it was read* — the buffer "
                "of Input::Text or the result of ParseSess::get_original_snippet — and derives from no source-map snippet "
                "(SnippetProvider::entire_snippet, snippet_provider, span_to_snippet): rustc's SourceMap stores a file with "
                "every CRLF turned into LF, so echoing its copy changes every line terminator of a text that asked to be left alone")
    sites = [c for c in p.all_calls() if c.name.endswith("formatting::echo_back_stdin") and c.fn.crate == "rustfmt_nightly"]
    for c in sites:
        f = c.fn
        d = f.derived_from(c.args[0][1][0]) if c.args and c.args[0][0] != "k" else {"calls": [], "fields": []}
        fields = list(d["fields"]) + [(e[2], e[3], e[4]) for e in (c.args[0][1][1] if c.args and c.args[0][0] != "k" else [])
                                      if isinstance(e, list) and e[0] == "f"]
        normalised = sorted({short(x.name) for x in d["calls"] if re.search(r"entire_snippet|snippet_provider|span_to_snippet|::snippet$", x.name)})
        as_read = any(x.name.endswith("ParseSess::get_original_snippet") for x in d["calls"]) or \
            any(a and a.endswith("::Input") and v == "Text" for (a, v, fl) in fields)
        ok = as_read and not normalised
        if normalised and not as_read:
            # the source-map copy may stand in where the text as read could not be had: on the None edge of get_original_snippet
            from common import result_edges
            for g in f.calls():
                if g.name.endswith("ParseSess::get_original_snippet"):
                    for e in result_edges(f, g):
                        if e["err"] is not None and edge_dominates(f, (e["sw"], e["err"]), c.bb):
                            ok = True
        r.instance(rid, "%s: text handed to echo_back_stdin" % short(f.root or f.id), "ok" if ok else "violation", c.loc(),
                   "as read=%s, source-map copies=%s" % (as_read, normalised))
        if not ok:
            r.violation(rid, "%s echoes a source-map copy of the input" % short(f.root or f.id),
                        "the text handed to echo_back_stdin %s: `#![rustfmt::skip]` on standard input with CRLF line endings comes "
                        "back with LF" % ("derives from %s" % ", ".join(normalised) if normalised else
                                          "is neither Input::Text's buffer nor get_original_snippet's result"), [c.loc()])
    r.floor(rid, len(sites), 2, "call sites of echo_back_stdin")
