"""C16 — rustfmt never terminates abnormally (partial).

R16-a parser containment (catch_unwind) · R16-b macro / snippet containment · R16-c exit codes ⊆ {0,1}
R16-d config-minus-unbounded subtraction · R16-e panic strategy
"""
import os
import re

import effects
from common import short, op_local, local_origin, operand_origin, rvalue_operands

CATCH = "std::panic::catch_unwind"


def entry_points(p):
    entries = set()
    for f in p.fns.values():
        if f.kind != "Closure" and (f.vis == "pub" or (f.name == "main" and f.crate != "rustfmt_nightly")):
            entries.add(f.id)
    return entries


def containment(p, assumed_edges=None):
    """greatest fixed point: set of contained body ids, and for reporting the referrers of each body.
    References from bodies that no entry point reaches (dead code) are ignored."""
    edges = p.edges()
    entries0 = entry_points(p)
    live = p.reach_from(entries0)
    refs = {}   # body -> list of (referrer, containing?, call)
    assumed = {(e["from"], e["to"]) for e in (assumed_edges or [])}
    for src, lst in edges.items():
        if src not in live:
            continue
        f = p.fns[src]
        used_in_calls = set()
        for (t, kind, c) in lst:
            if c is not None and kind in ("higher-order", "fn-arg"):
                used_in_calls.add(t)
        for (t, kind, c) in lst:
            if kind == "constructs" and t in used_in_calls:
                continue
            containing = False
            if c is not None and effects.strip_generics(c.name) == CATCH and t in c.refs:
                containing = True
            if (src, t) in assumed:
                containing = True
            refs.setdefault(t, []).append((src, containing, c))
    contained = set(p.fns)
    # entry points are never contained
    entries = entries0
    contained -= entries
    for b in list(contained):
        if b not in refs:
            contained.discard(b)   # unreferenced: dead or external entry; judged separately
    changed = True
    while changed:
        changed = False
        for b in list(contained):
            for (src, containing, c) in refs.get(b, []):
                if containing:
                    continue
                if src not in contained:
                    contained.discard(b)
                    changed = True
                    break
    return contained, refs, entries


def reachable_from_entries(p, entries):
    return p.reach_from(entries)


def parser_containment(ctx, rid, only_root_open=False):
    p, r = ctx.p, ctx.r
    r.rule(rid, "containment fixpoint over the call graph: every workspace call into rustc_parse (parser construction, "
                "Parser methods, unwrap_or_emit_fatal) lies in a body all of whose references come from a catch_unwind "
                "closure or from a contained body" + (" [restricted to the root-file open for C05]" if only_root_open else ""))
    tab = ctx.table("C16")
    assumed = tab.get("assumed_contained_edge", [])
    for e in assumed:
        ok = e["from"] in p.fns and e["to"] in p.fns and any(t == e["to"] for (t, k, c) in p.edges().get(e["from"], []))
        r.instance(rid, "table exception: edge %s -> %s" % (short(e["from"]), short(e["to"])),
                   "exception" if ok else "stale", "", e["reason"], nontrivial=False)
    contained, refs, entries = containment(p, assumed)
    live = reachable_from_entries(p, entries)
    sites = [c for c in p.all_calls(crate="rustfmt_nightly") if effects.is_rustc_parser_entry(c)]
    n_catch = len([c for c in p.all_calls(crate="rustfmt_nightly") if effects.strip_generics(c.name) == CATCH])
    if not only_root_open:
        r.floor(rid, n_catch, 6, "catch_unwind sites in the library")
        r.floor(rid, len(sites), 20, "calls into rustc_parse")
    by_fn = {}
    for c in sites:
        by_fn.setdefault(c.fn.id, []).append(c)
    for fid, cs in sorted(by_fn.items()):
        if only_root_open and not fid.endswith("ParserBuilder::<'a>::parser"):
            continue
        if fid not in live:
            r.instance(rid, "parser calls in %s" % short(fid), "unreachable", cs[0].loc(),
                       "no call path from an entry point; not judged", nontrivial=False)
            continue
        ok = fid in contained
        r.instance(rid, "parser calls in %s" % short(fid), "contained" if ok else "violation", cs[0].loc(),
                   ", ".join(sorted({short(c.name) for c in cs}))[:300])
        if ok:
            continue
        # one violation per (function, callee)
        # explain: chain of uncontained referrers up to an entry
        chain = []
        cur = fid
        seen = {cur}
        while cur not in entries and len(chain) < 12:
            nxt = None
            for (src, containing, c) in refs.get(cur, []):
                if not containing and src not in contained and src not in seen:
                    nxt = (src, c)
                    break
            if nxt is None:
                break
            chain.append("%s%s" % (short(nxt[0]), (" @" + nxt[1].loc()) if nxt[1] is not None else ""))
            seen.add(nxt[0])
            cur = nxt[0]
        for callee in sorted({effects.strip_generics(c.name) for c in cs}):
            site = [c for c in cs if effects.strip_generics(c.name) == callee][0]
            r.violation(rid, "uncontained parser call: %s -> %s" % (short(fid), callee),
                        "%s calls %s outside any catch_unwind: a fatal error / panic inside the Rust parser is not contained "
                        "(reached from %s)" % (short(fid), callee, " <- ".join(chain) or "an entry point"),
                        [site.loc()] + chain)
    return contained, refs, entries


def run(ctx):
    p, r = ctx.p, ctx.r
    contained, refs, entries = parser_containment(ctx, "R16-a")

    # R16-b ---------------------------------------------------------------------------------------
    r.rule("R16-b", "rewrite_macro_inner is contained (called only under rewrite_macro's catch_unwind closure); "
                    "format_snippet / format_code_block run the formatter only inside their catch_unwind closure")
    for name in ("rustfmt_nightly::macros::rewrite_macro_inner",):
        f = p.fns.get(name)
        if f is None:
            r.undecidable("R16-b", "%s not found" % name)
            continue
        ok = name in contained
        r.instance("R16-b", short(name), "contained" if ok else "violation", "%s:%d" % (f.file, f.line))
        if not ok:
            who = [short(src) for (src, cont, c) in refs.get(name, []) if not cont and src not in contained]
            r.violation("R16-b", "%s not contained" % short(name),
                        "macro rewriting is reachable outside catch_unwind (from %s): a panic while formatting one macro "
                        "kills the run" % who, ["%s:%d" % (f.file, f.line)])
    fs = p.fn("rustfmt_nightly::format_snippet")
    if fs is None:
        r.undecidable("R16-b", "format_snippet not found")
    else:
        fmt_targets = {f.id for f in p.fns.values() if f.id.endswith("::format_input_inner")}
        reach_fmt = p.can_reach(fmt_targets)
        bad = [c for c in fs.calls() if any(t in reach_fmt for (t, k) in p.call_targets(c) if k in ("direct", "cha"))]
        has_catch = any(effects.strip_generics(c.name) == CATCH for c in fs.calls())
        ok = has_catch and not bad
        r.instance("R16-b", "format_snippet", "ok" if ok else "violation", "%s:%d" % (fs.file, fs.line),
                   "formatter calls outside the closure: %d" % len(bad))
        if not ok:
            r.violation("R16-b", "format_snippet: formatting outside catch_unwind",
                        "format_snippet %s" % ("has no catch_unwind" if not has_catch else
                                                "calls %s outside its catch_unwind closure" % short(bad[0].name)),
                        ["%s:%d" % (fs.file, fs.line)])

    exit_codes(ctx, "R16-c")
    raw_subtractions(ctx, "R16-d")
    char_byte_units(ctx, "R16-f")
    config_valued_panics(ctx, "R16-g")
    path_parent_unwraps(ctx, "R16-h")
    parsed_integers_not_unwrapped(ctx, "R16-j")
    constant_subtraction_preconditions(ctx, "R16-n")
    fallible_results_not_unwrapped(ctx, "R16-o")
    panic_arms_are_excluded_by_callers(ctx, "R16-p")
    kind_comparators_are_total_orders(ctx, "R16-q")
    use_path_heads_are_guarded(ctx, "R16-r")
    option_values_are_not_incremented_unchecked(ctx, "R16-s")
    signal_dispositions_are_left_alone(ctx, "R16-t")
    token_loops_make_progress(ctx, "R16-k")
    dependency_preconditions(ctx, "R16-l")
    stdin_never_reaches_file_emitters(ctx, "R16-m")
    import c03
    c03.offset_base_agreement(ctx, "R16-i")

    # R16-e ---------------------------------------------------------------------------------------
    r.rule("R16-e", "Cargo.toml profiles do not set panic = \"abort\" (catch_unwind would be void)")
    import tomllib
    man = os.path.join(ctx.repo, "Cargo.toml")
    with open(man, "rb") as fh:
        t = tomllib.load(fh)
    bad = [name for name, prof in (t.get("profile") or {}).items() if isinstance(prof, dict) and prof.get("panic") == "abort"]
    r.instance("R16-e", "Cargo.toml profiles", "ok" if not bad else "violation", "Cargo.toml", str(sorted((t.get("profile") or {}))))
    if bad:
        r.violation("R16-e", "panic=abort in profile %s" % bad[0], "profile(s) %s set panic = \"abort\"" % bad, ["Cargo.toml"])
    # .cargo/config in the repo could do the same through rustflags
    for cfg in (".cargo/config.toml", ".cargo/config"):
        pth = os.path.join(ctx.repo, cfg)
        if os.path.exists(pth):
            txt = open(pth).read()
            if re.search(r"panic\s*=\s*\"?abort", txt):
                r.violation("R16-e", "panic=abort in %s" % cfg, "repository cargo config selects panic=abort", [cfg])


# ---------------------------------------------------------------------------------------------

def exit_codes(ctx, rid):
    p, r = ctx.p, ctx.r
    from intflow import IntFlow
    r.rule(rid, "interprocedural constant propagation: every value reaching process::exit in the tools is 0, 1, or "
                "(cargo-fmt) a child's exit code; no process::abort")
    flow = IntFlow(p)
    sites = [c for c in p.all_calls() if effects.PROCESS_EXIT_RX.search(effects.strip_generics(c.name))]
    n = 0
    for c in sites:
        if c.fn.crate == "build_script_build":
            continue
        n += 1
        if c.name.endswith("abort"):
            r.violation(rid, "process::abort in %s" % short(c.fn.id), "abort terminates with a signal", [c.loc()])
            continue
        vals = flow.call_arg_values(c.fn, c, 1)
        bad = [v for v in vals if isinstance(v, int) and v not in (0, 1)]
        dyn = [v for v in vals if isinstance(v, tuple) and v[0] == "dyn"]
        child = [v for v in vals if isinstance(v, tuple) and v[0] == "child-code"]
        if child and c.fn.crate != "cargo_fmt":
            bad.append("child exit code outside cargo-fmt")
        ok = not bad and not dyn
        r.instance(rid, c.key(), "ok" if ok else ("violation" if bad else "undecided"), c.loc(),
                   "possible values %s" % sorted(map(str, vals)))
        if bad:
            r.violation(rid, "exit code of %s" % short(c.fn.id),
                        "process::exit may be called with %s (only 0, 1 or a child's code are allowed)" % sorted(map(str, bad)),
                        [c.loc()])
        elif dyn:
            r.undecidable(rid, "exit operand of %s not resolved to constants: %s" % (short(c.fn.id), sorted(map(str, dyn))[:3]))
    r.paths(rid, flow.paths_examined)
    r.floor(rid, n, 3, "process::exit sites in the tools")


# ---------------------------------------------------------------------------------------------
UNBOUNDED_CALLEES = ("Indent::width", "Shape::used_width", "last_line_width", "first_line_width", "str::len",
                     "String::len", "unicode_str_width", "Indent::block_indent", "trimmed_last_line_width",
                     "Shape::offset", "Indent::block_only")
UNBOUNDED_FIELDS = ("block_indent", "alignment", "offset", "indent")


def is_config_getter(c):
    n = c.name
    return n.startswith("rustfmt_nightly::config::Config::") and c.fn is not None and len(c.args) == 1


def raw_subtractions(ctx, rid):
    p, r = ctx.p, ctx.r
    r.rule(rid, "checked subtractions (SubWithOverflow+Assert) whose minuend is only the result of a Config width getter and "
                "whose subtrahend derives from unbounded layout quantities (Indent::width, used_width, line widths, lengths) "
                "without a dominating comparison of the two: latent panic because nesting depth is unbounded; the idiom is "
                "saturating_sub / checked_sub")
    total = 0
    flagged = 0
    for f in p.by_crate["rustfmt_nightly"]:
        if "print_docs" in f.id:
            continue
        for bb, i, s in f.stmts():
            if s[0] != "=" or s[2][0] != "bin" or s[2][1] not in ("SubWithOverflow",):
                continue
            total += 1
            a, b = s[2][2], s[2][3]
            oa = operand_origin(f, a)
            if not (oa[0] == "call" and is_config_getter(oa[1]) and f.locals[oa[1].dest[0]] == "usize"):
                continue
            # subtrahend
            if b[0] == "k":
                continue
            lb = op_local(b)
            if lb is None:
                continue
            d = f.derived_from(lb)
            unb_calls = [c for c in d["calls"] if any(c.name.endswith(u) for u in UNBOUNDED_CALLEES)]
            cfg_calls = [c for c in d["calls"] if is_config_getter(c)]
            unb_fields = [x for x in d["fields"] if x[2] in UNBOUNDED_FIELDS]
            if not unb_calls and not unb_fields:
                continue
            # a dominating comparison between the two operands (or checked on the same minuend)?
            dom = f.dominators()
            guarded = False
            for dbb in dom.get(bb, ()):
                o = None
                t = f.term(dbb)
                if t[0] == "switch":
                    o = operand_origin(f, t[1])
                if o and o[0] == "bin" and o[1] in ("Lt", "Le", "Gt", "Ge"):
                    sides = (o[2], o[3])
                    if any(x[0] == "call" and is_config_getter(x[1]) and x[1].name == oa[1].name for x in sides):
                        guarded = True
            key = "%s: %s - <%s>" % (short(f.id), short(oa[1].name),
                                     ",".join(sorted({short(c.name) for c in unb_calls} | {x[2] for x in unb_fields})))
            if guarded:
                r.instance(rid, key, "guarded", "%s:%d" % (f.file, s[3]))
                continue
            flagged += 1
            r.instance(rid, key, "violation", "%s:%d" % (f.file, s[3]))
            r.violation(rid, key,
                        "`%s() - <unbounded layout quantity>` is a checked subtraction with no dominating comparison: it "
                        "panics (debug) or wraps (release) once the nesting is deeper than the configured width" % short(oa[1].name),
                        ["%s:%d" % (f.file, s[3])])
    r.floor(rid, total, 60, "checked subtractions outside print_docs")
    # conforming idiom present (positive control): saturating_sub on a config getter
    sat = [c for c in p.all_calls(crate="rustfmt_nightly") if c.name.endswith("::saturating_sub")
           and c.args and c.args[0][0] != "k" and operand_origin(c.fn, c.args[0])[0] == "call"
           and is_config_getter(operand_origin(c.fn, c.args[0])[1])]
    r.floor(rid, len(sat), 3, "conforming saturating_sub sites on a Config getter")
    r.note("R16-d: %d checked subtractions examined, %d flagged, %d conforming saturating_sub sites" % (total, flagged, len(sat)))


# ---------------------------------------------------------------------------------------------
CHAR_SOURCES = ("first_line_width", "last_line_width", "unicode_str_width", "trimmed_last_line_width", "UnicodeWidthStr",
                "UnicodeWidthChar", "last_line_used_width", "Indent::width", "Shape::used_width")
BYTE_SANITIZERS = ("char_indices", "::len", "::find", "::rfind", "byte_offset", "::position", "floor_char_boundary",
                   "ceil_char_boundary", "is_char_boundary", "::min")


_RET_TAINT = {}


def _ret_taint(p, fn, depth):
    """char-count sources the value returned by a workspace function derives from (memoised summary)"""
    if fn.id in _RET_TAINT:
        return _RET_TAINT[fn.id]
    _RET_TAINT[fn.id] = []          # cycle guard
    if depth > 3 or not any(t in fn.locals[0] for t in ("usize", "u32")):
        return []
    out = _taint_sources(p, fn, 0, depth + 1)
    _RET_TAINT[fn.id] = out
    return out


STR_FIND = ("core::str::<impl str>::find", "core::str::<impl str>::rfind")


def _shift_of(rv):
    """(op, k, other operand) when rv is `x ± k` with a positive integer constant k"""
    if rv[0] != "bin":
        return None
    op = rv[1].replace("WithOverflow", "").replace("Unchecked", "")
    if op not in ("Add", "Sub"):
        return None
    a, b = rv[2], rv[3]
    for kc, oth in ((a, b), (b, a)):
        if kc[0] == "k" and oth[0] != "k" and isinstance(kc[2], int) and not isinstance(kc[2], bool) and 0 < kc[2] <= 8:
            if op == "Sub" and kc is a:
                return None
            return (op, kc[2], oth)
    return None


fn_prog = None


def _ascii_char_predicate(g):
    """closure body: no calls, every comparison is `c == '<ascii>'` (or `!=`), nothing else decides the result"""
    if g is None or g.kind != "Closure" or list(g.calls()):
        return False
    cmps = 0
    for bb, i, st in g.stmts():
        if st[0] == "=" and st[2][0] == "bin":
            if st[2][1] not in ("Eq", "Ne", "BitOr", "BitAnd"):
                return False
            if st[2][1] in ("Eq", "Ne"):
                ks = [x for x in (st[2][2], st[2][3]) if x[0] == "k"]
                if len(ks) != 1 or not isinstance(ks[0][2], dict) or "char" not in ks[0][2] or not str(ks[0][2]["char"]).isascii():
                    return False
                cmps += 1
    return cmps >= 1


def _shifted_find(fn, op, k, local):
    """R16-g: is `local ± k` a byte index that may fall inside a character?  local derives from str::find / rfind.
    `+k` is exact only after a literal ASCII pattern of k bytes; `-k` presumes the preceding character is k bytes wide."""
    d = fn.derived_from(local, stop_calls=lambda c: c.name in STR_FIND)
    out = []
    for fc in d["calls"]:
        if fc.name not in STR_FIND or len(fc.args) < 2:
            continue
        o = operand_origin(fn, fc.args[1])
        lit = None
        if o[0] == "const" and isinstance(o[1], dict):
            lit = o[1].get("char") if "char" in o[1] else o[1].get("str")
        literal_ok = isinstance(lit, str) and lit.isascii() and len(lit) == k
        if not literal_ok and k == 1 and fc.refs:
            # a predicate closure that only compares its character with ASCII constants matches a 1-byte character
            literal_ok = all(_ascii_char_predicate(fn_prog.fns.get(x)) for x in fc.refs) if fn_prog is not None else False
        if op == "Sub":
            out.append("byte index of a found character − %d (the preceding character may be wider than %d byte)" % (k, k))
        elif not literal_ok:
            out.append("byte index of a character matched by a predicate + %d (the character may be wider than %d byte)" % (k, k))
    return out


def _taint_sources(p, fn, local, depth=0):
    """char-count sources a local derives from, stopping at char→byte conversions"""
    seen = set()
    out = []
    work = [local]
    while work:
        l = work.pop()
        if l in seen:
            continue
        seen.add(l)
        for bb, kind, payload in fn.defs().get(l, []):
            if kind in ("assign", "partial") and not hasattr(payload, "callee"):
                rv = payload[2]
                sh = _shift_of(rv)
                if sh is not None:
                    out += _shifted_find(fn, sh[0], sh[1], sh[2][1][0])
                for op in rvalue_operands(rv):
                    if op[0] != "k":
                        work.append(op[1][0])
                        for e in op[1][1]:
                            if isinstance(e, (list, tuple)) and e[0] == "f" and e[2] and e[2].endswith("ErrorKind") and e[3] == "LineOverflow":
                                out.append("ErrorKind::LineOverflow payload (columns)")
                            if isinstance(e, (list, tuple)) and e[0] == "f" and e[4] == "line_len":
                                out.append("FormatLines.line_len (columns)")
                from common import rvalue_places
                for pl in rvalue_places(rv):
                    work.append(pl[0])
            else:
                c = payload
                nm = c.name
                # Option<usize>::map(|pos| pos ± k) applied to the result of a find
                if nm.rsplit("::", 1)[-1] in ("map", "map_or", "map_or_else", "and_then") and "Option" in nm and c.args and c.args[0][0] != "k":
                    for ref in c.refs:
                        g = p.fns.get(ref)
                        if g is None or g.kind != "Closure":
                            continue
                        for bb2, i2, st2 in g.stmts():
                            if st2[0] == "=":
                                sh = _shift_of(st2[2])
                                if sh is not None and not sh[2][1][1] and local_origin(g, sh[2][1][0])[0] == "arg":
                                    out += _shifted_find(fn, sh[0], sh[1], c.args[0][1][0])
                body = p.fns.get(c.resolved or "")
                sanit = any(x in nm for x in BYTE_SANITIZERS) and "count" not in nm.rsplit("::", 1)[-1]
                if body is not None and body.kind == "Closure" and any("char_indices" in cc.name for cc in body.calls()):
                    sanit = True
                if sanit:
                    continue
                if any(x in nm for x in CHAR_SOURCES):
                    out.append(short(nm))
                    continue
                if body is not None and body.kind != "Closure" and body.crate == "rustfmt_nightly" and depth < 3:
                    rt = _ret_taint(p, body, depth)
                    if rt:
                        out.append("%s (returns %s)" % (short(nm), sorted(set(rt))[0]))
                        continue
                if c.declared == "std::iter::Iterator::count" and any("Chars" in g or "TakeWhile" in g for g in c.ga):
                    out.append("chars().count()")
                    continue
                for a in c.args:
                    if a[0] != "k":
                        work.append(a[1][0])
    return out


def char_byte_units(ctx, rid):
    global fn_prog
    p, r = ctx.p, ctx.r
    fn_prog = p
    _RET_TAINT.clear()
    r.rule(rid, "unit discipline at panicking sinks: the range / offset operand of a `str` slice (Index/get/split_at) or of an "
                "annotate-snippets span does not derive from a character or column count (chars().count(), width functions, "
                "LineOverflow payload) unless it went through a char→byte conversion (char_indices, len, find, …), nor from a byte "
                "index returned by str::find / rfind shifted by a constant that presumes the width of a character (`+k` after a "
                "non-literal pattern, `−k` at all): such a slice panics with `byte index N is not a char boundary` on the first "
                "multi-byte character")
    tab = ctx.table("C16")
    exc = {e["fn"]: e["reason"] for e in tab.get("unit_exception", [])}
    n = 0
    for f in p.by_crate["rustfmt_nightly"]:
        for c in f.calls():
            nm = c.name
            is_span = "annotate_snippets" in nm and nm.endswith("::span")
            is_slice = (("ops::Index" in nm or nm.endswith("::get") or nm.endswith("split_at") or nm.endswith("::truncate")
                         or nm.endswith("::replace_range") or nm.endswith("::insert_str"))
                        and any(g.replace("&", "").replace("mut ", "").strip() in ("str", "std::string::String") for g in c.ga[:1]))
            if not (is_span or is_slice):
                continue
            n += 1
            srcs = []
            for a in (c.args[1:] if len(c.args) > 1 else c.args):
                if a[0] != "k":
                    srcs += _taint_sources(p, f, a[1][0])
            if not srcs:
                continue
            owner = f.root or f.id
            key = "%s: %s fed by %s" % (short(owner), "annotation span" if is_span else "str slice", sorted(set(srcs))[0])
            if owner in exc:
                r.instance(rid, key, "exception", c.loc(), exc[owner], nontrivial=False)
                continue
            r.instance(rid, key, "violation", c.loc())
            r.violation(rid, key,
                        "a byte-indexed operation on text receives an offset computed from %s: with non-ASCII text the offset "
                        "falls inside a character and rustfmt panics" % sorted(set(srcs)), [c.loc()])
    r.floor(rid, n, 60, "str slicing / span sinks examined")


def config_valued_panics(ctx, rid):
    """R16-g: operations that panic on particular *values* receive no unconstrained configuration value"""
    p, r = ctx.p, ctx.r
    r.rule(rid, "(a) no `/` or `%` whose divisor is the result of a Config getter (every integer option accepts 0) unless a "
                "comparison of that getter with a constant dominates it — the idiom is checked_div / checked_rem; "
                "(b) no Ord::clamp whose bounds derive from two different Config getters (clamp asserts min ≤ max and the "
                "configuration does not relate the two options)")
    n_div = n_clamp = 0
    for f in p.by_crate["rustfmt_nightly"]:
        if "print_docs" in f.id:
            continue
        for bb, i, s in f.stmts():
            if s[0] != "=" or s[2][0] != "bin" or s[2][1] not in ("Div", "Rem"):
                continue
            n_div += 1
            b = s[2][3]
            if b[0] == "k":
                continue
            d = f.derived_from(b[1][0])
            getters = [c for c in d["calls"] if is_config_getter(c)]
            if not getters:
                continue
            # clamped away from zero on the way (`.max(1)`)?
            floored = any(c.name.endswith("::max") and any(a[0] == "k" and isinstance(a[2], int) and a[2] >= 1 for a in c.args)
                          for c in d["calls"])
            dom = f.dominators()
            guarded = floored
            for dbb in dom.get(bb, ()):
                t = f.term(dbb)
                if t[0] != "switch":
                    continue
                o = operand_origin(f, t[1])
                if o and o[0] == "bin" and o[1] in ("Eq", "Ne", "Lt", "Le", "Gt", "Ge"):
                    sides = (o[2], o[3])
                    if any(x[0] == "call" and is_config_getter(x[1]) and x[1].name == getters[0].name for x in sides) \
                            and any(x[0] == "const" for x in sides):
                        guarded = True
                if o and o[0] == "call" and is_config_getter(o[1]) and o[1].name == getters[0].name and t[4] != "bool":
                    guarded = True     # switchInt(getter()) -> [0: .., otherwise: ..]
            key = "%s: %s by %s" % (short(f.id), "division" if s[2][1] == "Div" else "remainder", short(getters[0].name))
            r.instance(rid, key, "guarded" if guarded else "violation", "%s:%d" % (f.file, s[3]))
            if not guarded:
                r.violation(rid, key,
                            "`x %s %s()` panics with `attempt to %s` when the option is 0, a value the configuration accepts"
                            % ("/" if s[2][1] == "Div" else "%", short(getters[0].name),
                               "divide by zero" if s[2][1] == "Div" else "calculate the remainder with a divisor of zero"),
                            ["%s:%d" % (f.file, s[3])])
        for c in f.calls():
            if not (c.name.endswith("::clamp") or (c.declared or "").endswith("cmp::Ord::clamp")) or len(c.args) < 3:
                continue
            n_clamp += 1
            gs = []
            for a in c.args[1:3]:
                if a[0] == "k":
                    gs.append(set())
                else:
                    gs.append({x.name for x in f.derived_from(a[1][0])["calls"] if is_config_getter(x)})
            if gs[0] and gs[1] and gs[0] != gs[1]:
                key = "%s: clamp between %s and %s" % (short(f.id), short(sorted(gs[0])[0]), short(sorted(gs[1])[0]))
                r.instance(rid, key, "violation", c.loc())
                r.violation(rid, key,
                            "Ord::clamp panics (`assertion failed: min <= max`) when %s exceeds %s; nothing in the configuration "
                            "orders the two options" % (short(sorted(gs[0])[0]), short(sorted(gs[1])[0])), [c.loc()])
    # conforming idiom present (positive control)
    chk = [c for c in p.all_calls(crate="rustfmt_nightly") if c.name.endswith("::checked_div") or c.name.endswith("::checked_rem")]
    r.instance(rid, "divisions examined", "ok", "", "%d Div/Rem statements, %d clamp calls, %d checked_div/checked_rem" % (n_div, n_clamp, len(chk)),
               nontrivial=False)
    r.floor(rid, n_div + len(chk), 4, "divisions (raw or checked) in the library")


def path_parent_unwraps(ctx, rid):
    """R16-h: Path::parent() is unwrapped only for paths known to name a file"""
    p, r = ctx.p, ctx.r
    r.rule(rid, "in the command-line tools, `path.parent().unwrap()` is dominated by the false edge of `path.is_dir()` on the "
                "same path (a path that names an existing non-directory always has a parent; `/` does not)")
    n = 0
    for crate in ("rustfmt", "cargo_fmt", "rustfmt_format_diff", "git_rustfmt"):
        for f in p.by_crate.get(crate, []):
            for c in f.calls():
                if not c.name.endswith("Path::parent"):
                    continue
                users = [x for x in f.calls() if x.args and x.args[0][0] != "k" and not x.args[0][1][1] and x.args[0][1][0] == c.dest[0]]
                for u in users:
                    if not (u.name.endswith("Option::<T>::unwrap") or u.name.endswith("Option::<T>::expect")):
                        continue
                    n += 1
                    from common import expr_key
                    pk = expr_key(f, c.args[0])
                    guarded = False
                    for g in f.calls():
                        if g.name.endswith("Path::is_dir") and g.args and expr_key(f, g.args[0]) == pk and not g.dest[1]:
                            from common import bool_branches, edge_dominates
                            for (sw, t_true, t_false) in bool_branches(f, g.dest[0]):
                                if edge_dominates(f, (sw, t_false), u.bb):
                                    guarded = True
                    key = "%s: parent().unwrap()" % short(f.id)
                    r.instance(rid, key, "ok" if guarded else "violation", u.loc())
                    if not guarded:
                        r.violation(rid, key, "Path::parent() of a user-supplied path is unwrapped without having excluded a directory: "
                                              "a root path makes the tool panic", [u.loc()])
    r.floor(rid, n, 1, "parent().unwrap() sites in the tools")


def parsed_integers_not_unwrapped(ctx, rid):
    """R16-j: a digit run taken from the source is never assumed to fit an integer type"""
    p, r = ctx.p, ctx.r
    r.rule(rid, "outside the configuration module (whose `key=value` strings are validated by is_valid_key_val before "
                "override_value parses them), the Result of str::parse::<integer> is never consumed by unwrap / expect / "
                "unwrap_unchecked: digit runs in identifiers, literals and reports are unbounded, so the parse can fail with "
                "PosOverflow on valid input")
    INTS = {"usize", "u8", "u16", "u32", "u64", "u128", "isize", "i8", "i16", "i32", "i64", "i128"}
    n = 0
    for f in p.by_crate["rustfmt_nightly"]:
        if "::config::" in f.id:
            continue
        for c in f.calls():
            if not c.name.endswith("str>::parse") or not c.ga or c.ga[0] not in INTS:
                continue
            n += 1
            users = [x for x in f.calls() if x.args and x.args[0][0] != "k" and not x.args[0][1][1] and x.args[0][1][0] == c.dest[0]]
            bad = [u for u in users if u.name.rsplit("::", 1)[-1] in ("unwrap", "expect", "unwrap_unchecked", "unwrap_or_default") and "Result" in u.name
                   and u.name.rsplit("::", 1)[-1] != "unwrap_or_default"]
            key = "%s: parse::<%s>" % (short(f.id), c.ga[0])
            r.instance(rid, key, "violation" if bad else "ok", c.loc())
            for u in bad:
                r.violation(rid, "%s: parsed integer unwrapped" % short(f.id),
                            "str::parse::<%s>() is followed by %s: a run of digits that does not fit (e.g. a 20-digit suffix in an "
                            "identifier being version-sorted) makes rustfmt panic" % (c.ga[0], u.name.rsplit("::", 1)[-1]), [u.loc()])
    r.floor(rid, n, 2, "str::parse::<integer> sites outside config")


def token_loops_make_progress(ctx, rid):
    """R16-k: every iteration of a hand-written token loop consumes a token or leaves the loop"""
    from common import natural_loops
    from absint import explore, vkey, variant_name, TooManyPaths
    p, r = ctx.p, ctx.r
    r.rule(rid, "parse::macros::{cfg_if, cfg_match}: on every path from a loop header back to the same header the parser has "
                "advanced — parse_item answered Ok(Some(_)), an eat / eat_keyword answered true, or bump was called; an iteration "
                "that goes round on `Ok(None)` (nothing parsed, nothing consumed) never terminates")
    n = 0
    for name in ("parse_cfg_if_inner", "parse_cfg_match_inner"):
        f = p.named(name)
        if f is None:
            r.undecidable(rid, "%s not found" % name)
            continue
        for h, body in natural_loops(f):
            try:
                paths = explore(f, start=h, pure=lambda c: True, max_paths=20000)
            except TooManyPaths as e:
                r.undecidable(rid, str(e))
                continue
            r.paths(rid, len(paths))
            for path in paths:
                if path.end != "loop" or path.end_bb != h:
                    continue
                if not all(b in body for b in path.blocks):
                    continue          # left the loop and came back through an outer one: judged at that header
                n += 1
                progress = False
                for k, v in path.decisions:
                    vn = variant_name(v)
                    if "parse_item(" in k and vn == "Some":
                        progress = True
                    if ("::eat(" in k or "::eat_keyword(" in k or "::eat#" in k and "ExpTokenPair" in k or "ExpKeywordPair" in k) and v is True:
                        progress = True
                if any("::bump(" in k for k, v in path.decisions):
                    progress = True
                key = "%s: loop at bb%d goes round without consuming a token" % (name, h)
                r.instance(rid, "%s loop iteration %s" % (name, "advances" if progress else "does not advance"), "ok" if progress else "violation",
                           "%s:%d" % (f.file, f.line))
                if not progress:
                    r.violation(rid, "%s: an iteration goes round without consuming a token" % name,
                                "a path from the loop header back to it takes only these decisions: %s — the parser state is "
                                "unchanged, so the loop never ends (rustfmt hangs on a stray `;` inside the macro's braces)"
                                % [(k[-40:], variant_name(v)) for k, v in path.decisions][-3:], ["%s:%d" % (f.file, f.line)])
    r.floor(rid, n, 4, "loop iterations of the cfg_if / cfg_match parsers")


def dependency_preconditions(ctx, rid):
    """R16-l: dependency functions that panic on a stated precondition are called only where it has been established"""
    from common import bool_branches, edge_dominates
    p, r = ctx.p, ctx.r
    r.rule(rid, "ignore::gitignore::Gitignore::matched_path_or_any_parents (documented: panics when the path is not under the "
                "matcher's root) is called only where a Path::starts_with test of the queried path has answered true, or where the "
                "path is not absolute — file names reach it from the command line, the configuration's directory from --config-path")
    n = 0
    for f in p.fns.values():
        if not f.crate or f.crate not in ("rustfmt_nightly", "rustfmt", "cargo_fmt", "rustfmt_format_diff", "git_rustfmt"):
            continue
        for c in f.calls():
            if not c.name.endswith("Gitignore::matched_path_or_any_parents"):
                continue
            n += 1
            guarded = False
            for g in f.calls():
                if g.name.endswith("Path::starts_with") and not g.dest[1]:
                    for (sw, t_true, t_false) in bool_branches(f, g.dest[0]):
                        if c.bb not in f.reachable(t_false, avoid_blocks=[g.bb]) or edge_dominates(f, (sw, t_true), c.bb):
                            guarded = True
            key = "%s: matched_path_or_any_parents" % short(f.id)
            r.instance(rid, key, "ok" if guarded else "violation", c.loc())
            if not guarded:
                r.violation(rid, "%s queries the ignore matcher without the under-the-root test" % short(f.id),
                            "Gitignore::matched_path_or_any_parents asserts that the path lies under the matcher's root; with "
                            "`--config-path a/rustfmt.toml b/main.rs` and a non-empty `ignore` list it does not, and rustfmt panics",
                            [c.loc()])
    r.floor(rid, n, 1, "calls of matched_path_or_any_parents")


def stdin_never_reaches_file_emitters(ctx, rid):
    """R16-m: text from standard input is never handed to an emitter that needs a real path"""
    from absint import explore, vkey, variant_name, TooManyPaths
    p, r = ctx.p, ctx.r
    r.rule(rid, "rustfmt::format_string (the stdin path): every path that constructs the Session has, before it, set emit_mode "
                "explicitly — to Diff under --check, else under a decision that restricts --emit to none / stdout / checkstyle / "
                "json — so that no emit mode inherited from a configuration file or `--config emit_mode=…` survives: "
                "FilesEmitter and FilesWithBackupEmitter call ensure_real_path, which panics on `<stdin>`")
    f = p.fns.get("rustfmt::format_string")
    if f is None:
        r.undecidable(rid, "rustfmt::format_string not found")
        return

    def eff(c):
        return (c.name.endswith("::emit_mode") and "ConfigSetter" in c.name) or c.name.rsplit("::", 1)[-1] == "new" and "Session" in c.name
    try:
        paths = explore(f, is_effect=eff, pure=lambda c: c.name.endswith("is_all") or "was_set" in c.name, max_paths=100000, max_visits=1,
                        program=p, inline="effects")
    except TooManyPaths as e:
        r.undecidable(rid, str(e))
        return
    r.paths(rid, len(paths))
    n = 0
    OKMODES = {"Stdout", "Checkstyle", "Json", "Diff"}
    for path in paths:
        effs = [e for e in path.effects if e.kind == "call"]
        news = [i for i, e in enumerate(effs) if e.name.rsplit("::", 1)[-1] == "new"]
        if not news:
            continue
        n += 1
        sets = [e for e in effs[:news[0]] if e.name.endswith("::emit_mode")]
        ok = bool(sets)
        why = "no explicit emit_mode before Session::new"
        if ok:
            val = vkey(sets[-1].args[-1])
            if val in OKMODES:
                pass
            else:
                # a value taken from --emit: the path must have restricted it
                modes = [variant_name(v) for k, v in path.decisions if k.endswith("emit_mode as Some.0)")]
                none = any(k.endswith("arg2.emit_mode)") and variant_name(v) == "None" for k, v in path.decisions)
                ok = none or (bool(modes) and all(m in OKMODES for m in modes if isinstance(m, str)) and not any(isinstance(m, tuple) for m in modes))
                why = "emit_mode set to %s under decisions %s" % (short(val)[:40], modes)
        key = "format_string: Session built %s" % ("after an explicit stdin-capable emit_mode" if ok else "with an inherited emit mode")
        r.instance(rid, key, "ok" if ok else "violation", "%s:%d" % (f.file, f.line))
        if not ok:
            r.violation(rid, "format_string: the stdin path can keep a configured emit mode",
                        "%s (decisions %s): with `emit_mode = files` in rustfmt.toml (or --config emit_mode=files) the session gets "
                        "the FilesEmitter, whose ensure_real_path panics on `<stdin>` — exit 101"
                        % (why, [(k[-30:], variant_name(v)) for k, v in path.decisions if "emit_mode" in k or "check" in k][:4]),
                        ["%s:%d" % (f.file, f.line)])
    r.floor(rid, n, 3, "paths of format_string that build the Session")


def constant_subtraction_preconditions(ctx, rid):
    """R16-n: `param - k` in a callee is covered by `param ≥ k` at every call site (per-path linear arithmetic)"""
    import linarith as la
    from absint import explore, vkey, TooManyPaths
    from common import natural_loops
    p, r = ctx.p, ctx.r
    r.rule(rid, "a workspace function that subtracts a positive constant from one of its `usize` parameters without first comparing "
                "it (`\"$\".repeat(dollar_count - 1)`) has the precondition `param ≥ k`.  At every call site the argument is shown "
                "to satisfy it from the branch conditions of the path alone: the caller is explored from the head of the innermost "
                "loop around the call (every variable unknown there) or from its entry, and `arg ≥ k` must follow from the decisions "
                "taken before the call (Fourier–Motzkin refutation of `arg ≤ k−1`).  Sites that rely on a loop invariant instead "
                "are listed in tables/C16.toml, each with the invariant; any other unprovable site is reported — the subtraction "
                "panics (debug) or wraps into a huge allocation (release)")
    exc = {e["site"]: e["reason"] for e in ctx.table("C16").get("precondition_by_invariant", [])}
    pre = {}
    for g in p.by_crate["rustfmt_nightly"]:
        if g.kind == "Closure":
            continue
        for bb, i, st in g.stmts():
            if st[0] != "=":
                continue
            rv = st[2]
            if rv[0] not in ("bin", "checked", "cbin") or "Sub" not in str(rv[1]):
                continue
            a, b = rv[2], rv[3]
            if not (b[0] == "k" and isinstance(b[2], int) and not isinstance(b[2], bool) and b[2] > 0 and a[0] != "k" and not a[1][1]):
                continue
            src = a[1][0]
            if not (1 <= src <= g.argc):
                d = g.single_def(src)
                if d and d[1] == "assign" and d[2][2][0] == "use" and d[2][2][1][0] != "k" and not d[2][2][1][1][1]:
                    src = d[2][2][1][1][0]
            if not (1 <= src <= g.argc) or "usize" not in g.locals[src]:
                continue
            guarded = False
            for sb in range(len(g.blocks)):
                t = g.term(sb)
                if t[0] == "switch" and t[1][0] != "k" and sb != bb and bb in g.reachable(sb):
                    if src in g.derived_from(t[1][1][0])["args"]:
                        guarded = True
            if not guarded:
                pre[g.id] = (src, b[2], st[3])
    nsites = 0
    for gid, (pi, k, line) in sorted(pre.items()):
        G = p.fns[gid]
        r.instance(rid, "%s requires parameter %d ≥ %d" % (short(gid), pi, k), "ok", "%s:%d" % (G.file, line))
        for F in p.by_crate["rustfmt_nightly"]:
            sites = [c for c in F.calls() if c.resolved == gid]
            if not sites:
                continue
            loops = natural_loops(F)
            for c in sites:
                nsites += 1
                inner = [(h, body) for h, body in loops if c.bb in body]
                start = min(inner, key=lambda x: len(x[1]))[0] if inner else 0
                where = "in a loop" if inner else "after the loop" if loops else "straight-line"
                site = "%s -> %s (%s)" % (short(F.id), short(gid), where)
                try:
                    paths = explore(F, start=start, is_effect=lambda d: d.resolved == gid and d.bb == c.bb, pure=lambda d: True,
                                    max_paths=20000, program=p)
                except TooManyPaths as e:
                    r.undecidable(rid, "%s: %s" % (site, e))
                    continue
                npaths, bad = 0, []
                for path in paths:
                    for E in path.effects:
                        if E.kind != "call" or E.bb != c.bb:
                            continue
                        npaths += 1
                        arg = E.args[pi - 1]
                        proven = True
                        try:
                            cons = []
                            for kk, v in path.decisions[:E.ndec]:
                                alt = la.decision_constraints(kk, v)
                                if alt is not None:
                                    cons.append(alt)
                            for cres, R in la.lin(arg):
                                neg = [la._add(R, la.const(k - 1), -1)]
                                forms = [R] + [x for a2 in cons for alt in a2 for x in alt]
                                ok, wit = la.entails(cons + [[cres]], [neg], nonneg=sorted(la.atoms_of(forms)))
                                proven = proven and ok
                        except la.NonLinear:
                            proven = False
                        if not proven:
                            bad.append((vkey(arg), [("%s=%s" % (short(kk)[-30:], v)) for kk, v in path.decisions[:E.ndec]][-3:]))
                if bad and site in exc:
                    r.instance(rid, site, "ok", c.loc(), "by invariant: %s" % exc[site][:120])
                    continue
                r.instance(rid, site, "violation" if bad else "ok", c.loc(), "%d paths reach the call, %d unproven" % (npaths, len(bad)))
                if bad:
                    r.violation(rid, "%s: the argument is not shown to be ≥ %d" % (site, k),
                                "on a path the call is reached with argument %s after %s; nothing on the path bounds it from below, "
                                "and the callee computes `argument - %d`" % (bad[0][0][:40], bad[0][1], k), [c.loc(), "%s:%d" % (G.file, line)])
    r.floor(rid, len(pre), 1, "functions with a `parameter - constant` precondition")
    r.floor(rid, nsites, 2, "call sites of such functions")


def fallible_results_not_unwrapped(ctx, rid):
    """R16-o: a result that fails for ordinary inputs is never unwrapped"""
    import c17
    from common import operand_origin
    p, r = ctx.p, ctx.r
    r.rule(rid, "(a) the Option<String> / RewriteResult of a rewriter (any workspace function named rewrite_* / format_* or a "
                "Rewrite::rewrite* method) is never consumed by unwrap / expect: rewriters answer None/Err whenever something does "
                "not fit the width, which some input always achieves (`enum E where <110 chars>: B {}`).  (b) the Result of a "
                "workspace function named parse_* / from_str whose error type is not Infallible is never consumed by unwrap / "
                "expect outside the configuration module: what is parsed is source text (`0b1f32` is a literal the parser accepts)")
    n = 0
    for f in p.by_crate["rustfmt_nightly"]:
        if "::tests::" in f.id or "::test::" in f.id or "unit_tests" in f.id:
            continue
        for u in f.calls():
            last = u.name.rsplit("::", 1)[-1]
            if last not in ("unwrap", "expect", "unwrap_unchecked") or not ("Option" in u.name or "Result" in u.name) \
                    or not u.args or u.args[0][0] == "k":
                continue
            o = operand_origin(f, u.args[0])
            if o[0] != "call":
                continue
            c = o[1]
            h = p.fns.get(c.resolved or "")
            if h is None or h.crate != "rustfmt_nightly":
                continue
            n += 1
            hl = h.id.rsplit("::", 1)[-1]
            rt = h.locals[0]
            rewriter = (c17.formatter(c) or (c.declared or "").startswith("rustfmt_nightly::rewrite::Rewrite::rewrite")) and (
                "String" in rt or "Cow" in rt)
            parser = (hl.startswith("parse_") or hl == "from_str") and rt.startswith("std::result::Result") and "Infallible" not in rt \
                and not short(f.id).startswith("config::")
            bad = rewriter or parser
            r.instance(rid, "%s unwraps %s" % (short(f.id).split("::{closure")[0], short(h.id)), "violation" if bad else "ok", u.loc(),
                       "rewriter" if rewriter else "parser" if parser else "value-level invariant (not judged)", nontrivial=bad)
            if bad:
                r.violation(rid, "%s unwraps the result of %s" % (short(f.id).split("::{closure")[0], short(h.id)),
                            "the callee fails for ordinary inputs (%s); the unwrap turns that into a panic" %
                            ("something does not fit the width" if rewriter else "text that is not in the expected form"), [u.loc()])
    r.floor(rid, n, 5, "unwrap / expect sites on results of workspace functions")


# variants that only macro expansion / later compiler passes create, never the parser on source text
NOT_FROM_PARSER = {"Invisible", "Err", "Dummy", "IncludedBytes", "FormatArgs", "ImplicitSelf", "CVarArgs"}
# rustc predicates on node kinds and the variants their `true` answer admits
PREDICATES = {"LitKind::is_str": {"Str"}, "LitKind::is_bytestr": {"ByteStr"}, "LitKind::is_numeric": {"Int", "Float"}}


def panic_arms_are_excluded_by_callers(ctx, rid):
    """R16-p: a `match` on the kind of an AST node that panics for some variants is only reached with the other variants"""
    import common
    from common import op_local, edge_dominates
    p, r = ctx.p, ctx.r
    r.rule(rid, "exhaustiveness with preconditions: a switch on the discriminant of a rustc_ast node kind (ItemKind, AssocItemKind, "
                "ExprKind, …) one of whose edges leads straight to `unreachable!()` / `panic!` states that those variants cannot "
                "arrive.  When the tested place is (part of) a parameter, every call site is examined: the call must be dominated "
                "by an edge of a switch *on the same place* in the caller that routes none of the panicking variants to it; a caller "
                "that merely forwards its own parameter passes the obligation on to its callers (three levels).  The parser builds "
                "every variant (`impl S { reuse a::b; }` is an AssocItemKind::Delegation), so a dispatcher that panics on the rest "
                "is a crash on valid input")
    fns = [f for f in p.by_crate["rustfmt_nightly"] if "::tests::" not in f.id and "::test::" not in f.id]

    def panic_block(f, bb, depth=0):
        t = f.term(bb)
        here = [x for x in f.calls() if x.bb == bb]
        if t[0] == "call" and here:
            if "core::panicking" in here[0].name or "std::rt::begin_panic" in here[0].name:
                return here[0]
            if depth < 3 and t[4] is not None and ("fmt::Arguments" in here[0].name or "Argument" in here[0].name):
                return panic_block(f, t[4], depth + 1)
        if t[0] == "goto" and depth < 3:
            return panic_block(f, t[1], depth + 1)
        return None

    def kind_switches(f):
        """[(place key, switch bb, {target: set(variants)}, all variants, line, enum)]"""
        out = []
        for bb, i, st in f.stmts():
            if st[0] == "=" and st[2][0] == "discr" and str(st[2][2]).startswith("rustc_ast::") and not st[1][1]:
                names = {int(v): nme for v, nme in st[2][3]}
                key = common._norm_place(f, st[2][1][0], st[2][1][1])
                for sb in range(len(f.blocks)):
                    t = f.term(sb)
                    if t[0] == "switch" and op_local(t[1]) == st[1][0]:
                        tg = {}
                        listed = set()
                        for v, target in t[2]:
                            if int(v) in names:
                                tg.setdefault(target, set()).add(names[int(v)])
                                listed.add(names[int(v)])
                        rest = set(names.values()) - listed
                        if rest and t[3] is not None:
                            tg.setdefault(t[3], set()).update(rest)
                        out.append((key, sb, tg, set(names.values()), st[3], str(st[2][2])))
        return out

    ks = {f.id: kind_switches(f) for f in fns}
    obligations = []      # (callee, param index, sub-path, panicking variants, line, enum)
    for f in fns:
        for key, sb, tg, allv, line, en in ks[f.id]:
            bad = set()
            for target, vs in tg.items():
                if panic_block(f, target):
                    bad |= vs
            if not bad:
                continue
            root, path = key
            if 1 <= root <= f.argc and f.kind != "Closure":
                obligations.append((f, root, path, bad, line, en))
    callers = {}
    for g in fns:
        for c in g.calls():
            if c.resolved:
                callers.setdefault(c.resolved, []).append((g, c))

    def excluded(f, pi, path, bad, depth, seen):
        """list of (caller, call) sites that may pass a panicking variant"""
        out = []
        for g, c in callers.get(f.id, []):
            if (g.id, c.bb) in seen or len(c.args) < pi:
                continue
            seen.add((g.id, c.bb))
            a = c.args[pi - 1]
            if a[0] == "k":
                continue
            r0, p0 = common._norm_place(g, a[1][0], a[1][1])
            if p0[-1:] == ("&",):
                want = (r0, p0[:-1] + (path[1:] if path[:1] == ("*",) else path))
            else:
                want = (r0, p0 + path)
            guards = [(sb, tg) for key, sb, tg, allv, line, en in ks.get(g.id, []) if key == want]
            ok = False
            # the argument is built on the spot with a known variant (`FnKind::Fn(..)`)
            if not a[1][1] and not path:
                d0 = g.single_def(a[1][0])
                if d0 and d0[1] == "assign" and d0[2][2][0] == "agg" and isinstance(d0[2][2][1], list) and d0[2][2][1][0] == "adt" \
                        and d0[2][2][1][2] not in bad:
                    ok = True
            # a rustc predicate with a known meaning guards the call (`lit.kind.is_str()`)
            for d in g.calls():
                vs = PREDICATES.get(d.name.rsplit("::", 2)[-2].split("<")[0] + "::" + d.name.rsplit("::", 1)[-1]) if d.name.count("::") >= 2 else None
                if vs is None or vs & bad or not d.args or d.args[0][0] == "k" or d.dest[1]:
                    continue
                r1, p1 = common._norm_place(g, d.args[0][1][0], d.args[0][1][1])
                if p1[-1:] == ("&",):
                    p1 = p1[:-1]
                if (r1, p1) != want:
                    continue
                for sw, tt, ff in common.bool_branches(g, d.dest[0]):
                    if tt is not None and edge_dominates(g, (sw, tt), c.bb):
                        ok = True
            for sb, tg in guards:
                for target, vs in tg.items():
                    if not (vs & bad) and target is not None and edge_dominates(g, (sb, target), c.bb):
                        ok = True
            if ok:
                continue
            if g.kind == "Closure" and r0 == 1 and not ok:
                # the argument is a captured variable: the guard is where the closure is built
                rest = want[1]
                if rest[:1] == ("*",):
                    rest = rest[1:]
                if rest[:1] and isinstance(rest[0], tuple) and rest[0][0] == "f":
                    j = rest[0][1]
                    parent = p.fns.get(g.id.rsplit("::{closure", 1)[0])
                    if parent is not None and isinstance(j, int):
                        for bb2, i2, st2 in parent.stmts():
                            if st2[0] == "=" and st2[2][0] == "agg" and isinstance(st2[2][1], list) and st2[2][1][0] == "closure" \
                                    and st2[2][1][1] == g.id and j < len(st2[2][2]) and st2[2][2][j][0] != "k":
                                op = st2[2][2][j]
                                pr, pp = common._norm_place(parent, op[1][0], op[1][1])
                                tail = rest[1:]
                                if pp[-1:] == ("&",) and tail[:1] == ("*",):
                                    pwant = (pr, pp[:-1] + tail[1:])
                                elif pp[-1:] == ("&",):
                                    pwant = (pr, pp[:-1] + tail)
                                else:
                                    pwant = (pr, pp + tail)
                                for key, sb, tg, allv, line, en in ks.get(parent.id, []):
                                    if key != pwant:
                                        continue
                                    for target, vs in tg.items():
                                        if not (vs & bad) and target is not None and edge_dominates(parent, (sb, target), bb2):
                                            ok = True
                if ok:
                    continue
            if 1 <= r0 <= g.argc and g.kind != "Closure" and depth > 0 and callers.get(g.id):
                sub = want[1]
                out += excluded(g, r0, sub, bad, depth - 1, seen)
                continue
            out.append((g, c))
        return out

    exc = {e["function"]: e["reason"] for e in ctx.table("C16").get("kind_precondition", [])}
    n = 0
    for f, pi, path, bad, line, en in obligations:
        bad = bad - NOT_FROM_PARSER
        if not bad:
            continue
        n += 1
        if short(f.id) in exc:
            r.instance(rid, "%s panics for some %s variants" % (short(f.id), en.rsplit("::", 1)[-1]), "ok", "%s:%d" % (f.file, line),
                       "precondition by construction: %s" % exc[short(f.id)][:100])
            continue
        sites = excluded(f, pi, path, bad, 3, set())
        label = "%s panics for %s::{%s}" % (short(f.id), en.rsplit("::", 1)[-1], ", ".join(sorted(bad))[:80])
        r.instance(rid, label, "violation" if sites else "ok", "%s:%d" % (f.file, line),
                   "every call site excludes them" if not sites else "reachable from %s" % sorted({short(g.id) for g, c in sites})[:3])
        if sites:
            g, c = sites[0]
            r.violation(rid, "%s can be reached with a variant it panics on (%s::{%s})" % (short(f.id), en.rsplit("::", 1)[-1],
                                                                                          ", ".join(sorted(bad))[:60]),
                        "%s calls it (directly or through forwarding functions) without a dominating match on the same node kind that "
                        "keeps those variants away" % short(g.id), ["%s:%d" % (f.file, line), c.loc()])
    r.floor(rid, n, 5, "kind switches with panicking arms on a parameter")


def kind_comparators_are_total_orders(ctx, rid):
    """R16-q: a comparator that orders AST items by their kind is a strict weak order at the level of kinds"""
    import re
    from absint import explore, vkey, TooManyPaths
    p, r = ctx.p, ctx.r
    r.rule(rid, "`slice::sort_by` panics (\"user-provided comparison function does not correctly implement a total order\") or "
                "leaves the slice in an unspecified order when its comparator is inconsistent.  For every workspace closure / function "
                "that returns `Ordering` and branches on the kind of *both* of its arguments (the comparator of "
                "visit_impl_items under reorder_impl_items), the decision table over pairs of kinds is extracted by path "
                "exploration and checked: (1) for different kinds A, B the answer is the same on every path and cmp(B, A) is its "
                "reverse; (2) cmp(A, A) is Equal or a comparison of keys, or — when sub-classes are told apart by further tests — "
                "contains Less and Greater together; (3) kinds that compare Equal are interchangeable against every third kind; "
                "(4) the order on kinds is transitive")
    KD = re.compile(r"^discr\((arg\d+)\.(.*kind)\)$")
    n = 0
    for f in p.by_crate["rustfmt_nightly"]:
        if "std::cmp::Ordering" != f.locals[0].strip() or "::tests::" in f.id:
            continue
        try:
            paths = explore(f, pure=lambda c: True, max_paths=20000, program=p)
        except TooManyPaths:
            continue
        rows = []
        args = set()
        universe = set()
        for path in paths:
            if path.end != "ret" or path.ret is None:
                continue
            cons = {}
            extra = False
            for k, v in path.decisions:
                m = KD.match(k)
                if not m:
                    extra = True
                    continue
                a = m.group(1)
                args.add(a)
                allowed = {v[1]} if isinstance(v, tuple) and v[0] == "variant" else set(v[1]) if isinstance(v, tuple) else {str(v)}
                universe |= allowed
                cons[a] = cons.get(a, allowed) & allowed if a in cons else set(allowed)
            out = vkey(path.ret)
            out = out if out in ("Less", "Equal", "Greater") else "key"
            rows.append((cons, out, extra))
        if len(args) != 2 or len(universe) < 3:
            continue
        n += 1
        a1, a2 = sorted(args)
        kinds = sorted(universe)
        table = {}
        for A in kinds:
            for B in kinds:
                outs = set()
                for cons, out, extra in rows:
                    if A in cons.get(a1, universe) and B in cons.get(a2, universe):
                        outs.add((out, extra))
                table[(A, B)] = outs
        problems = []
        rev = {"Less": "Greater", "Greater": "Less", "Equal": "Equal", "key": "key"}
        rel = {}
        for A in kinds:
            for B in kinds:
                outs = {o for o, e in table[(A, B)]}
                if A == B:
                    if not outs <= {"Equal", "key"} and not ({"Less", "Greater"} <= outs and any(e for o, e in table[(A, B)])):
                        problems.append("cmp(%s, %s) can only answer %s" % (A, B, sorted(outs)))
                    continue
                if len(outs) != 1:
                    problems.append("cmp(%s, %s) answers %s depending on something other than the kinds" % (A, B, sorted(outs)))
                    continue
                o = next(iter(outs))
                rel[(A, B)] = o
        for (A, B), o in rel.items():
            back = rel.get((B, A))
            if back is not None and back != rev[o]:
                problems.append("cmp(%s, %s) = %s but cmp(%s, %s) = %s" % (A, B, o, B, A, back))
        for (A, B), o in rel.items():
            if o in ("Equal", "key"):
                for C in kinds:
                    if C not in (A, B) and rel.get((A, C)) != rel.get((B, C)):
                        problems.append("%s and %s compare %s but differ against %s (%s / %s)" % (A, B, o, C, rel.get((A, C)), rel.get((B, C))))
        for A in kinds:
            for B in kinds:
                for C in kinds:
                    if len({A, B, C}) == 3 and rel.get((A, B)) == "Less" and rel.get((B, C)) == "Less" and rel.get((A, C)) not in ("Less",):
                        problems.append("%s < %s < %s but cmp(%s, %s) = %s" % (A, B, C, A, C, rel.get((A, C))))
        where = "%s:%d" % (f.file, f.line)
        name = short(f.id).split("::{closure")[0]
        r.instance(rid, "comparator in %s over %d kinds" % (name, len(kinds)), "violation" if problems else "ok", where,
                   "%d paths" % len(rows))
        if problems:
            r.violation(rid, "the kind comparator in %s is not a consistent order" % name,
                        "; ".join(sorted(set(problems))[:4]), [where])
    r.floor(rid, n, 1, "comparators that branch on the kinds of both arguments")


def use_path_heads_are_guarded(ctx, rid):
    """R16-r: `path[0]` of a use tree is read only where the path is known not to be empty"""
    from common import bool_branches, edge_dominates
    p, r = ctx.p, ctx.r
    r.rule(rid, "an import of nothing (`use {};`, `use a::{};`) is legal Rust and normalises to a UseTree with an *empty* path.  "
                "Every constant index into a `Vec<UseSegment>` (`ut.path[0]`) in the workspace is therefore dominated by the false "
                "edge of an `is_empty()` test of a use-tree path (or the true edge of a length comparison): the index panics "
                "otherwise, outside every catch_unwind, on valid input")
    n = 0
    for f in p.by_crate["rustfmt_nightly"]:
        if "::tests::" in f.id or "::test::" in f.id:
            continue
        for c in f.calls():
            if not (c.declared or c.name).endswith("Index::index") or len(c.args) < 2 or c.args[1][0] != "k" \
                    or not isinstance(c.args[1][2], int) or isinstance(c.args[1][2], bool):
                continue
            ga = " ".join(c.ga)
            if "imports::UseSegment" not in ga.split(",")[0]:
                continue
            n += 1
            guarded = False
            for d in f.calls():
                last = d.name.rsplit("::", 1)[-1]
                if last == "is_empty" and d.args and d.args[0][0] != "k" and not d.dest[1] and ("Vec" in d.name or "[T]" in d.name or "slice" in d.name):
                    for sw, tt, ff in bool_branches(f, d.dest[0]):
                        if ff is not None and edge_dominates(f, (sw, ff), c.bb):
                            guarded = True
            if not guarded:
                # the true edge of a length comparison that implies len > index: `path.len() == 1`, `>= 1`, `> 0`
                idx = c.args[1][2]
                lens = {d.dest[0] for d in f.calls() if d.name.rsplit("::", 1)[-1] == "len" and not d.dest[1]
                        and ("Vec" in d.name or "[T]" in d.name or "slice" in d.name)}
                for bb, i, st in f.stmts():
                    if st[0] != "=" or st[2][0] != "bin" or st[2][1] not in ("Eq", "Ge", "Gt") or st[1][1]:
                        continue
                    a, b = st[2][2], st[2][3]
                    if a[0] == "k" or b[0] != "k" or not isinstance(b[2], int) or isinstance(b[2], bool):
                        continue
                    src = a[1][0]
                    if src not in lens and not (f.single_def(src) and f.single_def(src)[1] == "assign" and not isinstance(f.single_def(src)[2], Call)
                                                and f.single_def(src)[2][2][0] == "use" and op_local(f.single_def(src)[2][2][1]) in lens):
                        continue
                    implies = (st[2][1] == "Eq" and b[2] > idx) or (st[2][1] == "Ge" and b[2] > idx) or (st[2][1] == "Gt" and b[2] >= idx)
                    if not implies:
                        continue
                    for sw, tt, ff in bool_branches(f, st[1][0]):
                        if tt is not None and edge_dominates(f, (sw, tt), c.bb):
                            guarded = True
            if not guarded:
                # the test may have been folded into a boolean (`let mergeable = !a.path.is_empty() && ..; if !mergeable { return }`):
                # decide per path — every path that reaches the index has seen an is_empty() of a use-tree path answer false
                try:
                    from absint import explore as _explore, TooManyPaths as _TMP
                    paths = _explore(f, is_effect=lambda cc, _bb=c.bb: cc.bb == _bb, pure=lambda cc: cc.bb != c.bb, max_paths=4000)
                    reach = [pa for pa in paths if any(e.kind == "call" for e in pa.effects)]
                    if reach and all(any("is_empty(" in k and ".path" in k and v is False for k, v in pa.decisions) for pa in reach):
                        guarded = True
                except Exception:
                    pass
            r.instance(rid, "%s reads path[%d]" % (short(f.id).split("::{closure")[0], c.args[1][2]), "ok" if guarded else "violation", c.loc())
            if not guarded:
                r.violation(rid, "%s indexes a use-tree path without knowing it is non-empty" % short(f.id).split("::{closure")[0],
                            "`path[%d]` is reached on a path on which no `is_empty()` answered false: `use {};` panics here"
                            % c.args[1][2], [c.loc()])
    r.floor(rid, n, 3, "constant indexings of use-tree paths")


PAGE_BOUNDED_GETTERS = {"tab_spaces": "the quantifier asks for a page at least five indentation steps wide: tab_spaces ≤ max_width / 5"}


def option_values_are_not_incremented_unchecked(ctx, rid):
    """R16-s: `option + k` / `option * k` on the bare value of a numeric option panics at the top of its range"""
    p, r = ctx.p, ctx.r
    r.rule(rid, "every usize option accepts any value up to usize::MAX (`--config blank_lines_upper_bound=18446744073709551615`, "
                "`max_width=…`; the statement quantifies over every accepted configuration with a usable page). A checked "
                "addition or multiplication (AddWithOverflow / MulWithOverflow, which panic in the shipped debug-assertion "
                "builds and wrap otherwise) one operand of which is the unmodified result of such an option's getter and the "
                "other a positive constant overflows at the top of the range: `blank_lines_upper_bound() + 1`, "
                "`max_width() * 2`. The idiom is saturating_add / saturating_mul or a `min` first. tab_spaces is exempt (bounded "
                "by the page width in the quantifier)")
    total = flagged = seen = 0
    for f in p.by_crate["rustfmt_nightly"]:
        if "print_docs" in f.id or "::tests::" in f.id or "::test::" in f.id:
            continue
        for bb, i, s in f.stmts():
            if s[0] != "=" or s[2][0] != "bin" or s[2][1] not in ("AddWithOverflow", "MulWithOverflow"):
                continue
            total += 1
            a, b = s[2][2], s[2][3]
            for x, y in ((a, b), (b, a)):
                ox = operand_origin(f, x)
                if not (ox[0] == "call" and is_config_getter(ox[1]) and f.locals[ox[1].dest[0]] == "usize"):
                    continue
                opt = ox[1].name.rsplit("::", 1)[-1]
                if y[0] != "k" or not isinstance(y[2], int) or isinstance(y[2], bool):
                    continue
                if (s[2][1] == "AddWithOverflow" and y[2] < 1) or (s[2][1] == "MulWithOverflow" and y[2] < 2):
                    continue
                seen += 1
                key = "%s: %s() %s %d" % (short(f.id), opt, "+" if s[2][1].startswith("Add") else "*", y[2])
                if opt in PAGE_BOUNDED_GETTERS:
                    r.instance(rid, key, "exception", "%s:%d" % (f.file, s[3]), PAGE_BOUNDED_GETTERS[opt], nontrivial=False)
                    continue
                flagged += 1
                r.instance(rid, key, "violation", "%s:%d" % (f.file, s[3]))
                r.violation(rid, key, "a checked `%s` on the bare value of the option `%s`: with the option at usize::MAX "
                            "rustfmt panics here (exit 101)" % ("+" if s[2][1].startswith("Add") else "*", opt),
                            ["%s:%d" % (f.file, s[3])])
    r.instance(rid, "checked additions / multiplications of the library", "ok" if not flagged else "violation", "",
               "%d examined, %d on a bare option value and a constant, %d reported" % (total, seen, flagged))
    r.floor(rid, total, 150, "checked additions and multiplications outside print_docs")


SIGNAL_APIS = ("libc::signal", "libc::sigaction", "libc::raise", "libc::kill", "libc::abort", "libc::sigprocmask", "libc::pthread_sigmask",
               "libc::pthread_kill", "libc::alarm", "libc::setitimer", "std::process::abort", "core::intrinsics::abort",
               "std::intrinsics::abort")


def signal_dispositions_are_left_alone(ctx, rid):
    """R16-t: no tool changes how signals are delivered to it, raises one or aborts"""
    p, r = ctx.p, ctx.r
    r.rule(rid, "who-may-call, over all five binaries and the library: nobody calls libc::signal / sigaction / sigprocmask / "
                "raise / kill / abort, process::abort or the abort intrinsic. The Rust runtime starts a program with SIGPIPE "
                "ignored, which is what turns a closed stdout into an `io::Error` that the emitters report as an ordinary "
                "failure (exit 1); with the default disposition restored (`signal(SIGPIPE, SIG_DFL)`, the usual cure for "
                "`--help | head`) `rustfmt --emit stdout big.rs | head -n 1` is killed by signal 13 in the middle of a write")
    n = 0
    ws = 0
    for c in p.all_calls():
        if c.fn.crate == "build_script_build":
            continue
        nm = c.name.split("::<")[0]
        if (c.declared or "") == "std::io::Write::write_all" or (c.declared or "") == "std::io::Write::write_fmt":
            ws += 1
        if any(nm == a or nm.endswith("::" + a.split("::", 1)[1]) and nm.startswith(a.split("::")[0]) for a in SIGNAL_APIS):
            n += 1
            r.instance(rid, "%s calls %s" % (short(c.fn.id), short(c.name)), "violation", c.loc())
            r.violation(rid, "%s calls %s" % (short(c.fn.id), short(c.name)),
                        "the tool changes its own signal handling (or raises / aborts): a condition that was reported as an "
                        "ordinary failure — a closed pipe — now ends the process with a signal", [c.loc()])
    r.instance(rid, "calls that change signal handling, raise or abort", "ok" if not n else "violation", "",
               "%d found; %d write_all / write_fmt sites rely on write errors being returned" % (n, ws))
    r.floor(rid, ws, 20, "io::Write call sites in the workspace (errors, not signals, report a closed pipe)")
