"""thorough tier = quick rules + (a) a second, independent extraction at the default MIR optimisation level whose
verdicts must be identical, + (b) replay of the seeded-change corpus of the property on a scratch copy of the
*current* tree: every change that still applies must be reported (unless DESIGN.md §13 documents it as undecidable)."""
import glob
import importlib
import json
import os
import shutil
import subprocess
import sys
import tempfile
import time

import facts
from common import Program
from report import Report, Undecidable

VERIF = os.path.dirname(os.path.dirname(os.path.abspath(__file__)))
DOCUMENTED_MISSES = {"C09d-continued-line-predicate-changed-on-2024-branch": "the predicate is only consulted on the `>= Edition2024` branch, whose gate is unchanged: 2015 ≡ 2018 ≡ 2021 still holds, and that 2024 itself is frozen is differential (DESIGN §13)",
                     "C09-endstringcommented-guard-lost": "byte-identity with the pinned release is differential; not decided (DESIGN §13)",
                     "C09c-qualified-macro-special-case-2024": "a new `>= Edition2024` test is constant on 2015/2018/2021; that 2024 itself is frozen is differential (DESIGN §13)",
                     "C19c-hunk-body-tracking-miscounts-stripped-blank-context": "a stateful hunk-body tracker is a legitimate design; that this one miscounts stripped blank context lines is a value-level fact (DESIGN §13)",
                     "C08c-leading-blank-skip-only-strips-bare-newlines": "which characters count as blank at the start of a file is a value-level fact of skip_empty_lines; no exact structural clause (DESIGN §13)"}
LEVELS = {"C06": "proof", "C09": "proof", "C20": "proof"}


class _Ctx:
    def __init__(self, program, tier, repo, report):
        self.p, self.tier, self.repo, self.r, self.verif = program, tier, repo, report, VERIF

    def table(self, name):
        import tomllib
        path = os.path.join(VERIF, "tables", name + ".toml")
        if not os.path.exists(path):
            return {}
        with open(path, "rb") as fh:
            return tomllib.load(fh)


def silent_run(pid, program, repo, tier="thorough"):
    """run the rule module without printing / writing evidence; returns (violation keys, undecided)"""
    mod = importlib.import_module(pid.lower())
    rep = Report(pid, tier, LEVELS.get(pid, "other"))
    try:
        mod.run(_Ctx(program, tier, repo, rep))
    except Undecidable as e:
        rep.undecidable("analysis", str(e))
    keys = sorted({(v["rule"], v["key"]) for v in rep.violations})
    return keys, list(rep.undecided), rep


def known_keys(pid):
    path = os.path.join(VERIF, "known_findings.json")
    with open(path) as fh:
        ks = json.load(fh).get("findings", [])
    return {(k["rule"], k["key"]) for k in ks if k["property"] == pid and k.get("status") == "known"}


def run(pid, repo, run_one):
    t0 = time.time()
    code0, program = run_one(pid, "thorough", repo)
    ev_path = os.path.join(os.environ.get("VERIF_OUT_DIR", VERIF), "evidence", pid + ".json")
    with open(ev_path) as fh:
        ev = json.load(fh)
    base_keys, base_und, _ = silent_run(pid, program, repo)
    extra = {"second_extraction": None, "seeded_replay": []}
    problems = []
    # (a) second extraction at the default MIR optimisation level
    d1 = facts.extract(repo, mir_opt=None)
    p1 = Program(d1)
    k1, u1, _ = silent_run(pid, p1, repo)
    agree = (k1 == base_keys) and (bool(u1) == bool(base_und))
    extra["second_extraction"] = {"mir_opt_level": "default", "functions": len(p1.fns), "verdicts_identical": agree,
                                  "violations": ["%s: %s" % k for k in k1], "cannot_decide": u1}
    if not agree:
        problems.append("verdicts differ between -Zmir-opt-level=0 %s and the default level %s (undecided: %s / %s)"
                        % (base_keys, k1, base_und, u1))
    # (b) seeded corpus
    known = known_keys(pid)
    for d in sorted(d_ for d_ in glob.glob(os.path.join(VERIF, "seeded", pid + "*-*"))
                    if os.path.basename(d_).split("-")[0].rstrip("abcdefgh") == pid):
        name = os.path.basename(d)
        patch = os.path.join(d, "patch.rebased.diff")
        if not os.path.exists(patch):
            patch = os.path.join(d, "patch.diff")
        scratch = tempfile.mkdtemp(prefix="verif-scratch-")
        rec = {"seed": name, "patch": os.path.basename(patch)}
        try:
            subprocess.run(["rsync", "-a", "--exclude", "target", "--exclude", ".git", repo.rstrip("/") + "/", scratch + "/"],
                           check=True)
            ap = subprocess.run(["git", "apply", "--whitespace=nowarn", patch], cwd=scratch, stdout=subprocess.PIPE,
                                stderr=subprocess.STDOUT)
            if ap.returncode != 0:
                ap = subprocess.run(["patch", "-p1", "-s", "-i", patch], cwd=scratch, stdout=subprocess.PIPE,
                                    stderr=subprocess.STDOUT)
            if ap.returncode != 0:
                rec["result"] = "skipped: patch no longer applies to the current tree"
                extra["seeded_replay"].append(rec)
                continue
            try:
                dm = facts.extract(scratch, verbose=False)
            except SystemExit as e:
                rec["result"] = "skipped: the patched tree does not compile (%s)" % e
                extra["seeded_replay"].append(rec)
                continue
            pm = Program(dm)
            km, um, _ = silent_run(pid, pm, scratch)
            new = [k for k in km if k not in known and k not in base_keys]
            rec["reported"] = ["%s: %s" % k for k in new]
            if new:
                rec["result"] = "reported"
            elif name in DOCUMENTED_MISSES:
                rec["result"] = "documented miss: " + DOCUMENTED_MISSES[name]
            else:
                rec["result"] = "NOT REPORTED"
                problems.append("seeded change %s applies but is not reported by the check" % name)
        finally:
            shutil.rmtree(scratch, ignore_errors=True)
        extra["seeded_replay"].append(rec)
    ev["coverage"]["thorough"] = extra
    n_extra = 1 + len(extra["seeded_replay"])
    ev["coverage"]["evaluations"] = int(ev["coverage"].get("evaluations", 1)) + n_extra
    if ev["level"] == "proof":
        ev["coverage"]["obligations"] += n_extra
        ok_extra = (1 if agree else 0) + sum(1 for x in extra["seeded_replay"] if not x["result"].startswith("NOT"))
        ev["coverage"]["discharged"] += ok_extra
    ev["wall_s"] = round(time.time() - t0, 1)
    with open(ev_path, "w") as fh:
        json.dump(ev, fh, indent=1, default=str)
    print("[%s] thorough: second extraction verdicts identical=%s; seeded replay: %s" % (
        pid, agree, ", ".join("%s→%s" % (x["seed"], x["result"].split(":")[0]) for x in extra["seeded_replay"]) or "none"))
    if problems:
        for pr in problems:
            print("CANNOT-DECIDE property=%s self-check: %s" % (pid, pr))
        return max(code0, 2)
    return code0
