//! minimal JSON string helpers (no dependencies)

pub fn esc(src: &str, out: &mut String) {
    out.push('"');
    for c in src.chars() {
        match c {
            '"' => out.push_str("\\\""),
            '\\' => out.push_str("\\\\"),
            '\n' => out.push_str("\\n"),
            '\r' => out.push_str("\\r"),
            '\t' => out.push_str("\\t"),
            c if (c as u32) < 0x20 => out.push_str(&format!("\\u{:04x}", c as u32)),
            c => out.push(c),
        }
    }
    out.push('"');
}

pub fn s(src: &str) -> String {
    let mut o = String::with_capacity(src.len() + 2);
    esc(src, &mut o);
    o
}

pub fn arr_s(items: &[String]) -> String {
    let mut o = String::from("[");
    for (i, it) in items.iter().enumerate() {
        if i > 0 {
            o.push(',');
        }
        esc(it, &mut o);
    }
    o.push(']');
    o
}

/// join already-encoded JSON values into an array
pub fn arr(items: &[String]) -> String {
    let mut o = String::from("[");
    for (i, it) in items.iter().enumerate() {
        if i > 0 {
            o.push(',');
        }
        o.push_str(it);
    }
    o.push(']');
    o
}

pub fn opt_s(v: &Option<String>) -> String {
    match v {
        Some(x) => s(x),
        None => "null".to_string(),
    }
}
