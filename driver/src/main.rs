//! rfx — fact extractor for the static checks under /verif.
//!
//! Runs as RUSTC_WORKSPACE_WRAPPER (argv: rfx <rustc> <args…>), lets rustc do its normal
//! job for the crate and, for workspace crates, dumps after analysis:
//!   * the MIR of every fn / method / closure (blocks, statements, terminators, resolved
//!     callees, constants, field projections with ADT/variant/field names),
//!   * ADT definitions (local ones and every `rustc_ast` ADT reachable through field types),
//!   * trait impls (for class-hierarchy expansion of unresolved trait calls),
//!   * typed-HIR facts (see hir.rs): uses of watched types, literal matches, const arrays, statics.
//! One JSON-lines file per compiled crate is written to $RFX_OUT, in a single write.
#![feature(rustc_private)]
#![feature(box_patterns)]

extern crate rustc_abi;
extern crate rustc_ast;
extern crate rustc_const_eval;
extern crate rustc_driver;
extern crate rustc_hir;
extern crate rustc_interface;
extern crate rustc_middle;
extern crate rustc_session;
extern crate rustc_span;

mod hir;
mod json;
mod mirdump;

use rustc_driver::Compilation;
use rustc_middle::ty::TyCtxt;
use std::io::Write;

pub struct Cx<'tcx> {
    pub tcx: TyCtxt<'tcx>,
    pub krate: String,
    /// names of extern crates: `crate::rustc_parse::x` (path through an `extern crate` item) → `rustc_parse::x`
    pub externs: Vec<String>,
}

impl<'tcx> Cx<'tcx> {
    /// crate-qualified printing: `crate::` → `<crate name>::`
    pub fn fix(&self, s: String) -> String {
        if s.contains("crate::") {
            // only at path starts: preceded by start, '<', ' ', '(', '&', '[', ','
            let mut out = String::with_capacity(s.len() + 16);
            let b = s.as_bytes();
            let mut i = 0;
            while i < b.len() {
                if s[i..].starts_with("crate::")
                    && (i == 0 || !(b[i - 1].is_ascii_alphanumeric() || b[i - 1] == b'_'))
                {
                    let rest = &s[i + 7..];
                    let seg_end = rest.find(|c: char| !(c.is_ascii_alphanumeric() || c == '_')).unwrap_or(rest.len());
                    let seg = &rest[..seg_end];
                    if rest[seg_end..].starts_with("::") && self.externs.iter().any(|e| e == seg) {
                        // drop the `crate::` prefix: the next segment is an extern crate
                    } else {
                        out.push_str(&self.krate);
                        out.push_str("::");
                    }
                    i += 7;
                } else {
                    let ch = s[i..].chars().next().unwrap();
                    out.push(ch);
                    i += ch.len_utf8();
                }
            }
            out
        } else {
            s
        }
    }
    pub fn path(&self, did: rustc_hir::def_id::DefId) -> String {
        use rustc_middle::ty::print::{with_crate_prefix, with_no_trimmed_paths};
        let s = with_no_trimmed_paths!(with_crate_prefix!(self.tcx.def_path_str(did)));
        self.fix(s)
    }
    pub fn path_args(
        &self,
        did: rustc_hir::def_id::DefId,
        args: &'tcx [rustc_middle::ty::GenericArg<'tcx>],
    ) -> String {
        use rustc_middle::ty::print::{with_crate_prefix, with_no_trimmed_paths};
        let s =
            with_no_trimmed_paths!(with_crate_prefix!(self.tcx.def_path_str_with_args(did, args)));
        self.fix(s)
    }
    pub fn ty(&self, t: rustc_middle::ty::Ty<'tcx>) -> String {
        use rustc_middle::ty::print::{with_crate_prefix, with_no_trimmed_paths};
        let s = with_no_trimmed_paths!(with_crate_prefix!(format!("{}", t)));
        self.fix(s)
    }
    pub fn loc(&self, span: rustc_span::Span) -> (String, usize) {
        let sm = self.tcx.sess.source_map();
        // use the outermost call site for macro-expanded code so the line is in a workspace file
        let sp = span.source_callsite();
        let lo = sm.lookup_char_pos(sp.lo());
        let name = match &lo.file.name {
            rustc_span::FileName::Real(r) => match r.local_path() {
                Some(p) => p.to_string_lossy().to_string(),
                None => format!("{:?}", r),
            },
            other => format!("{:?}", other),
        };
        (name, lo.line)
    }
}

struct Cb;
impl rustc_driver::Callbacks for Cb {
    fn after_analysis<'tcx>(
        &mut self,
        _c: &rustc_interface::interface::Compiler,
        tcx: TyCtxt<'tcx>,
    ) -> Compilation {
        let out_dir = match std::env::var("RFX_OUT") {
            Ok(d) => d,
            Err(_) => return Compilation::Continue,
        };
        let krate = tcx.crate_name(rustc_hir::def_id::LOCAL_CRATE).to_string();
        let externs: Vec<String> =
            tcx.crates(()).iter().map(|c| tcx.crate_name(*c).to_string()).collect();
        if std::env::var("RFX_DEBUG").is_ok() { eprintln!("externs: {:?}", externs); }
        let cx = Cx { tcx, krate: krate.clone(), externs };
        let mut out = String::with_capacity(1 << 24);
        let crate_types: Vec<String> =
            tcx.crate_types().iter().map(|t| format!("{:?}", t)).collect();
        out.push_str(&format!(
            "{{\"k\":\"crate\",\"name\":{},\"types\":{}}}\n",
            json::s(&krate),
            json::arr_s(&crate_types)
        ));
        let stats = mirdump::dump_all(&cx, &mut out);
        hir::dump_all(&cx, &mut out);
        out.push_str(&format!(
            "{{\"k\":\"stats\",\"bodies\":{},\"calls\":{},\"resolved\":{}}}\n",
            stats.0, stats.1, stats.2
        ));
        std::fs::create_dir_all(&out_dir).unwrap();
        let path = format!("{}/{}.{}.jsonl", out_dir, krate, std::process::id());
        let mut f = std::fs::File::create(&path).unwrap();
        f.write_all(out.as_bytes()).unwrap();
        Compilation::Continue
    }
}

fn main() {
    let mut args: Vec<String> = std::env::args().collect();
    // RUSTC_WORKSPACE_WRAPPER passes: <wrapper> <rustc> <args...>
    if args.len() > 1 && (args[1].ends_with("rustc") || args[1].contains("/rustc")) {
        args.remove(1);
    }
    rustc_driver::run_compiler(&args, &mut Cb);
}
