//! MIR → JSON facts.  Format (compact arrays; see /verif/rules/common.py for the reader):
//!
//! fn record: {"k":"fn","id":path,"dk":"Fn|AssocFn|Closure","parent":path|null,"file":..,"line":n,
//!             "vis":"pub|priv","impl":{"trait":path|null,"self":ty}|null,"argc":n,
//!             "locals":[ty..],"names":{local:name},"blocks":[block..],"promoted":[[block..]..]}
//! block:  {"s":[stmt..],"t":term,"c":0|1}
//! stmt:   ["=",place,rvalue,line] | ["setdiscr",place,variant,line]
//! place:  [local,[proj..]]   proj: "*" | ["f",idx,adt|null,variant|null,fieldname|null] | ["d",variant]
//!                                  | "i" | "ci" | "sub" | "?"
//! rvalue: ["use",op] ["ref",kind,place] ["addr",place] ["bin",op,a,b] ["un",op,a] ["discr",place]
//!         ["agg",kind,[ops]] ["cast",kind,op,ty] ["len",place] ["repeat",op] ["cfd",place] ["other",text]
//!         agg kind: ["adt",path,variant] | ["closure",path] | "tuple" | "array" | "other"
//! op:     ["c",place] | ["m",place] | ["k",ty,value]
//!         value: int | bool | {"str":..} | {"fn":path,"ga":[..],"refs":[..]} | {"variant":name} | {"promoted":i}
//!                | {"unit":1} | null
//! term:   ["goto",bb] ["switch",op,[[val,bb]..],otherwise] ["ret"] ["unreachable"] ["resume"] ["abort"]
//!         ["drop",place,target,unwind] ["call",callee,[ops],dest,target,unwind,line,expn] ["assert",op,expected,kind,target,unwind,line]
//!         ["other",text,[succ..]]
//! callee: {"r":resolved path|null,"d":declared path,"ik":instance kind,"ga":[generic arg types],
//!          "refs":[fn/closure paths occurring in generic args],"recv":ty|null} | {"ptr":op}
use crate::json;
use crate::Cx;
use rustc_hir::def::DefKind;
use rustc_hir::def_id::DefId;
use rustc_middle::mir::{self, *};
use rustc_middle::ty::{self, Ty, TypeVisitableExt};
use rustc_span::Span;

pub fn dump_all<'tcx>(cx: &Cx<'tcx>, out: &mut String) -> (usize, usize, usize) {
    let tcx = cx.tcx;
    let (mut nb, mut nc, mut nr) = (0usize, 0usize, 0usize);
    for ldid in tcx.hir_body_owners() {
        let did = ldid.to_def_id();
        let kind = tcx.def_kind(did);
        if !matches!(kind, DefKind::Fn | DefKind::AssocFn | DefKind::Closure) {
            continue;
        }
        let body: &mir::Body<'tcx> = tcx.optimized_mir(did);
        nb += 1;
        let mut d = Dumper { cx, body, did, ncalls: 0, nres: 0 };
        d.dump_fn(kind, out);
        nc += d.ncalls;
        nr += d.nres;
    }
    (nb, nc, nr)
}

struct Dumper<'a, 'tcx> {
    cx: &'a Cx<'tcx>,
    body: &'a mir::Body<'tcx>,
    did: DefId,
    ncalls: usize,
    nres: usize,
}

fn collect_fn_refs<'tcx>(cx: &Cx<'tcx>, t: Ty<'tcx>, refs: &mut Vec<String>) {
    for ga in t.walk() {
        if let Some(t) = ga.as_type() {
            match t.kind() {
                ty::Closure(d, _) | ty::FnDef(d, _) | ty::Coroutine(d, _) => {
                    let p = cx.path(*d);
                    if !refs.contains(&p) {
                        refs.push(p);
                    }
                }
                _ => {}
            }
        }
    }
}

impl<'a, 'tcx> Dumper<'a, 'tcx> {
    fn dump_fn(&mut self, kind: DefKind, out: &mut String) {
        let cx = self.cx;
        let tcx = cx.tcx;
        let did = self.did;
        let (file, line) = cx.loc(tcx.def_span(did));
        let parent = tcx.opt_parent(did);
        // enclosing fn for closures; impl/trait for assoc fns
        let parent_s = match kind {
            DefKind::Closure => Some(cx.path(tcx.typeck_root_def_id(did))),
            _ => None,
        };
        let closure_parent = match kind {
            DefKind::Closure => parent.map(|p| cx.path(p)),
            _ => None,
        };
        let mut impl_s = "null".to_string();
        if kind == DefKind::AssocFn {
            if let Some(p) = parent {
                match tcx.def_kind(p) {
                    DefKind::Impl { .. } => {
                        let self_ty = tcx.type_of(p).instantiate_identity();
                        let tr = tcx.impl_trait_ref(p).map(|t| cx.path(t.instantiate_identity().def_id));
                        impl_s = format!(
                            "{{\"trait\":{},\"self\":{}}}",
                            json::opt_s(&tr),
                            json::s(&cx.ty(self_ty))
                        );
                    }
                    DefKind::Trait => {
                        impl_s = format!(
                            "{{\"trait\":{},\"self\":\"Self\",\"default\":1}}",
                            json::s(&cx.path(p))
                        );
                    }
                    _ => {}
                }
            }
        }
        let vis = if matches!(kind, DefKind::Fn | DefKind::AssocFn) {
            let reachable = did
                .as_local()
                .map(|l| tcx.effective_visibilities(()).is_reachable(l))
                .unwrap_or(false);
            if reachable {
                "pub"
            } else if tcx.visibility(did).is_public() {
                "pub-unreachable"
            } else {
                "priv"
            }
        } else {
            "priv"
        };
        let name = tcx.opt_item_name(did).map(|s| s.to_string());
        out.push_str("{\"k\":\"fn\",\"id\":");
        json::esc(&cx.path(did), out);
        out.push_str(&format!(
            ",\"dk\":\"{:?}\",\"name\":{},\"root\":{},\"parent\":{},\"file\":{},\"line\":{},\"vis\":\"{}\",\"impl\":{},\"argc\":{}",
            kind,
            json::opt_s(&name),
            json::opt_s(&parent_s),
            json::opt_s(&closure_parent),
            json::s(&file),
            line,
            vis,
            impl_s,
            self.body.arg_count
        ));
        // locals
        out.push_str(",\"locals\":[");
        for (i, ld) in self.body.local_decls.iter().enumerate() {
            if i > 0 {
                out.push(',');
            }
            json::esc(&cx.ty(ld.ty), out);
        }
        out.push_str("],\"names\":{");
        let mut first = true;
        for vdi in &self.body.var_debug_info {
            if let VarDebugInfoContents::Place(p) = &vdi.value {
                if !first {
                    out.push(',');
                }
                first = false;
                let key = if p.projection.is_empty() {
                    format!("{}", p.local.as_usize())
                } else {
                    format!("{}+", p.local.as_usize())
                };
                // several names may map to one local (captured upvars): keep first by JSON semantics
                json::esc(&format!("{}#{}", key, vdi.name), out);
                out.push(':');
                json::esc(&vdi.name.to_string(), out);
            }
        }
        out.push_str("},\"blocks\":");
        let body = self.body;
        self.dump_blocks(body, out);
        out.push_str(",\"promoted\":[");
        let promoted = tcx.promoted_mir(did);
        for (i, pb) in promoted.iter().enumerate() {
            if i > 0 {
                out.push(',');
            }
            let mut d2 = Dumper { cx, body: pb, did, ncalls: 0, nres: 0 };
            d2.dump_blocks(pb, out);
        }
        out.push_str("]}\n");
    }

    fn dump_blocks(&mut self, body: &mir::Body<'tcx>, out: &mut String) {
        out.push('[');
        for (bi, (_bb, data)) in body.basic_blocks.iter_enumerated().enumerate() {
            if bi > 0 {
                out.push(',');
            }
            out.push_str("{\"s\":[");
            let mut first = true;
            for st in &data.statements {
                let line = self.cx.loc(st.source_info.span).1;
                match &st.kind {
                    StatementKind::Assign(box (place, rv)) => {
                        if !first {
                            out.push(',');
                        }
                        first = false;
                        out.push_str("[\"=\",");
                        self.place(body, place, out);
                        out.push(',');
                        self.rvalue(body, rv, out);
                        out.push_str(&format!(",{}]", line));
                    }
                    StatementKind::SetDiscriminant { place, variant_index } => {
                        if !first {
                            out.push(',');
                        }
                        first = false;
                        out.push_str("[\"setdiscr\",");
                        self.place(body, place, out);
                        let pty = place.ty(&body.local_decls, self.cx.tcx).ty;
                        let vname = match pty.kind() {
                            ty::Adt(adt, _) if adt.is_enum() => {
                                adt.variant(*variant_index).name.to_string()
                            }
                            _ => format!("{}", variant_index.as_usize()),
                        };
                        out.push_str(&format!(",{},{}]", json::s(&vname), line));
                    }
                    _ => {}
                }
            }
            out.push_str("],\"t\":");
            match &data.terminator {
                Some(t) => self.term(body, t, out),
                None => out.push_str("[\"none\"]"),
            }
            out.push_str(&format!(",\"c\":{}}}", if data.is_cleanup { 1 } else { 0 }));
        }
        out.push(']');
    }

    fn place(&self, body: &mir::Body<'tcx>, place: &Place<'tcx>, out: &mut String) {
        let tcx = self.cx.tcx;
        out.push_str(&format!("[{},[", place.local.as_usize()));
        let mut pty = mir::PlaceTy::from_ty(body.local_decls[place.local].ty);
        for (i, elem) in place.projection.iter().enumerate() {
            if i > 0 {
                out.push(',');
            }
            match elem {
                ProjectionElem::Deref => out.push_str("\"*\""),
                ProjectionElem::Field(f, _) => match pty.ty.kind() {
                    ty::Adt(adt, _) => {
                        let vidx = pty.variant_index.unwrap_or(rustc_abi::VariantIdx::from_u32(0));
                        let v = adt.variant(vidx);
                        let fname = v.fields[f].name.to_string();
                        out.push_str(&format!(
                            "[\"f\",{},{},{},{}]",
                            f.as_usize(),
                            json::s(&self.cx.path(adt.did())),
                            json::s(&v.name.to_string()),
                            json::s(&fname)
                        ));
                    }
                    _ => out.push_str(&format!("[\"f\",{},null,null,null]", f.as_usize())),
                },
                ProjectionElem::Downcast(name, vidx) => {
                    let n = match name {
                        Some(s) => s.to_string(),
                        None => format!("{}", vidx.as_usize()),
                    };
                    out.push_str(&format!("[\"d\",{}]", json::s(&n)));
                }
                ProjectionElem::Index(_) => out.push_str("\"i\""),
                ProjectionElem::ConstantIndex { .. } => out.push_str("\"ci\""),
                ProjectionElem::Subslice { .. } => out.push_str("\"sub\""),
                _ => out.push_str("\"?\""),
            }
            pty = pty.projection_ty(tcx, elem);
        }
        out.push_str("]]");
    }

    fn operand(&self, body: &mir::Body<'tcx>, op: &Operand<'tcx>, out: &mut String) {
        match op {
            Operand::Copy(p) => {
                out.push_str("[\"c\",");
                self.place(body, p, out);
                out.push(']');
            }
            Operand::Move(p) => {
                out.push_str("[\"m\",");
                self.place(body, p, out);
                out.push(']');
            }
            Operand::Constant(c) => {
                out.push_str("[\"k\",");
                let t = c.const_.ty();
                json::esc(&self.cx.ty(t), out);
                out.push(',');
                self.constant(c, out);
                out.push(']');
            }
        }
    }

    fn constant(&self, c: &ConstOperand<'tcx>, out: &mut String) {
        let tcx = self.cx.tcx;
        let t = c.const_.ty();
        if let ty::FnDef(d, args) = t.kind() {
            let mut refs = vec![];
            let mut ga = vec![];
            for a in args.iter() {
                if let Some(at) = a.as_type() {
                    collect_fn_refs(self.cx, at, &mut refs);
                    ga.push(self.cx.ty(at));
                }
            }
            out.push_str(&format!(
                "{{\"fn\":{},\"ga\":{},\"refs\":{}}}",
                json::s(&self.cx.path(*d)),
                json::arr_s(&ga),
                json::arr_s(&refs)
            ));
            return;
        }
        if let Const::Unevaluated(uv, _) = c.const_ {
            if let Some(p) = uv.promoted {
                if uv.def == self.did {
                    out.push_str(&format!("{{\"promoted\":{}}}", p.as_usize()));
                    return;
                }
            }
        }
        if c.const_.has_non_region_param() {
            out.push_str("null");
            return;
        }
        // a named constant (`sym::macro_use`) whose value has no printable form is identified by its path
        let named = match c.const_ {
            Const::Unevaluated(uv, _) if uv.promoted.is_none() => Some(self.cx.path(uv.def)),
            _ => None,
        };
        let typing_env = ty::TypingEnv::post_analysis(tcx, self.did);
        let val = match c.const_.eval(tcx, typing_env, c.span) {
            Ok(v) => v,
            Err(_) => {
                out.push_str("null");
                return;
            }
        };
        let mut tmp = String::new();
        self.const_value(val, t, &mut tmp);
        match named {
            Some(n) if tmp == "null" => out.push_str(&format!("{{\"named\":{}}}", json::s(&n))),
            _ => out.push_str(&tmp),
        }
    }

    fn const_value(&self, val: ConstValue<'tcx>, t: Ty<'tcx>, out: &mut String) {
        let tcx = self.cx.tcx;
        match val {
            ConstValue::Scalar(interpret::Scalar::Int(si)) => match t.kind() {
                ty::Bool => out.push_str(if si.try_to_bool().unwrap_or(false) { "true" } else { "false" }),
                ty::Char => {
                    let v = si.to_bits(si.size()) as u32;
                    match char::from_u32(v) {
                        Some(ch) => out.push_str(&format!("{{\"char\":{}}}", json::s(&ch.to_string()))),
                        None => out.push_str("null"),
                    }
                }
                ty::Int(_) => {
                    let size = si.size();
                    let v = si.to_int(size);
                    out.push_str(&format!("{}", v));
                }
                ty::Uint(_) => {
                    let v = si.to_bits(si.size());
                    if v > (i64::MAX as u128) {
                        out.push_str(&format!("{{\"big\":\"{}\"}}", v));
                    } else {
                        out.push_str(&format!("{}", v));
                    }
                }
                ty::Adt(adt, _) if adt.is_enum() => {
                    let bits = si.to_bits(si.size());
                    let mut found = None;
                    for (vidx, discr) in adt.discriminants(tcx) {
                        // compare on the low bits of the scalar's size
                        let mask: u128 = if si.size().bits() >= 128 { u128::MAX } else { (1u128 << si.size().bits()) - 1 };
                        if discr.val & mask == bits {
                            found = Some(adt.variant(vidx).name.to_string());
                            break;
                        }
                    }
                    match found {
                        Some(n) if adt.variants().iter().all(|v| v.fields.is_empty()) => {
                            out.push_str(&format!("{{\"variant\":{}}}", json::s(&n)))
                        }
                        _ => out.push_str("null"),
                    }
                }
                _ => out.push_str("null"),
            },
            ConstValue::Slice { data, meta } => {
                let peeled = t.peel_refs();
                if peeled.is_str() {
                    let len = meta as usize;
                    let bytes = data
                        .inner()
                        .inspect_with_uninit_and_ptr_outside_interpreter(0..len);
                    let s = String::from_utf8_lossy(bytes).to_string();
                    out.push_str(&format!("{{\"str\":{}}}", json::s(&s)));
                } else {
                    out.push_str("null");
                }
            }
            ConstValue::ZeroSized => out.push_str("{\"unit\":1}"),
            _ => out.push_str("null"),
        }
    }

    fn rvalue(&self, body: &mir::Body<'tcx>, rv: &Rvalue<'tcx>, out: &mut String) {
        match rv {
            Rvalue::Use(op) => {
                out.push_str("[\"use\",");
                self.operand(body, op, out);
                out.push(']');
            }
            Rvalue::Ref(_, bk, p) => {
                let k = match bk {
                    BorrowKind::Shared => "shr",
                    BorrowKind::Fake(_) => "fake",
                    BorrowKind::Mut { .. } => "mut",
                };
                out.push_str(&format!("[\"ref\",\"{}\",", k));
                self.place(body, p, out);
                out.push(']');
            }
            Rvalue::RawPtr(k, p) => {
                out.push_str(&format!("[\"addr\",\"{:?}\",", k));
                self.place(body, p, out);
                out.push(']');
            }
            Rvalue::BinaryOp(op, box (a, b)) => {
                out.push_str(&format!("[\"bin\",\"{:?}\",", op));
                self.operand(body, a, out);
                out.push(',');
                self.operand(body, b, out);
                out.push(']');
            }
            Rvalue::UnaryOp(op, a) => {
                out.push_str(&format!("[\"un\",\"{:?}\",", op));
                self.operand(body, a, out);
                out.push(']');
            }
            Rvalue::Discriminant(p) => {
                out.push_str("[\"discr\",");
                self.place(body, p, out);
                let pty = p.ty(&body.local_decls, self.cx.tcx).ty;
                out.push(',');
                json::esc(&self.cx.ty(pty), out);
                out.push_str(",[");
                if let ty::Adt(adt, _) = pty.kind() {
                    if adt.is_enum() {
                        for (i, (vidx, discr)) in adt.discriminants(self.cx.tcx).enumerate() {
                            if i > 0 {
                                out.push(',');
                            }
                            let name = adt.variant(vidx).name.to_string();
                            if discr.val > i64::MAX as u128 {
                                out.push_str(&format!("[\"{}\",{}]", discr.val, json::s(&name)));
                            } else {
                                out.push_str(&format!("[{},{}]", discr.val, json::s(&name)));
                            }
                        }
                    }
                }
                out.push_str("]]");
            }
            Rvalue::Aggregate(box kind, ops) => {
                out.push_str("[\"agg\",");
                match kind {
                    AggregateKind::Adt(d, vidx, _, _, _) => {
                        let adt = self.cx.tcx.adt_def(*d);
                        let v = adt.variant(*vidx);
                        out.push_str(&format!(
                            "[\"adt\",{},{}]",
                            json::s(&self.cx.path(*d)),
                            json::s(&v.name.to_string())
                        ));
                    }
                    AggregateKind::Closure(d, _)
                    | AggregateKind::Coroutine(d, _)
                    | AggregateKind::CoroutineClosure(d, _) => {
                        out.push_str(&format!("[\"closure\",{}]", json::s(&self.cx.path(*d))));
                    }
                    AggregateKind::Tuple => out.push_str("\"tuple\""),
                    AggregateKind::Array(_) => out.push_str("\"array\""),
                    _ => out.push_str("\"other\""),
                }
                out.push_str(",[");
                for (i, o) in ops.iter().enumerate() {
                    if i > 0 {
                        out.push(',');
                    }
                    self.operand(body, o, out);
                }
                out.push_str("]]");
            }
            Rvalue::Cast(k, op, t) => {
                let ks = match k {
                    CastKind::PointerCoercion(pc, _) => format!("Coerce:{:?}", pc),
                    other => format!("{:?}", other),
                };
                out.push_str(&format!("[\"cast\",{},", json::s(&ks)));
                self.operand(body, op, out);
                out.push(',');
                json::esc(&self.cx.ty(*t), out);
                out.push(']');
            }
            Rvalue::Len(p) => {
                out.push_str("[\"len\",");
                self.place(body, p, out);
                out.push(']');
            }
            Rvalue::Repeat(op, _) => {
                out.push_str("[\"repeat\",");
                self.operand(body, op, out);
                out.push(']');
            }
            Rvalue::CopyForDeref(p) => {
                out.push_str("[\"cfd\",");
                self.place(body, p, out);
                out.push(']');
            }
            Rvalue::ShallowInitBox(op, _) => {
                out.push_str("[\"use\",");
                self.operand(body, op, out);
                out.push(']');
            }
            other => {
                let s = format!("{:?}", other);
                let short: String = s.chars().take(80).collect();
                out.push_str(&format!("[\"other\",{}]", json::s(&short)));
            }
        }
    }

    fn unwind(&self, u: &UnwindAction) -> String {
        match u {
            UnwindAction::Cleanup(bb) => format!("{}", bb.as_usize()),
            _ => "null".to_string(),
        }
    }

    fn expn(&self, span: Span) -> String {
        if span.from_expansion() {
            let ed = span.ctxt().outer_expn_data();
            let name = match ed.kind {
                rustc_span::ExpnKind::Macro(_, sym) => sym.to_string(),
                rustc_span::ExpnKind::Desugaring(d) => format!("desugar:{:?}", d),
                rustc_span::ExpnKind::AstPass(p) => format!("astpass:{:?}", p),
                rustc_span::ExpnKind::Root => "root".to_string(),
            };
            // outermost user macro
            let mut outer = name.clone();
            let mut sp = span;
            let mut guard = 0;
            while sp.from_expansion() && guard < 32 {
                let ed = sp.ctxt().outer_expn_data();
                if let rustc_span::ExpnKind::Macro(_, sym) = ed.kind {
                    outer = sym.to_string();
                }
                sp = ed.call_site;
                guard += 1;
            }
            format!("[{},{}]", json::s(&name), json::s(&outer))
        } else {
            "null".to_string()
        }
    }

    fn term(&mut self, body: &mir::Body<'tcx>, t: &Terminator<'tcx>, out: &mut String) {
        let tcx = self.cx.tcx;
        let line = self.cx.loc(t.source_info.span).1;
        match &t.kind {
            TerminatorKind::Goto { target } => out.push_str(&format!("[\"goto\",{}]", target.as_usize())),
            TerminatorKind::SwitchInt { discr, targets } => {
                out.push_str("[\"switch\",");
                self.operand(body, discr, out);
                out.push_str(",[");
                for (i, (v, bb)) in targets.iter().enumerate() {
                    if i > 0 {
                        out.push(',');
                    }
                    if v > i64::MAX as u128 {
                        out.push_str(&format!("[\"{}\",{}]", v, bb.as_usize()));
                    } else {
                        out.push_str(&format!("[{},{}]", v, bb.as_usize()));
                    }
                }
                out.push_str(&format!("],{}", targets.otherwise().as_usize()));
                // type of the discriminant operand (for naming enum variants of Discriminant reads)
                let dty = discr.ty(&body.local_decls, tcx);
                out.push(',');
                json::esc(&self.cx.ty(dty), out);
                out.push(']');
            }
            TerminatorKind::Return => out.push_str("[\"ret\"]"),
            TerminatorKind::Unreachable => out.push_str("[\"unreachable\"]"),
            TerminatorKind::UnwindResume => out.push_str("[\"resume\"]"),
            TerminatorKind::UnwindTerminate(_) => out.push_str("[\"abort\"]"),
            TerminatorKind::Drop { place, target, unwind, .. } => {
                out.push_str("[\"drop\",");
                self.place(body, place, out);
                out.push_str(&format!(",{},{}]", target.as_usize(), self.unwind(unwind)));
            }
            TerminatorKind::Call { func, args, destination, target, unwind, fn_span, .. } => {
                self.ncalls += 1;
                out.push_str("[\"call\",");
                self.callee(body, func, out);
                out.push_str(",[");
                for (i, a) in args.iter().enumerate() {
                    if i > 0 {
                        out.push(',');
                    }
                    self.operand(body, &a.node, out);
                }
                out.push_str("],");
                self.place(body, destination, out);
                let tg = match target {
                    Some(b) => format!("{}", b.as_usize()),
                    None => "null".to_string(),
                };
                let fline = self.cx.loc(*fn_span).1;
                out.push_str(&format!(
                    ",{},{},{},{}]",
                    tg,
                    self.unwind(unwind),
                    if fline > 0 { fline } else { line },
                    self.expn(t.source_info.span)
                ));
            }
            TerminatorKind::TailCall { func, args, .. } => {
                self.ncalls += 1;
                out.push_str("[\"call\",");
                self.callee(body, func, out);
                out.push_str(",[");
                for (i, a) in args.iter().enumerate() {
                    if i > 0 {
                        out.push(',');
                    }
                    self.operand(body, &a.node, out);
                }
                out.push_str(&format!("],[0,[]],null,null,{},null]", line));
            }
            TerminatorKind::Assert { cond, expected, msg, target, unwind } => {
                out.push_str("[\"assert\",");
                self.operand(body, cond, out);
                let kind = match &**msg {
                    AssertKind::BoundsCheck { .. } => "BoundsCheck".to_string(),
                    AssertKind::Overflow(op, _, _) => format!("Overflow:{:?}", op),
                    AssertKind::OverflowNeg(_) => "OverflowNeg".to_string(),
                    AssertKind::DivisionByZero(_) => "DivisionByZero".to_string(),
                    AssertKind::RemainderByZero(_) => "RemainderByZero".to_string(),
                    _ => "Other".to_string(),
                };
                out.push_str(&format!(
                    ",{},{},{},{},{}]",
                    if *expected { "true" } else { "false" },
                    json::s(&kind),
                    target.as_usize(),
                    self.unwind(unwind),
                    line
                ));
            }
            other => {
                let succ: Vec<String> =
                    other.successors().map(|b| format!("{}", b.as_usize())).collect();
                let s = format!("{:?}", other);
                let short: String = s.chars().take(60).collect();
                out.push_str(&format!("[\"other\",{},{}]", json::s(&short), json::arr(&succ)));
            }
        }
    }

    fn callee(&mut self, body: &mir::Body<'tcx>, func: &Operand<'tcx>, out: &mut String) {
        let tcx = self.cx.tcx;
        let fty = func.ty(&body.local_decls, tcx);
        if let ty::FnDef(cdid, args) = fty.kind() {
            let typing_env = ty::TypingEnv::post_analysis(tcx, self.did);
            let resolved = if args.has_non_region_param() || true {
                ty::Instance::try_resolve(tcx, typing_env, *cdid, args).ok().flatten()
            } else {
                None
            };
            let (r, ik) = match resolved {
                Some(i) => {
                    let ik = match i.def {
                        ty::InstanceKind::Item(_) => "Item",
                        ty::InstanceKind::Virtual(..) => "Virtual",
                        ty::InstanceKind::ClosureOnceShim { .. } => "ClosureOnceShim",
                        ty::InstanceKind::FnPtrShim(..) => "FnPtrShim",
                        ty::InstanceKind::DropGlue(..) => "DropGlue",
                        ty::InstanceKind::CloneShim(..) => "CloneShim",
                        ty::InstanceKind::Intrinsic(..) => "Intrinsic",
                        ty::InstanceKind::ReifyShim(..) => "ReifyShim",
                        ty::InstanceKind::VTableShim(..) => "VTableShim",
                        _ => "Other",
                    };
                    // a trait method that resolves to itself (default body unavailable / still generic)
                    if matches!(i.def, ty::InstanceKind::Virtual(..)) {
                        (None, ik)
                    } else {
                        self.nres += 1;
                        (Some(self.cx.path(i.def_id())), ik)
                    }
                }
                None => (None, "Unresolved"),
            };
            let mut refs = vec![];
            let mut ga = vec![];
            for a in args.iter() {
                if let Some(at) = a.as_type() {
                    collect_fn_refs(self.cx, at, &mut refs);
                    ga.push(self.cx.ty(at));
                }
            }
            // is the declared callee a trait method?
            let trait_of = tcx.trait_of_item(*cdid).map(|t| self.cx.path(t));
            out.push_str(&format!(
                "{{\"r\":{},\"d\":{},\"ik\":\"{}\",\"ga\":{},\"refs\":{},\"trait\":{}}}",
                json::opt_s(&r),
                json::s(&self.cx.path(*cdid)),
                ik,
                json::arr_s(&ga),
                json::arr_s(&refs),
                json::opt_s(&trait_of)
            ));
        } else {
            out.push_str("{\"ptr\":");
            self.operand(body, func, out);
            out.push_str(&format!(",\"ty\":{}}}", json::s(&self.cx.ty(fty))));
        }
    }
}
