//! ADT / impl / static / typed-HIR facts.
//!
//! adt:   {"k":"adt","id":path,"crate":name,"kind":"struct|enum|union","variants":[{"name":..,"fields":[[name,ty]..]}]}
//! impl:  {"k":"impl","trait":path|null,"self":ty,"self_adt":path|null,"methods":{name:fnpath}}
//! static:{"k":"static","id":path,"ty":ty,"mut":bool,"file":..,"line":n,"expn":macro|null}
//! hir_const: {"k":"hir_const","id":path,"kind":"const|static","ty":ty,"values":[lit..],"file":..,"line":n}
//! hir_cmp:   {"k":"hir_cmp","owner":fn,"wty":watched ty,"op":"Ge",..,"lhs":desc,"rhs":desc,"line":n}
//!            desc = {"variant":name} | {"dyn":1}
//! hir_match: {"k":"hir_match","owner":fn,"wty":..,"src":"match|let","arms":[{"variants":[..],"wild":bool,"guard":bool}],"line":n}
//! hir_pat:   {"k":"hir_pat","owner":fn,"wty":..,"variants":[..],"line":n}      (watched-type pattern nested in a larger pattern)
//! hir_use:   {"k":"hir_use","owner":fn,"wty":..,"how":"method|call|cast|ctor","callee":path|null,"pos":n,"line":n}
//! hir_litmatch: {"k":"hir_litmatch","owner":fn,"scrut_ty":ty,"arms":[{"pats":[lit..],"wild":bool,"strs":[..],"chars":[..],"calls":[..]}],"line":n}
use crate::json;
use crate::Cx;
use rustc_hir as hir;
use rustc_hir::def::{DefKind, Res};
use rustc_hir::def_id::DefId;
use rustc_hir::intravisit::{self, Visitor};
use rustc_middle::ty::{self, Ty};
use std::collections::{BTreeMap, VecDeque};

pub fn dump_all<'tcx>(cx: &Cx<'tcx>, out: &mut String) {
    dump_adts(cx, out);
    dump_impls(cx, out);
    dump_items(cx, out);
    dump_bodies(cx, out);
}

fn adt_record<'tcx>(cx: &Cx<'tcx>, did: DefId, out: &mut String) -> Vec<Ty<'tcx>> {
    let tcx = cx.tcx;
    let adt = tcx.adt_def(did);
    let kind = if adt.is_enum() {
        "enum"
    } else if adt.is_union() {
        "union"
    } else {
        "struct"
    };
    let mut field_tys = vec![];
    out.push_str(&format!(
        "{{\"k\":\"adt\",\"id\":{},\"crate\":{},\"kind\":\"{}\",\"variants\":[",
        json::s(&cx.path(did)),
        json::s(&tcx.crate_name(did.krate).to_string()),
        kind
    ));
    for (i, v) in adt.variants().iter().enumerate() {
        if i > 0 {
            out.push(',');
        }
        out.push_str(&format!("{{\"name\":{},\"fields\":[", json::s(&v.name.to_string())));
        for (j, f) in v.fields.iter().enumerate() {
            if j > 0 {
                out.push(',');
            }
            let fty = tcx.type_of(f.did).instantiate_identity();
            field_tys.push(fty);
            out.push_str(&format!("[{},{}]", json::s(&f.name.to_string()), json::s(&cx.ty(fty))));
        }
        out.push_str("]}");
    }
    out.push_str("]}\n");
    field_tys
}

fn dump_adts<'tcx>(cx: &Cx<'tcx>, out: &mut String) {
    let tcx = cx.tcx;
    let mut seen: std::collections::HashSet<DefId> = std::collections::HashSet::new();
    let mut queue: VecDeque<DefId> = VecDeque::new();
    // local ADTs
    for id in tcx.hir_crate_items(()).definitions() {
        let did = id.to_def_id();
        if matches!(tcx.def_kind(did), DefKind::Struct | DefKind::Enum | DefKind::Union) {
            if seen.insert(did) {
                queue.push_back(did);
            }
        }
    }
    // extern ADTs mentioned in local types of MIR bodies
    for ldid in tcx.hir_body_owners() {
        let did = ldid.to_def_id();
        if !matches!(tcx.def_kind(did), DefKind::Fn | DefKind::AssocFn | DefKind::Closure) {
            continue;
        }
        let body = tcx.optimized_mir(did);
        for ld in body.local_decls.iter() {
            for ga in ld.ty.walk() {
                if let Some(t) = ga.as_type() {
                    if let ty::Adt(adt, _) = t.kind() {
                        let d = adt.did();
                        if !d.is_local() && wanted_extern(cx, d) && seen.insert(d) {
                            queue.push_back(d);
                        }
                    }
                }
            }
        }
    }
    while let Some(d) = queue.pop_front() {
        let ftys = adt_record(cx, d, out);
        for fty in ftys {
            for ga in fty.walk() {
                if let Some(t) = ga.as_type() {
                    if let ty::Adt(adt, _) = t.kind() {
                        let nd = adt.did();
                        if !nd.is_local() && wanted_extern(cx, nd) && seen.insert(nd) {
                            queue.push_back(nd);
                        }
                    }
                }
            }
        }
    }
}

fn wanted_extern<'tcx>(cx: &Cx<'tcx>, d: DefId) -> bool {
    let name = cx.tcx.crate_name(d.krate);
    let n = name.as_str();
    n == "rustc_ast" || n == "rustc_ast_ir"
}

fn dump_impls<'tcx>(cx: &Cx<'tcx>, out: &mut String) {
    let tcx = cx.tcx;
    for id in tcx.hir_crate_items(()).definitions() {
        let did = id.to_def_id();
        if let DefKind::Impl { .. } = tcx.def_kind(did) {
            let self_ty = tcx.type_of(did).instantiate_identity();
            let tr = tcx.impl_trait_ref(did).map(|t| cx.path(t.instantiate_identity().def_id));
            let self_adt = match self_ty.peel_refs().kind() {
                ty::Adt(a, _) => Some(cx.path(a.did())),
                _ => None,
            };
            let mut methods = vec![];
            for item in tcx.associated_items(did).in_definition_order() {
                if let ty::AssocKind::Fn = item.kind {
                    methods.push(format!(
                        "{}:{}",
                        json::s(&item.name.to_string()),
                        json::s(&cx.path(item.def_id))
                    ));
                }
            }
            out.push_str(&format!(
                "{{\"k\":\"impl\",\"trait\":{},\"self\":{},\"self_adt\":{},\"methods\":{{{}}}}}\n",
                json::opt_s(&tr),
                json::s(&cx.ty(self_ty)),
                json::opt_s(&self_adt),
                methods.join(",")
            ));
        }
    }
}

fn lit_json(l: &hir::Lit) -> Option<String> {
    use rustc_ast::LitKind;
    match &l.node {
        LitKind::Str(s, _) => Some(format!("{{\"str\":{}}}", json::s(s.as_str()))),
        LitKind::Char(c) => Some(format!("{{\"char\":{}}}", json::s(&c.to_string()))),
        LitKind::Int(v, _) => Some(format!("{}", v.get())),
        LitKind::Bool(b) => Some(format!("{}", b)),
        LitKind::Byte(b) => Some(format!("{}", b)),
        _ => None,
    }
}

fn expn_name(span: rustc_span::Span) -> Option<String> {
    if !span.from_expansion() {
        return None;
    }
    let mut outer = None;
    let mut sp = span;
    let mut guard = 0;
    while sp.from_expansion() && guard < 32 {
        let ed = sp.ctxt().outer_expn_data();
        if let rustc_span::ExpnKind::Macro(_, sym) = ed.kind {
            outer = Some(sym.to_string());
        }
        sp = ed.call_site;
        guard += 1;
    }
    outer.or(Some("desugar".to_string()))
}

fn dump_items<'tcx>(cx: &Cx<'tcx>, out: &mut String) {
    let tcx = cx.tcx;
    for id in tcx.hir_crate_items(()).definitions() {
        let did = id.to_def_id();
        let dk = tcx.def_kind(did);
        let (is_static, is_const) = (
            matches!(dk, DefKind::Static { .. }),
            matches!(dk, DefKind::Const | DefKind::AssocConst),
        );
        if !is_static && !is_const {
            continue;
        }
        let t = tcx.type_of(did).instantiate_identity();
        let span = tcx.def_span(did);
        let (file, line) = cx.loc(span);
        if is_static {
            let mutable = matches!(dk, DefKind::Static { mutability: hir::Mutability::Mut, .. });
            let freeze = t.is_freeze(tcx, ty::TypingEnv::fully_monomorphized());
            out.push_str(&format!(
                "{{\"k\":\"static\",\"id\":{},\"ty\":{},\"mut\":{},\"freeze\":{},\"file\":{},\"line\":{},\"expn\":{}}}\n",
                json::s(&cx.path(did)),
                json::s(&cx.ty(t)),
                mutable,
                freeze,
                json::s(&file),
                line,
                json::opt_s(&expn_name(span))
            ));
        }
        // literal arrays
        if let Some(body_id) = tcx.hir_node_by_def_id(id).body_id() {
            let body = tcx.hir_body(body_id);
            let mut e = body.value;
            loop {
                match e.kind {
                    hir::ExprKind::AddrOf(_, _, inner) => e = inner,
                    hir::ExprKind::DropTemps(inner) => e = inner,
                    hir::ExprKind::Block(b, _) if b.stmts.is_empty() && b.expr.is_some() => {
                        e = b.expr.unwrap()
                    }
                    _ => break,
                }
            }
            let mut vals = vec![];
            let mut ok = false;
            match e.kind {
                hir::ExprKind::Array(elems) => {
                    ok = true;
                    for el in elems {
                        let mut x = el;
                        while let hir::ExprKind::AddrOf(_, _, inner) = x.kind {
                            x = inner;
                        }
                        match x.kind {
                            hir::ExprKind::Lit(l) => match lit_json(l) {
                                Some(j) => vals.push(j),
                                None => ok = false,
                            },
                            _ => ok = false,
                        }
                    }
                }
                hir::ExprKind::Lit(l) => {
                    if let Some(j) = lit_json(l) {
                        ok = true;
                        vals.push(j);
                    }
                }
                _ => {}
            }
            if ok {
                out.push_str(&format!(
                    "{{\"k\":\"hir_const\",\"id\":{},\"kind\":\"{}\",\"ty\":{},\"values\":{},\"file\":{},\"line\":{}}}\n",
                    json::s(&cx.path(did)),
                    if is_static { "static" } else { "const" },
                    json::s(&cx.ty(t)),
                    json::arr(&vals),
                    json::s(&file),
                    line
                ));
            }
        }
    }
}

fn watched_names() -> Vec<String> {
    std::env::var("RFX_WATCH")
        .unwrap_or_else(|_| "StyleEdition".to_string())
        .split(',')
        .map(|s| s.trim().to_string())
        .filter(|s| !s.is_empty())
        .collect()
}

struct BodyV<'a, 'tcx> {
    cx: &'a Cx<'tcx>,
    tr: &'tcx ty::TypeckResults<'tcx>,
    owner: String,
    watched: &'a [String],
    out: &'a mut String,
}

impl<'a, 'tcx> BodyV<'a, 'tcx> {
    fn watched_ty(&self, t: Ty<'tcx>) -> Option<String> {
        let t = t.peel_refs();
        if let ty::Adt(adt, _) = t.kind() {
            let p = self.cx.path(adt.did());
            let last = p.rsplit("::").next().unwrap_or("");
            if self.watched.iter().any(|w| w == last) {
                return Some(p);
            }
        }
        None
    }
    fn expr_wty(&self, e: &hir::Expr<'tcx>) -> Option<String> {
        self.tr.expr_ty_adjusted_opt(e).and_then(|t| self.watched_ty(t)).or_else(|| {
            self.tr.expr_ty_opt(e).and_then(|t| self.watched_ty(t))
        })
    }
    fn variant_of_res(&self, res: Res) -> Option<String> {
        match res {
            Res::Def(DefKind::Ctor(hir::def::CtorOf::Variant, _), d) => {
                let v = self.cx.tcx.parent(d);
                Some(self.cx.tcx.item_name(v).to_string())
            }
            Res::Def(DefKind::Variant, d) => Some(self.cx.tcx.item_name(d).to_string()),
            _ => None,
        }
    }
    fn desc(&self, e: &hir::Expr<'tcx>) -> String {
        let mut x = e;
        loop {
            match x.kind {
                hir::ExprKind::AddrOf(_, _, inner) | hir::ExprKind::DropTemps(inner) => x = inner,
                hir::ExprKind::Unary(hir::UnOp::Deref, inner) => x = inner,
                _ => break,
            }
        }
        if let hir::ExprKind::Path(ref qp) = x.kind {
            let res = self.tr.qpath_res(qp, x.hir_id);
            if let Some(v) = self.variant_of_res(res) {
                return format!("{{\"variant\":{}}}", json::s(&v));
            }
        }
        "{\"dyn\":1}".to_string()
    }
    /// variants named by a pattern of the watched type; (variants, has_wild_or_binding)
    fn pat_variants(&self, p: &hir::Pat<'tcx>, vs: &mut Vec<String>, wild: &mut bool) {
        match p.kind {
            hir::PatKind::Wild | hir::PatKind::Binding(_, _, _, None) => *wild = true,
            hir::PatKind::Binding(_, _, _, Some(sub)) => self.pat_variants(sub, vs, wild),
            hir::PatKind::Or(ps) => {
                for q in ps {
                    self.pat_variants(q, vs, wild);
                }
            }
            hir::PatKind::Ref(q, _) | hir::PatKind::Box(q) | hir::PatKind::Deref(q) => {
                self.pat_variants(q, vs, wild)
            }
            hir::PatKind::Expr(pe) => {
                if let hir::PatExprKind::Path(ref qp) = pe.kind {
                    let res = self.tr.qpath_res(qp, pe.hir_id);
                    if let Some(v) = self.variant_of_res(res) {
                        vs.push(v);
                        return;
                    }
                }
                vs.push("?".to_string());
            }
            hir::PatKind::Struct(ref qp, _, _) | hir::PatKind::TupleStruct(ref qp, _, _) => {
                let res = self.tr.qpath_res(qp, p.hir_id);
                match self.variant_of_res(res) {
                    Some(v) => vs.push(v),
                    None => vs.push("?".to_string()),
                }
            }
            hir::PatKind::Guard(q, _) => {
                vs.push("?guard".to_string());
                self.pat_variants(q, vs, wild)
            }
            _ => vs.push("?".to_string()),
        }
    }
    fn line(&self, sp: rustc_span::Span) -> usize {
        self.cx.loc(sp).1
    }
    fn callee_of(&self, e: &hir::Expr<'tcx>) -> Option<String> {
        match e.kind {
            hir::ExprKind::MethodCall(..) => {
                self.tr.type_dependent_def_id(e.hir_id).map(|d| self.cx.path(d))
            }
            hir::ExprKind::Call(f, _) => {
                if let hir::ExprKind::Path(ref qp) = f.kind {
                    match self.tr.qpath_res(qp, f.hir_id) {
                        Res::Def(_, d) => Some(self.cx.path(d)),
                        _ => None,
                    }
                } else {
                    None
                }
            }
            _ => None,
        }
    }
    fn is_ctor_call(&self, e: &hir::Expr<'tcx>) -> bool {
        if let hir::ExprKind::Call(f, _) = e.kind {
            if let hir::ExprKind::Path(ref qp) = f.kind {
                return matches!(self.tr.qpath_res(qp, f.hir_id), Res::Def(DefKind::Ctor(..), _));
            }
        }
        false
    }
    fn emit_match(&mut self, wty: &str, src: &str, arms: &[(&hir::Pat<'tcx>, bool)], line: usize) {
        let mut arm_js = vec![];
        for (p, guard) in arms {
            let mut vs = vec![];
            let mut wild = false;
            self.pat_variants(p, &mut vs, &mut wild);
            arm_js.push(format!(
                "{{\"variants\":{},\"wild\":{},\"guard\":{}}}",
                json::arr_s(&vs),
                wild,
                guard
            ));
        }
        self.out.push_str(&format!(
            "{{\"k\":\"hir_match\",\"owner\":{},\"wty\":{},\"src\":\"{}\",\"arms\":{},\"line\":{}}}\n",
            json::s(&self.owner),
            json::s(wty),
            src,
            json::arr(&arm_js),
            line
        ));
    }
    /// patterns of a watched type nested strictly inside `p`
    fn nested_watched_pats(&mut self, p: &hir::Pat<'tcx>, top: bool) {
        let t = self.tr.pat_ty(p);
        if !top {
            if let Some(w) = self.watched_ty(t) {
                let mut vs = vec![];
                let mut wild = false;
                self.pat_variants(p, &mut vs, &mut wild);
                if !vs.is_empty() {
                    self.out.push_str(&format!(
                        "{{\"k\":\"hir_pat\",\"owner\":{},\"wty\":{},\"variants\":{},\"wild\":{},\"line\":{}}}\n",
                        json::s(&self.owner),
                        json::s(&w),
                        json::arr_s(&vs),
                        wild,
                        self.line(p.span)
                    ));
                }
                return;
            }
        }
        match p.kind {
            hir::PatKind::Binding(_, _, _, Some(q))
            | hir::PatKind::Ref(q, _)
            | hir::PatKind::Box(q)
            | hir::PatKind::Deref(q)
            | hir::PatKind::Guard(q, _) => self.nested_watched_pats(q, false),
            hir::PatKind::Or(ps) | hir::PatKind::Tuple(ps, _) | hir::PatKind::TupleStruct(_, ps, _) => {
                for q in ps {
                    self.nested_watched_pats(q, false);
                }
            }
            hir::PatKind::Struct(_, fs, _) => {
                for f in fs {
                    self.nested_watched_pats(f.pat, false);
                }
            }
            hir::PatKind::Slice(a, b, c) => {
                for q in a.iter().chain(b.iter().map(|x| &**x).into_iter()).chain(c.iter()) {
                    self.nested_watched_pats(q, false);
                }
            }
            _ => {}
        }
    }
}

struct ArmCollect<'a, 'tcx> {
    tr: &'tcx ty::TypeckResults<'tcx>,
    cx: &'a Cx<'tcx>,
    strs: Vec<String>,
    chars: Vec<String>,
    calls: Vec<String>,
}
impl<'a, 'tcx> Visitor<'tcx> for ArmCollect<'a, 'tcx> {
    fn visit_expr(&mut self, e: &'tcx hir::Expr<'tcx>) {
        match e.kind {
            hir::ExprKind::Lit(l) => match &l.node {
                rustc_ast::LitKind::Str(s, _) => self.strs.push(s.to_string()),
                rustc_ast::LitKind::Char(c) => self.chars.push(c.to_string()),
                _ => {}
            },
            hir::ExprKind::MethodCall(..) => {
                if let Some(d) = self.tr.type_dependent_def_id(e.hir_id) {
                    self.calls.push(self.cx.path(d));
                }
            }
            hir::ExprKind::Call(f, _) => {
                if let hir::ExprKind::Path(ref qp) = f.kind {
                    if let Res::Def(_, d) = self.tr.qpath_res(qp, f.hir_id) {
                        self.calls.push(self.cx.path(d));
                    }
                }
            }
            _ => {}
        }
        intravisit::walk_expr(self, e);
    }
}

impl<'a, 'tcx> Visitor<'tcx> for BodyV<'a, 'tcx> {
    fn visit_expr(&mut self, e: &'tcx hir::Expr<'tcx>) {
        let line = self.line(e.span);
        match e.kind {
            hir::ExprKind::Binary(op, l, r) => {
                let w = self.expr_wty(l).or_else(|| self.expr_wty(r));
                if let Some(w) = w {
                    self.out.push_str(&format!(
                        "{{\"k\":\"hir_cmp\",\"owner\":{},\"wty\":{},\"op\":\"{:?}\",\"lhs\":{},\"rhs\":{},\"line\":{}}}\n",
                        json::s(&self.owner),
                        json::s(&w),
                        op.node,
                        self.desc(l),
                        self.desc(r),
                        line
                    ));
                }
            }
            hir::ExprKind::Match(scrut, arms, _) => {
                if let Some(w) = self.expr_wty(scrut) {
                    let v: Vec<(&hir::Pat<'tcx>, bool)> =
                        arms.iter().map(|a| (a.pat, a.guard.is_some())).collect();
                    self.emit_match(&w, "match", &v, line);
                } else {
                    for a in arms {
                        self.nested_watched_pats(a.pat, true);
                    }
                }
                // literal matches
                let mut lit_arms = vec![];
                let mut any_lit = false;
                for a in arms {
                    let mut pats = vec![];
                    let mut wild = false;
                    collect_lit_pats(a.pat, &mut pats, &mut wild);
                    if !pats.is_empty() {
                        any_lit = true;
                    }
                    lit_arms.push((pats, wild, a));
                }
                if any_lit {
                    let sty = self.tr.expr_ty_adjusted_opt(scrut).map(|t| self.cx.ty(t)).unwrap_or_default();
                    let mut arm_js = vec![];
                    for (pats, wild, a) in lit_arms {
                        let mut ac = ArmCollect { tr: self.tr, cx: self.cx, strs: vec![], chars: vec![], calls: vec![] };
                        ac.visit_expr(a.body);
                        arm_js.push(format!(
                            "{{\"pats\":{},\"wild\":{},\"guard\":{},\"strs\":{},\"chars\":{},\"calls\":{}}}",
                            json::arr(&pats),
                            wild,
                            a.guard.is_some(),
                            json::arr_s(&ac.strs),
                            json::arr_s(&ac.chars),
                            json::arr_s(&ac.calls)
                        ));
                    }
                    self.out.push_str(&format!(
                        "{{\"k\":\"hir_litmatch\",\"owner\":{},\"scrut_ty\":{},\"arms\":{},\"line\":{}}}\n",
                        json::s(&self.owner),
                        json::s(&sty),
                        json::arr(&arm_js),
                        line
                    ));
                }
            }
            hir::ExprKind::Let(le) => {
                if let Some(w) = self.expr_wty(le.init) {
                    self.emit_match(&w, "let", &[(le.pat, false)], line);
                } else {
                    self.nested_watched_pats(le.pat, true);
                }
            }
            hir::ExprKind::MethodCall(_, recv, args, _) => {
                let callee = self.callee_of(e);
                for (i, a) in std::iter::once(recv).chain(args.iter()).enumerate() {
                    if let Some(w) = self.expr_wty(a) {
                        self.out.push_str(&format!(
                            "{{\"k\":\"hir_use\",\"owner\":{},\"wty\":{},\"how\":\"method\",\"callee\":{},\"pos\":{},\"arg\":{},\"line\":{}}}\n",
                            json::s(&self.owner), json::s(&w), json::opt_s(&callee), i, self.desc(a), line
                        ));
                    }
                }
            }
            hir::ExprKind::Call(_, args) => {
                let callee = self.callee_of(e);
                let how = if self.is_ctor_call(e) { "ctor" } else { "call" };
                for (i, a) in args.iter().enumerate() {
                    if let Some(w) = self.expr_wty(a) {
                        self.out.push_str(&format!(
                            "{{\"k\":\"hir_use\",\"owner\":{},\"wty\":{},\"how\":\"{}\",\"callee\":{},\"pos\":{},\"arg\":{},\"line\":{}}}\n",
                            json::s(&self.owner), json::s(&w), how, json::opt_s(&callee), i, self.desc(a), line
                        ));
                    }
                }
            }
            hir::ExprKind::Cast(inner, _) => {
                if let Some(w) = self.expr_wty(inner) {
                    self.out.push_str(&format!(
                        "{{\"k\":\"hir_use\",\"owner\":{},\"wty\":{},\"how\":\"cast\",\"callee\":null,\"pos\":0,\"arg\":{},\"line\":{}}}\n",
                        json::s(&self.owner), json::s(&w), self.desc(inner), line
                    ));
                }
            }
            _ => {}
        }
        intravisit::walk_expr(self, e);
    }
    fn visit_local(&mut self, l: &'tcx hir::LetStmt<'tcx>) {
        // `let PAT = init else {..}` / destructuring lets
        if let Some(init) = l.init {
            if l.els.is_some() {
                if let Some(w) = self.expr_wty(init) {
                    let line = self.line(l.span);
                    self.emit_match(&w, "let", &[(l.pat, false)], line);
                }
            }
        }
        self.nested_watched_pats(l.pat, true);
        intravisit::walk_local(self, l);
    }
}

fn collect_lit_pats(p: &hir::Pat<'_>, out: &mut Vec<String>, wild: &mut bool) {
    match p.kind {
        hir::PatKind::Wild | hir::PatKind::Binding(_, _, _, None) => *wild = true,
        hir::PatKind::Or(ps) => {
            for q in ps {
                collect_lit_pats(q, out, wild);
            }
        }
        hir::PatKind::Expr(pe) => {
            if let hir::PatExprKind::Lit { lit, .. } = pe.kind {
                if let Some(j) = lit_json(lit) {
                    out.push(j);
                }
            }
        }
        hir::PatKind::Ref(q, _) => collect_lit_pats(q, out, wild),
        _ => {}
    }
}

fn dump_bodies<'tcx>(cx: &Cx<'tcx>, out: &mut String) {
    let tcx = cx.tcx;
    let watched = watched_names();
    let mut per_owner: BTreeMap<String, usize> = BTreeMap::new();
    for ldid in tcx.hir_body_owners() {
        let did = ldid.to_def_id();
        let tr = tcx.typeck(ldid);
        let body = tcx.hir_body_owned_by(ldid);
        let owner = cx.path(did);
        *per_owner.entry(owner.clone()).or_default() += 1;
        let mut v = BodyV { cx, tr, owner, watched: &watched, out };
        for p in body.params {
            v.nested_watched_pats(p.pat, true);
        }
        v.visit_expr(body.value);
    }
}
