#!/usr/bin/env python3
"""usage: show_instances.py <ID> <rule> [repo] — prints every instance of one rule (the evidence file keeps samples only)"""
import sys, os, importlib
V = os.path.dirname(os.path.dirname(os.path.abspath(__file__)))
sys.path.insert(0, os.path.join(V, "rules")); sys.path.insert(0, V)
import importlib.machinery, importlib.util
loader = importlib.machinery.SourceFileLoader("checkmod", os.path.join(V, "check"))
spec = importlib.util.spec_from_loader("checkmod", loader); ck = importlib.util.module_from_spec(spec); loader.exec_module(ck)
pid, rule = sys.argv[1], sys.argv[2]
repo = sys.argv[3] if len(sys.argv) > 3 else "/repo"
prog = ck.Program(ck.facts.extract(repo))
rep = ck.Report(pid, "quick", "other")
importlib.import_module(pid.lower()).run(ck.Ctx(prog, "quick", repo, rep))
for i in rep.instances:
    if i.get("rule") == rule:
        print("%-10s %s | %s | %s" % (i.get("verdict"), i.get("key"), i.get("where"), (i.get("detail") or "")[:100]))
