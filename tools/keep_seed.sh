#!/bin/bash
# usage: keep_seed.sh <tag> <slug>  — archive a confirmed seeded change under /verif/seeded/<tag>-<slug>/ and remove its worktree
T=$1; S=$2; W=/tmp/wt-$T; D=/verif/seeded/$T-$S
mkdir -p $D
cp $W/seed/patch.diff $W/seed/demo.sh $D/
python3 - "$W/seed/meta.json" "$D/meta.json" "/tmp/confirm-$T.log" <<'PY'
import json,sys
m=json.load(open(sys.argv[1]))
res=[l.strip() for l in open(sys.argv[3]) if l.startswith('RESULT')]
m['confirmed_by_me']={'ran':['cargo build --offline (worktree with the change)','bash seed/demo.sh <worktree>  (must fail)','bash seed/demo.sh /repo  (unchanged tree, must pass)','cargo test --offline (worktree with the change)'],'result':res[-1] if res else None}
json.dump(m,open(sys.argv[2],'w'),indent=1)
PY
git -C /repo worktree remove --force $W && echo "removed $W"
