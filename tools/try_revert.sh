#!/bin/sh
# usage: try_revert.sh <fix-commit> <ID>...  — temporarily un-applies a fix commit in /repo's working tree, runs the checks, restores
C=$1; shift
cd /repo || exit 9
if ! git diff --quiet; then echo "/repo has uncommitted changes"; exit 9; fi
git show "$C" -- src | git apply -R || { echo "cannot revert $C"; exit 9; }
E=$(mktemp -d); cp -r /verif/evidence/. $E/ 2>/dev/null
for id in "$@"; do
  (cd /verif && ./check "$id" 2>&1 | grep -E "^VIOLATION|^KNOWN|^CANNOT|^  rule=|^\[" )
done
git -C /repo reset -q --hard HEAD
cp -r $E/. /verif/evidence/ 2>/dev/null; rm -rf $E
