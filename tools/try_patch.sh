#!/bin/sh
# usage: try_patch.sh <patch.diff> <ID> [<ID>...]   — applies the patch to /repo, runs the checks, reverts
P=$(realpath "$1"); shift
cd /repo || exit 9
if ! git diff --quiet; then echo "/repo has uncommitted changes"; exit 9; fi
git apply "$P" 2>/dev/null || git apply --3way "$P" 2>/dev/null || { echo "patch does not apply"; git reset -q --hard HEAD; exit 9; }
E=$(mktemp -d); cp -r /verif/evidence/. $E/ 2>/dev/null
for id in "$@"; do
  (cd /verif && ./check "$id" 2>&1 | grep -E "^VIOLATION|^KNOWN|^CANNOT|^  rule=|^\[" )
done
git -C /repo reset -q --hard HEAD
cp -r $E/. /verif/evidence/ 2>/dev/null; rm -rf $E
