#!/usr/bin/env python3
import json, glob, sys
import jsonschema
m = json.load(open('/verif/MANIFEST.json'))
jsonschema.validate(m, json.load(open('/root/.vp/MANIFEST.schema.json')))
es = json.load(open('/root/.vp/EVIDENCE.schema.json'))
bad = 0
for c in m['checks']:
    try:
        jsonschema.validate(json.load(open(c['evidence_file'])), es)
    except Exception as e:
        bad += 1; print('BAD', c['evidence_file'], str(e)[:300])
print('manifest valid; %d checks; %d bad evidence' % (len(m['checks']), bad))
