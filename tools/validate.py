#!/usr/bin/env python3
import json, glob, sys
import jsonschema
m = json.load(open('/verif/MANIFEST.json'))
jsonschema.validate(m, json.load(open('/root/.vp/MANIFEST.schema.json')))
es = json.load(open('/root/.vp/EVIDENCE.schema.json'))
bad = 0
for c in m['checks']:
    try:
        ev = json.load(open(c['evidence_file']))
        jsonschema.validate(ev, es)
        cov = ev['coverage']
        if ev['level'] == 'proof' and cov.get('obligations') != cov.get('discharged'):
            raise Exception('proof: discharged %s != obligations %s' % (cov.get('discharged'), cov.get('obligations')))
        if ev.get('violations'):
            raise Exception('evidence records %s violations' % ev['violations'])
    except Exception as e:
        bad += 1; print('BAD', c['evidence_file'], str(e)[:300])
print('manifest valid; %d checks; %d bad evidence' % (len(m['checks']), bad))
