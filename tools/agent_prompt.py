#!/usr/bin/env python3
"""prints the sub-agent prompt for one property (only the property text, nothing from /verif)"""
import json, sys
pid = sys.argv[1]; tag = sys.argv[2] if len(sys.argv) > 2 else pid
hint = sys.argv[3] if len(sys.argv) > 3 else ""
for l in open('/verif/properties.jsonl'):
    p = json.loads(l)
    if p['id'] == pid:
        break
wt = "/tmp/wt-%s" % tag
print(f"""You are working in a scratch git worktree of rust-lang/rustfmt (the Rust source formatter, v1.8.0) at {wt}. The toolchain is pinned by the repository's rust-toolchain file and is installed. There is NO network: always build with `cargo build --offline` / `cargo test --offline` from {wt} (a warm target/ directory is already there). Running a built binary needs `LD_LIBRARY_PATH=$(rustc --print sysroot)/lib` (run `rustc` from inside {wt} so the pinned toolchain is used). Work ONLY inside {wt}; never touch /repo or /verif and do not read /verif.

Here is a semantic property that rustfmt is supposed to satisfy:

  Title: {p['title']}
  Statement: {p['statement']}

Your task: make a REALISTIC change to rustfmt's source (under {wt}/src) that BREAKS this property, while
  (a) the crate still compiles (`cargo build --offline`), and
  (b) the existing test suite still passes: `cargo test --offline 2>&1 | grep -E "^test result|FAILED|failed"` must show no failures (all tests that pass without your change must pass with it).
The change should look like a plausible refactoring slip, an incomplete feature, or a regression a maintainer could make — not sabotage. It must NOT be something that ordinary use would expose at once: it should need something specific to manifest (an unusual input, a particular option combination, a multi-step sequence of operations, a fault/crash at a particular point, or two cooperating sites that each look fine alone). Keep the change small (a few lines to a few dozen). {hint}

Deliverables (create the directory {wt}/seed/):
  1. {wt}/seed/patch.diff — output of `git -C {wt} diff -- src` (ONLY the source change; no new tests in it).
  2. {wt}/seed/demo.sh — a self-contained bash script taking the worktree root as $1 (already built with `cargo build --offline`), which exits 0 when the property holds on its scenario and non-zero when it is violated. It may create temp files under a mktemp dir and must clean up. It must FAIL with your change and PASS without it.
  3. {wt}/seed/meta.json — {{"property": "{pid}", "summary": "...what the change does...", "needs": "...what is needed for it to manifest...", "files": ["src/..."], "ran": ["commands you ran and what they showed"]}}

Verify everything yourself: build with the change; run the test suite and record the pass/fail counts; run demo.sh (must fail); then save the change with `git diff -- src > /tmp/mychange-{tag}.diff`, undo it with `git checkout -- src` (do NOT use `git stash`: the stash is shared with other worktrees of this repository and other people are using it), rebuild, run demo.sh (must pass); then re-apply it with `git apply /tmp/mychange-{tag}.diff` and rebuild so the worktree is left WITH the change applied and built. In your final message report: the change (diff), what it needs to manifest, test-suite result, demo result with and without the change.""")
