#!/usr/bin/env python3
"""Regenerates /verif/MANIFEST.json from the per-property table below (single source of truth)."""
import json
import os
import sys

VERIF = os.path.dirname(os.path.dirname(os.path.abspath(__file__)))
sys.path.insert(0, os.path.join(VERIF, "tools"))
from manifest_table import CLAIMS, NOT_APPLICABLE  # noqa: E402

checks = []
for pid in sorted(CLAIMS):
    c = CLAIMS[pid]
    if not os.path.exists(os.path.join(VERIF, "rules", pid.lower() + ".py")):
        NOT_APPLICABLE[pid] = "check not built yet (planned: %s)" % c["technique"]
        continue
    checks.append({
        "property_id": pid,
        "quick_cmd": "./check %s --tier quick" % pid,
        "thorough_cmd": "./check %s --tier thorough" % pid,
        "evidence_file": "/verif/evidence/%s.json" % pid,
        "replay_cmd_template": "./check explain {path}",
        "engine": "rfx+rules",
        "level_claimed": {"category": c["level"], "text": c["text"], "design_ref": "DESIGN.md §4 " + pid},
        "level_note": c["note"],
        "technique": c["technique"],
    })
m = {
    "version": 1,
    "setup_cmd": "cd /verif/driver && CARGO_NET_OFFLINE=true cargo build --release --offline",
    "hooks": {
        "guard": "rustfmt_verif",
        "enable": "none needed: the analysis reads the type-checked program through a rustc_private driver "
                  "(RUSTC_WORKSPACE_WRAPPER) and instruments nothing",
        "baseline_off_cmd": "cd /repo && cargo test --workspace --no-fail-fast --offline",
        "source_commits": [],
        "add_only": True,
    },
    "engines": [
        {"name": "rfx", "path": "driver/", "serves_properties": sorted(CLAIMS),
         "kind_free_text": "rustc_private fact extractor (MIR CFGs, resolved callees, typed HIR, ADT defs) run as "
                           "RUSTC_WORKSPACE_WRAPPER over /repo's current working tree"},
        {"name": "rules", "path": "rules/", "serves_properties": sorted(CLAIMS),
         "kind_free_text": "Python rule engines: call graph with CHA + higher-order edges, dominance/reachability, "
                           "finite abstract evaluation of loop-free regions (decision tables), typestate, field-access sets"},
    ],
    "checks": checks,
    "not_applicable": [{"property_id": k, "reason": v} for k, v in sorted(NOT_APPLICABLE.items())],
    "notes": "Static analysis only. Every check re-extracts facts from /repo's working tree (cached by content hash) "
             "and reports a specific construct. Exit 2 = cannot decide (anchor changed shape), never printed as VIOLATION.",
}
with open(os.path.join(VERIF, "MANIFEST.json"), "w") as fh:
    json.dump(m, fh, indent=1)
print("MANIFEST.json: %d checks, %d not_applicable" % (len(checks), len(m["not_applicable"])))
