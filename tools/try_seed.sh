#!/bin/bash
# usage: try_seed.sh <seed-tag> <ID>...  — applies seeded/<tag>-*/patch(.rebased).diff to a scratch copy of /repo and runs the checks there
T=$1; shift
D=$(ls -d /verif/seeded/$T-* | head -1)
P=$D/patch.diff; [ -f $D/patch.rebased.diff ] && P=$D/patch.rebased.diff
S=$(mktemp -d /tmp/scr.XXXX); O=$(mktemp -d)
rsync -a --exclude target --exclude .git /repo/ $S/
(cd $S && patch -p1 -s < $P) || { echo "$T: does not apply"; rm -rf $S $O; exit 9; }
for id in "$@"; do (cd /verif && VERIF_OUT_DIR=$O ./check $id --repo $S 2>&1 | grep -E "rule=|CANNOT|^\[C|Traceback|Error"); done
rm -rf $S $O
