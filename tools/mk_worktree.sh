#!/bin/sh
# usage: mk_worktree.sh <name>  -> creates /tmp/wt-<name> (detached worktree of /repo HEAD) with a warm target dir
set -e
D=/tmp/wt-$1
git -C /repo worktree add --detach "$D" HEAD >/dev/null 2>&1
cp -r /repo/target "$D/target"
echo "$D"
