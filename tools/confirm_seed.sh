#!/bin/bash
# usage: confirm_seed.sh <tag>   (worktree /tmp/wt-<tag> left with the change applied and built)
# confirms: builds, test suite passes with the change, demo fails with it and passes on /repo (without it)
T=$1; W=/tmp/wt-$T
cd $W || exit 9
export CARGO_NET_OFFLINE=true
L=/tmp/confirm-$T.log; : > $L
git diff -- src > /tmp/confirm-$T.diff
if ! diff -q /tmp/confirm-$T.diff seed/patch.diff >/dev/null; then echo "NOTE: seed/patch.diff differs from worktree diff" >> $L; fi
cargo build --offline >> $L 2>&1 || { echo "BUILD FAILED" | tee -a $L; exit 1; }
bash seed/demo.sh $W >> $L 2>&1; with=$?
bash seed/demo.sh /repo >> $L 2>&1; without=$?
cargo test --offline > /tmp/confirm-$T.test 2>&1
fails=$(grep -E "^test result: FAILED|^test .* FAILED|error: test failed" /tmp/confirm-$T.test | wc -l)
passed=$(grep -E "^test result:" /tmp/confirm-$T.test | sed -E 's/.* ([0-9]+) passed.*/\1/' | paste -sd+ | bc)
echo "RESULT tag=$T demo_with=$with demo_without=$without test_failures=$fails passed=$passed" | tee -a $L
