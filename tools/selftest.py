#!/usr/bin/env python3
"""Self-test of the checkers (not part of any registered check):
   1. every check exits 0 on the current tree;
   2. every seeded change (seeded/<id>/patch[.rebased].diff) is reported by the check of its property (documented misses excepted);
   3. every `fix:` commit, un-applied, is reported again by the rule that found it (known_findings.json status=fixed);
   4. every behaviour-preserving refactoring (benign/*/NN.diff) leaves all checks silent.
   All trials run on scratch copies of /repo, in parallel, with their own output directories."""
import concurrent.futures as cf
import glob, json, os, shutil, subprocess, sys, tempfile

VERIF = os.path.dirname(os.path.dirname(os.path.abspath(__file__)))
REPO = os.environ.get("SELFTEST_REPO", "/repo")
ALL = ["C01", "C03", "C04", "C05", "C06", "C07", "C08", "C09", "C10", "C11", "C12", "C13", "C14", "C15", "C16", "C17", "C18", "C19", "C20"]
DOC_MISS = {"C09d-continued-line-predicate-changed-on-2024-branch", "C09-endstringcommented-guard-lost", "C09c-qualified-macro-special-case-2024", "C08c-leading-blank-skip-only-strips-bare-newlines", "C19c-hunk-body-tracking-miscounts-stripped-blank-context"}


def scratch(patch=None, reverse_commit=None):
    d = tempfile.mkdtemp(prefix="selftest-")
    subprocess.run(["rsync", "-a", "--exclude", "target", "--exclude", ".git", REPO + "/", d + "/"], check=True)
    if patch:
        r = subprocess.run(["git", "apply", "--whitespace=nowarn", patch], cwd=d, capture_output=True)
        if r.returncode != 0:
            r = subprocess.run(["patch", "-p1", "-s", "-i", patch], cwd=d, capture_output=True)
            if r.returncode != 0:
                shutil.rmtree(d)
                return None
    if reverse_commit:
        diff = subprocess.run(["git", "-C", REPO, "show", reverse_commit, "--", "src"], capture_output=True).stdout
        r = subprocess.run(["git", "apply", "-R", "--whitespace=nowarn"], input=diff, cwd=d, capture_output=True)
        if r.returncode != 0:
            shutil.rmtree(d)
            return None
    return d


def run_checks(repo, ids):
    out = tempfile.mkdtemp(prefix="selftest-out-")
    env = dict(os.environ, VERIF_OUT_DIR=out)
    res = {}
    for pid in ids:
        r = subprocess.run([os.path.join(VERIF, "check"), pid, "--repo", repo], cwd=VERIF, env=env, capture_output=True, text=True)
        lines = [l for l in (r.stdout + r.stderr).splitlines() if l.startswith(("VIOLATION", "CANNOT", "  rule=", "Traceback")) or "Error" in l[:40]]
        res[pid] = (r.returncode, lines)
    shutil.rmtree(out, ignore_errors=True)
    return res


def trial(kind, name, patch=None, rev=None, ids=None):
    d = scratch(patch, rev)
    if d is None:
        return (kind, name, "skipped (does not apply)", [])
    try:
        res = run_checks(d, ids or ALL)
    finally:
        shutil.rmtree(d, ignore_errors=True)
    bad = {p: v for p, v in res.items() if v[0] != 0}
    return (kind, name, bad, res)


def main():
    jobs = []
    which = set(sys.argv[1:]) or {"clean", "seeded", "fixes", "benign"}
    with cf.ThreadPoolExecutor(max_workers=4) as ex:
        if "clean" in which:
            jobs.append(ex.submit(trial, "clean", "current tree"))
        if "seeded" in which:
            for d in sorted(glob.glob(os.path.join(VERIF, "seeded", "*"))):
                name = os.path.basename(d)
                patch = os.path.join(d, "patch.rebased.diff")
                if not os.path.exists(patch):
                    patch = os.path.join(d, "patch.diff")
                jobs.append(ex.submit(trial, "seeded", name, patch, None, [name.split("-")[0].rstrip("abcdefgh")]))
        if "fixes" in which:
            kf = json.load(open(os.path.join(VERIF, "known_findings.json")))["findings"]
            seen = set()
            for k in kf:
                if k.get("status") == "fixed" and k["rule"].startswith("R") and "(" not in k["rule"] and (k["commit"], k["property"]) not in seen:
                    seen.add((k["commit"], k["property"]))
                    jobs.append(ex.submit(trial, "fix-revert", "%s %s" % (k["commit"], k["property"]), None, k["commit"], [k["property"]]))
        if "benign" in which:
            for f in sorted(glob.glob(os.path.join(VERIF, "benign", "*", "*.diff"))):
                jobs.append(ex.submit(trial, "benign", os.path.relpath(f, os.path.join(VERIF, "benign")), f))
        fails = 0
        for j in jobs:
            kind, name, bad, res = j.result()
            if isinstance(bad, str):
                print("%-10s %-45s %s" % (kind, name, bad))
                continue
            if kind in ("clean", "benign"):
                ok = not bad
                detail = "" if ok else "; ".join("%s exit %d %s" % (p, v[0], " | ".join(v[1][:3])[:200]) for p, v in bad.items())
            else:
                ok = any(v[0] == 1 for v in res.values()) or name in DOC_MISS
                detail = "documented miss" if (name in DOC_MISS and not bad) else "; ".join(
                    l.strip()[:120] for v in res.values() for l in v[1] if l.startswith("  rule="))[:260]
            if not ok:
                fails += 1
            print("%-10s %-45s %s %s" % (kind, name, "ok  " if ok else "FAIL", detail))
    print("selftest: %d failures" % fails)
    return 1 if fails else 0


if __name__ == "__main__":
    sys.exit(main())
