#!/bin/bash
# usage: try_refactors.sh <dir with NN.diff> [IDs...]  — applies each diff to a scratch copy of /repo and runs the checks there
# (evidence/violations go to a scratch dir). Prints one line per diff; any VIOLATION / CANNOT-DECIDE is a false alarm to fix.
D=$1; shift
IDS=${@:-all}
OUT=$(mktemp -d)
for f in $D/*.diff; do
  S=$(mktemp -d /tmp/refactor-scratch.XXXX)
  rsync -a --exclude target --exclude .git /repo/ $S/
  if ! (cd $S && git apply --whitespace=nowarn $f 2>/dev/null || patch -p1 -s -i $f >/dev/null 2>&1); then echo "$(basename $f): does not apply"; rm -rf $S; continue; fi
  R=""
  for id in $IDS; do
    R="$R$(cd /verif && VERIF_OUT_DIR=$OUT ./check $id --repo $S 2>&1 | grep -E '^VIOLATION|^CANNOT|^  rule=|compile|Traceback|Error' | tr '\n' ';')"
  done
  echo "$(basename $f): ${R:-clean}"
  rm -rf $S
done
rm -rf $OUT
