#!/usr/bin/env python3
"""Rewrites §16 of DESIGN.md (the rule inventory) from evidence/<id>.json of the current tree."""
import glob, json, os, re
ROOT = os.path.dirname(os.path.dirname(os.path.abspath(__file__)))
out = ["## 16. Rule inventory (generated from the evidence of the current tree)", "",
       "Every rule a check runs, with the statement it decides (the `rule` text of `evidence/<id>.json`; regenerate with",
       "`python3 tools/gen_inventory.py`); the sections of §4 describe the rules of the original plan in detail, the ones added",
       "later (§11, §13) are described here by their own statement.", ""]
nr = 0
for f in sorted(glob.glob(os.path.join(ROOT, "evidence", "C*.json"))):
    e = json.load(open(f))
    out += ["**%s**" % e["property_id"], ""]
    for part in e["coverage"]["explanation"].split(" || "):
        m = re.match(r"^(R\d+-[a-z0-9]+): (.*?)(?: \[instances=.*\])?$", part.strip(), re.S)
        if not m:
            continue
        nr += 1
        out.append("* `%s` — %s" % (m.group(1), " ".join(m.group(2).split())))
    out.append("")
p = os.path.join(ROOT, "DESIGN.md")
s = open(p).read()
i = s.index("## 16. Rule inventory")
open(p, "w").write(s[:i] + "\n".join(out))
print("inventory: %d rules" % nr)
